//! C11 — parent-based backup = full backup.
//! * `c11 proc …`: the real `Parent::process` (hook `verif::parent`) driven over an item stream against
//!   parent trees stored in an in-memory repository, vs. the Lean model `Rustic.Parent.run`.
//! * `c11 e2e …`: real backup pairs on `MemBackend` with a controllable in-memory source — parent-based vs.
//!   `force`, parents whose blobs were partly removed from the index — vs. the Lean model of the archiver;
//!   direct oracles: equal tree ids (whenever every changed file also changed size/mtime/ctime), the new
//!   snapshot reads back as the source, files whose parent blobs are missing are re-read.
use std::collections::{BTreeMap, BTreeSet};
use std::ffi::OsString;
use std::os::unix::ffi::OsStringExt;
use std::path::PathBuf;

use crate::repo::{MemBackend, RepoHandle};
use crate::util::{Rng, Stats, guarded, hex, unhex};
use rustic_core::repofile::{BlobType, Metadata, Node, NodeType, Tree};
use rustic_core::verif::parent as hook;
use rustic_core::{BlobId, ConfigOptions, DataId, Id, TreeId};

// ------------------------------------------------------------------------------------------------
// abstract nodes and their token encoding (shared with Driver/C11.lean)

#[derive(Clone, Debug, PartialEq)]
pub enum K {
    File,
    Dir,
    Link(Vec<u8>),
    Other(u8),
}

#[derive(Clone, Debug)]
pub struct N {
    pub name: Vec<u8>,
    pub kind: K,
    pub size: u64,
    pub mtime: Option<i64>,
    pub ctime: Option<i64>,
    pub inode: u64,
    pub content: Option<Vec<u64>>,
    pub subtree: Option<u64>,
}

fn opt_i(o: Option<i64>) -> String {
    o.map_or("n".into(), |v| v.to_string())
}

pub fn content_tok(c: &Option<Vec<u64>>) -> String {
    match c {
        None => "n".into(),
        Some(v) if v.is_empty() => "e".into(),
        Some(v) => v.iter().map(u64::to_string).collect::<Vec<_>>().join("."),
    }
}

impl N {
    pub fn enc(&self) -> String {
        let kind = match &self.kind {
            K::File => "f".to_string(),
            K::Dir => "d".to_string(),
            K::Link(t) => format!("l{}", hex(t)),
            K::Other(k) => format!("o{k}"),
        };
        format!(
            "{}:{}:{}:{}:{}:{}:{}:{}",
            hex(&self.name),
            kind,
            self.size,
            opt_i(self.mtime),
            opt_i(self.ctime),
            self.inode,
            content_tok(&self.content),
            self.subtree.map_or("n".into(), |v| v.to_string())
        )
    }
    pub fn dec(s: &str) -> Option<N> {
        let f: Vec<&str> = s.split(':').collect();
        if f.len() != 8 {
            return None;
        }
        let kind = match f[1].split_at(1) {
            ("f", "") => K::File,
            ("d", "") => K::Dir,
            ("l", t) => K::Link(unhex(t)?),
            ("o", k) => K::Other(k.parse().ok()?),
            _ => return None,
        };
        let oi = |x: &str| if x == "n" { Some(None) } else { x.parse::<i64>().ok().map(Some) };
        let content = match f[6] {
            "n" => None,
            "e" => Some(vec![]),
            c => Some(c.split('.').map(|x| x.parse::<u64>().ok()).collect::<Option<Vec<_>>>()?),
        };
        Some(N {
            name: unhex(f[0])?,
            kind,
            size: f[2].parse().ok()?,
            mtime: oi(f[3])?,
            ctime: oi(f[4])?,
            inode: f[5].parse().ok()?,
            content,
            subtree: if f[7] == "n" { None } else { Some(f[7].parse().ok()?) },
        })
    }
}

/// fake ids whose byte order is the label order (so `new_ids.sort()` sorts by label)
pub fn fake_id(label: u64, tag: u8) -> Id {
    let mut b = [0u8; 32];
    b[..8].copy_from_slice(&label.to_be_bytes());
    b[31] = tag;
    Id::new(b)
}
fn label_of(id: &Id) -> u64 {
    u64::from_str_radix(&id.to_hex().as_str()[..16], 16).unwrap()
}
const TAG_DATA: u8 = 0xD1;
const TAG_TREE: u8 = 0x7E;

/// Time stamps of the op lines are ONE integer per stamp (the model's `Option Int`): `seconds + (nanoseconds << 32)` with
/// `0 <= seconds < 2^32`, `0 <= nanoseconds < 10^9` — an injective encoding of the full (second, nanosecond) pair, so
/// "equal integers" on the model side is "equal to the nanosecond" on the real side.  Plain small values (every op line written
/// before the sub-second generators existed) are whole seconds.
pub const NS_SHIFT: u32 = 32;
pub fn stamp(secs: i64, nanos: u32) -> i64 {
    secs + (i64::from(nanos) << NS_SHIFT)
}
pub fn stamp_secs(v: i64) -> i64 {
    v & ((1i64 << NS_SHIFT) - 1)
}
pub fn stamp_nanos(v: i64) -> i32 {
    (v >> NS_SHIFT) as i32
}
pub fn ts(v: i64) -> rustic_core::jiff::Timestamp {
    if v < 0 {
        return rustic_core::jiff::Timestamp::from_second(v).unwrap();
    }
    rustic_core::jiff::Timestamp::new(stamp_secs(v), stamp_nanos(v)).unwrap()
}

fn real_node(n: &N) -> Node {
    let meta = Metadata {
        mode: Some(0o644),
        mtime: n.mtime.map(ts),
        atime: None,
        ctime: n.ctime.map(ts),
        uid: None,
        gid: None,
        user: None,
        group: None,
        inode: n.inode,
        device_id: 0,
        size: n.size,
        links: 1,
        extended_attributes: vec![],
    };
    let nt = match &n.kind {
        K::File => NodeType::File,
        K::Dir => NodeType::Dir,
        K::Link(t) => NodeType::from_link(&PathBuf::from(OsString::from_vec(t.clone()))),
        K::Other(0) => NodeType::Fifo,
        K::Other(_) => NodeType::Socket,
    };
    let mut node = Node::new_node(&OsString::from_vec(n.name.clone()), nt, meta);
    node.content = n.content.as_ref().map(|c| c.iter().map(|l| DataId::from(fake_id(*l, TAG_DATA))).collect());
    node.subtree = n.subtree.map(|l| TreeId::from(fake_id(l, TAG_TREE)));
    node
}

fn real_content_tok(node: &Node) -> String {
    content_tok(&node.content.as_ref().map(|c| c.iter().map(|d| label_of(d)).collect()))
}

type StoreSpec = Vec<(u64, Vec<N>)>;

fn parse_store(s: &str) -> Option<StoreSpec> {
    if s == "-" {
        return Some(vec![]);
    }
    s.split(';')
        .map(|t| {
            let (id, ns) = t.split_once('=')?;
            let nodes = if ns.is_empty() { Some(vec![]) } else { ns.split('|').map(N::dec).collect::<Option<Vec<_>>>() }?;
            Some((id.parse::<u64>().ok()?, nodes))
        })
        .collect()
}
fn enc_store(st: &StoreSpec) -> String {
    if st.is_empty() {
        return "-".into();
    }
    st.iter()
        .map(|(id, ns)| format!("{id}={}", ns.iter().map(N::enc).collect::<Vec<_>>().join("|")))
        .collect::<Vec<_>>()
        .join(";")
}
fn parse_labels(s: &str) -> Option<Vec<u64>> {
    if s == "-" {
        return Some(vec![]);
    }
    s.split(',').map(|x| x.parse().ok()).collect()
}
fn enc_labels(v: &[u64]) -> String {
    if v.is_empty() { "-".into() } else { v.iter().map(u64::to_string).collect::<Vec<_>>().join(",") }
}

#[derive(Clone, Debug)]
pub enum It {
    New(N),
    End,
    Other(N),
}
fn parse_items(s: &str) -> Option<Vec<It>> {
    if s == "-" {
        return Some(vec![]);
    }
    s.split(';')
        .map(|t| match t.split_at(1) {
            ("E", "") => Some(It::End),
            ("N", n) => N::dec(n).map(It::New),
            ("O", n) => N::dec(n).map(It::Other),
            _ => None,
        })
        .collect()
}
fn enc_items(v: &[It]) -> String {
    if v.is_empty() {
        return "-".into();
    }
    v.iter()
        .map(|i| match i {
            It::End => "E".to_string(),
            It::New(n) => format!("N{}", n.enc()),
            It::Other(n) => format!("O{}", n.enc()),
        })
        .collect::<Vec<_>>()
        .join(";")
}

// ------------------------------------------------------------------------------------------------
// proc: the real `Parent::process`

fn exec_proc(flags: &str, index: &str, store: &str, roots: &str, items: &str) -> String {
    let (Some(index), Some(store), Some(roots), Some(items)) =
        (parse_labels(index), parse_store(store), parse_labels(roots), parse_items(items))
    else {
        return "bad-op".into();
    };
    let fl: Vec<char> = flags.chars().collect();
    if fl.len() != 2 || fl.iter().any(|c| *c != '0' && *c != '1') {
        return "bad-op".into();
    }
    let (ic, ii) = (fl[0] == '1', fl[1] == '1');
    let be = MemBackend::new();
    let (h, repo) = match RepoHandle::init_nc(be, None, &ConfigOptions::default()) {
        Ok(x) => x,
        Err(e) => return crate::util::errkind(&e),
    };
    // store the parent trees under their fake ids and dummy data blobs for the indexed labels
    let mut blobs: Vec<(BlobType, Vec<u8>, BlobId)> = Vec::new();
    let mut seen = BTreeSet::new();
    for (id, nodes) in &store {
        if !seen.insert(*id) {
            continue; // a store is a map: first binding wins (as in the model)
        }
        let tree = Tree { nodes: nodes.iter().map(real_node).collect() };
        let (chunk, _) = tree.serialize().unwrap();
        blobs.push((BlobType::Tree, chunk, BlobId::from(fake_id(*id, TAG_TREE))));
    }
    for l in &index {
        blobs.push((BlobType::Data, format!("data-{l}").into_bytes(), BlobId::from(fake_id(*l, TAG_DATA))));
    }
    if let Err(e) = rustic_core::verif::packer::pack_blobs(&repo, blobs) {
        return crate::util::errkind(&e);
    }
    drop(repo);
    let repo = match h.open_nc().and_then(|r| r.to_indexed_ids()) {
        Ok(r) => r,
        Err(e) => return crate::util::errkind(&e),
    };
    let mut parent = hook::new_parent(&repo, roots.iter().map(|l| TreeId::from(fake_id(*l, TAG_TREE))).collect(), ic, ii);
    let mut out = vec!["ok".to_string()];
    for it in items {
        let item = match &it {
            It::New(n) => hook::Item::NewTree(real_node(n), OsString::from_vec(n.name.clone())),
            It::End => hook::Item::EndTree,
            It::Other(n) => hook::Item::Other(real_node(n)),
        };
        out.push(match hook::process(&mut parent, &repo, item) {
            hook::Out::NewTree("M", Some(id)) => format!("N:M{}", label_of(&id)),
            hook::Out::NewTree(k, _) => format!("N:{k}"),
            hook::Out::EndTree => "E".into(),
            hook::Out::StackEmpty => "X".into(),
            hook::Out::Other(node, k) => format!("O:{k}:{}", real_content_tok(&node)),
        });
    }
    out.join(" ")
}

// ------------------------------------------------------------------------------------------------
// generator

const NAMES: [&[u8]; 12] = [b"a", b"b", b"c", b"ab", b"a.b", b"a\xff", b"B", b"d", b"e", b"", b"zz", b"a/"];

const PROC_NS: [u32; 4] = [0, 0, 1, 999_999_999];

fn gen_meta(rng: &mut Rng) -> (u64, Option<i64>, Option<i64>, u64) {
    let size = *rng.pick(&[0u64, 1, 5, 5, 64, 100]);
    // full (second, nanosecond) stamps: few seconds x few sub-second parts, so that stamps equal to the nanosecond, differing only
    // in the nanoseconds and differing only in the seconds all occur between a node and its parent node
    let mtime = if rng.chance(1, 12) { None } else { Some(stamp(1000 + rng.below(3) as i64, *rng.pick(&PROC_NS))) };
    let ctime = if rng.chance(1, 8) { None } else { Some(stamp(2000 + rng.below(3) as i64, *rng.pick(&PROC_NS))) };
    let inode = rng.below(3);
    (size, mtime, ctime, inode)
}

fn gen_kind(rng: &mut Rng) -> K {
    match rng.below(10) {
        0..=4 => K::File,
        5..=7 => K::Dir,
        8 => K::Link(rng.pick(&[b"t".to_vec(), b"u".to_vec(), vec![0xff]]).clone()),
        _ => K::Other(rng.below(2) as u8),
    }
}

/// One random directory level; sub-directories are generated recursively into `store`; returns the nodes.
fn gen_tree(rng: &mut Rng, depth: u32, store: &mut StoreSpec, next: &mut u64, sorted: bool) -> Vec<N> {
    let n = rng.below(5) as usize;
    let mut names: Vec<Vec<u8>> = (0..n).map(|_| rng.pick(&NAMES).to_vec()).collect();
    if sorted {
        names.sort();
        names.dedup();
    }
    let mut nodes = vec![];
    for name in names {
        let kind = if depth == 0 { if rng.chance(1, 2) { K::File } else { gen_kind(rng) } } else { gen_kind(rng) };
        let kind = if depth == 0 && kind == K::Dir && rng.chance(1, 2) { K::File } else { kind };
        let (size, mtime, ctime, inode) = gen_meta(rng);
        let mut node = N { name, kind: kind.clone(), size, mtime, ctime, inode, content: None, subtree: None };
        match kind {
            K::File => {
                let k = rng.below(3) as usize;
                node.content = Some((0..k).map(|_| rng.below(12)).collect());
            }
            K::Dir => {
                if depth > 0 {
                    let sub = gen_tree(rng, depth - 1, store, next, sorted);
                    // sometimes bind the subtree under a label that is NOT stored (load error → ignored)
                    let id = *next;
                    *next += 1;
                    if !rng.chance(1, 15) {
                        store.push((id, sub));
                    }
                    node.subtree = Some(id);
                } else {
                    node.subtree = Some(900 + rng.below(3)); // dangling
                }
            }
            _ => {}
        }
        nodes.push(node);
    }
    nodes
}

fn mutate(rng: &mut Rng, n: &N, stats: &mut Stats) -> N {
    let mut m = n.clone();
    m.content = None;
    m.subtree = None;
    match rng.below(12) {
        0 => {
            m.mtime = Some(match (n.mtime, rng.below(3)) {
                (Some(t), 0) => {
                    stats.hit("c11.mut.mtime-nanoseconds-only");
                    stamp(stamp_secs(t), (stamp_nanos(t) as u32 + *rng.pick(&[1u32, 1000, 500_000_000])) % 1_000_000_000)
                }
                _ => stamp(1000 + rng.below(4) as i64, *rng.pick(&PROC_NS)),
            });
            stats.hit("c11.mut.mtime");
        }
        1 => {
            m.size = *rng.pick(&[0u64, 1, 5, 64, 100]);
            stats.hit("c11.mut.size");
        }
        2 => {
            m.ctime = Some(match (n.ctime, rng.below(3)) {
                (Some(t), 0) => {
                    stats.hit("c11.mut.ctime-nanoseconds-only");
                    stamp(stamp_secs(t), (stamp_nanos(t) as u32 + *rng.pick(&[1u32, 1000, 500_000_000])) % 1_000_000_000)
                }
                _ => stamp(2000 + rng.below(4) as i64, *rng.pick(&PROC_NS)),
            });
            stats.hit("c11.mut.ctime");
        }
        3 => {
            m.inode = rng.below(4);
            stats.hit("c11.mut.inode");
        }
        4 => {
            m.kind = gen_kind(rng);
            stats.hit("c11.mut.kind");
        }
        5 => {
            m.ctime = None;
            stats.hit("c11.mut.ctime-none");
        }
        _ => stats.hit("c11.mut.same"),
    }
    m
}

/// Item stream for a "current" directory derived from the parent nodes `pn` (looked up in `store`).
fn gen_items(rng: &mut Rng, pn: &[N], store: &StoreSpec, depth: u32, out: &mut Vec<It>, stats: &mut Stats, sorted: bool) {
    let mut cur: Vec<(N, Option<Vec<N>>)> = vec![];
    for p in pn {
        if rng.chance(1, 8) {
            continue; // removed
        }
        let m = mutate(rng, p, stats);
        let sub = p.subtree.and_then(|id| store.iter().find(|(i, _)| *i == id).map(|(_, ns)| ns.clone()));
        cur.push((m, sub));
    }
    for _ in 0..rng.below(3) {
        let (size, mtime, ctime, inode) = gen_meta(rng);
        cur.push((N { name: rng.pick(&NAMES).to_vec(), kind: gen_kind(rng), size, mtime, ctime, inode, content: None, subtree: None }, None));
    }
    if sorted {
        cur.sort_by(|a, b| a.0.name.cmp(&b.0.name));
    }
    for (n, sub) in cur {
        if n.kind == K::Dir {
            out.push(It::New(n));
            if depth > 0 {
                gen_items(rng, &sub.unwrap_or_default(), store, depth - 1, out, stats, sorted);
            }
            if !rng.chance(1, 60) {
                out.push(It::End);
            }
        } else {
            out.push(It::Other(n));
        }
        if rng.chance(1, 80) {
            out.push(It::End); // unbalanced
        }
    }
}

fn gen_proc(rng: &mut Rng, stats: &mut Stats) -> String {
    let sorted = !rng.chance(1, 6);
    stats.hit(if sorted { "c11.proc.sorted" } else { "c11.proc.unsorted" });
    let mut store: StoreSpec = vec![];
    let mut next = 1 + rng.below(5);
    let n_roots = *rng.pick(&[0usize, 1, 1, 1, 2, 2, 3]);
    stats.hit(format!("c11.proc.roots.{n_roots}"));
    let mut roots = vec![];
    let mut root_nodes: Vec<Vec<N>> = vec![];
    for r in 0..n_roots {
        let nodes = if r > 0 && rng.chance(1, 2) {
            // a later parent: the first one with a few nodes changed (shares subtrees → dedup path)
            let mut ns = root_nodes[0].clone();
            for n in ns.iter_mut() {
                if rng.chance(1, 3) {
                    let (size, mtime, ctime, inode) = gen_meta(rng);
                    (n.size, n.mtime, n.ctime, n.inode) = (size, mtime, ctime, inode);
                    if n.kind == K::File {
                        n.content = Some(vec![rng.below(12)]);
                    }
                }
            }
            ns
        } else {
            gen_tree(rng, 2, &mut store, &mut next, sorted)
        };
        let id = next;
        next += 1 + rng.below(2);
        if !rng.chance(1, 20) {
            store.push((id, nodes.clone()));
        }
        roots.push(id);
        root_nodes.push(nodes);
    }
    // shuffle the label order relative to creation order sometimes: relabel by reversing
    if rng.chance(1, 3) {
        let maxl = next + 1;
        let f = |l: u64| if l >= 900 { l } else { maxl - l };
        for (id, ns) in store.iter_mut() {
            *id = f(*id);
            for n in ns.iter_mut() {
                n.subtree = n.subtree.map(f);
            }
        }
        for ns in root_nodes.iter_mut() {
            for n in ns.iter_mut() {
                n.subtree = n.subtree.map(f);
            }
        }
        for r in roots.iter_mut() {
            *r = f(*r);
        }
    }
    let index: Vec<u64> = (0..12).filter(|_| rng.chance(4, 5)).collect();
    let mut items = vec![];
    let base = root_nodes.first().cloned().unwrap_or_default();
    gen_items(rng, &base, &store, 2, &mut items, stats, sorted);
    stats.add("c11.proc.items", items.len() as u64);
    let flags = format!("{}{}", rng.below(2), rng.below(2));
    format!("c11 proc {flags} {} {} {} {}", enc_labels(&index), enc_store(&store), enc_labels(&roots), enc_items(&items))
}

// ------------------------------------------------------------------------------------------------
// e2e: real backups.  Source entries `p1/p2:kind:mtime:ctime:inode:content` (components hex), content =
// chunk labels; the repository uses the fixed-size chunker with 64-byte chunks and label `c` stands for a
// 64-byte block (c < 500) or a short final block of 8 + c % 50 bytes (c >= 500).

#[derive(Clone, Debug)]
pub struct SE {
    pub path: Vec<Vec<u8>>,
    pub kind: K,
    pub mtime: i64,
    pub ctime: i64,
    pub inode: u64,
    pub content: Vec<u64>,
}

pub fn block(label: u64) -> Vec<u8> {
    let n = if label < 500 { 64 } else { 8 + (label % 50) as usize };
    let mut r = Rng::new(label ^ 0xB10C);
    let mut v = (label as u32).to_le_bytes().to_vec(); // distinct labels => distinct bytes
    v.extend(r.bytes(64));
    v.truncate(n);
    v
}

fn path_tok(p: &[Vec<u8>]) -> String {
    if p.is_empty() { ".".into() } else { p.iter().map(|c| hex(c)).collect::<Vec<_>>().join("/") }
}
fn parse_path(s: &str) -> Option<Vec<Vec<u8>>> {
    if s == "." {
        return Some(vec![]);
    }
    s.split('/').map(unhex).collect()
}

impl SE {
    pub fn enc(&self) -> String {
        let kind = match &self.kind {
            K::File => "f".to_string(),
            K::Dir => "d".to_string(),
            K::Link(t) => format!("l{}", hex(t)),
            K::Other(k) => format!("o{k}"),
        };
        let content = if self.kind == K::File { content_tok(&Some(self.content.clone())) } else { "n".into() };
        format!("{}:{}:{}:{}:{}:{}", path_tok(&self.path), kind, self.mtime, self.ctime, self.inode, content)
    }
    pub fn dec(s: &str) -> Option<SE> {
        let f: Vec<&str> = s.split(':').collect();
        if f.len() != 6 {
            return None;
        }
        let kind = match f[1].split_at(1) {
            ("f", "") => K::File,
            ("d", "") => K::Dir,
            ("l", t) => K::Link(unhex(t)?),
            _ => return None,
        };
        let content = match f[5] {
            "n" | "e" => vec![],
            c => c.split('.').map(|x| x.parse::<u64>().ok()).collect::<Option<Vec<_>>>()?,
        };
        let path = parse_path(f[0])?;
        if path.is_empty() {
            return None;
        }
        Some(SE { path, kind, mtime: f[2].parse().ok()?, ctime: f[3].parse().ok()?, inode: f[4].parse().ok()?, content })
    }
    pub fn bytes(&self) -> Vec<u8> {
        self.content.iter().flat_map(|l| block(*l)).collect()
    }
}

pub fn parse_src(s: &str) -> Option<Vec<SE>> {
    if s == "-" {
        return Some(vec![]);
    }
    s.split(';').map(SE::dec).collect()
}
pub fn enc_src(v: &[SE]) -> String {
    if v.is_empty() { "-".into() } else { v.iter().map(SE::enc).collect::<Vec<_>>().join(";") }
}

/// Reader that records that the file was read at all.
pub struct LogReader {
    idx: usize,
    cur: std::io::Cursor<Vec<u8>>,
    log: std::sync::Arc<std::sync::Mutex<BTreeSet<usize>>>,
}
impl std::io::Read for LogReader {
    fn read(&mut self, buf: &mut [u8]) -> std::io::Result<usize> {
        _ = self.log.lock().unwrap().insert(self.idx);
        self.cur.read(buf)
    }
}

/// In-memory source with controllable mtime / ctime / inode, in the order given (walk order).
#[derive(Clone)]
pub struct LogSource {
    pub entries: Vec<SE>,
    pub log: std::sync::Arc<std::sync::Mutex<BTreeSet<usize>>>,
}

pub const ROOT_TIME: i64 = 1_600_000_000;

impl LogSource {
    pub fn new(entries: Vec<SE>) -> Self {
        Self { entries, log: Default::default() }
    }
    fn node(name: &[u8], kind: &K, size: u64, mtime: i64, ctime: i64, inode: u64) -> Node {
        let meta = Metadata {
            mode: Some(if *kind == K::Dir { 0o755 } else { 0o644 }),
            mtime: Some(ts(mtime)),
            atime: Some(ts(mtime)),
            ctime: Some(ts(ctime)),
            uid: Some(1000),
            gid: Some(1000),
            user: None,
            group: None,
            inode,
            device_id: 1,
            size,
            links: 1,
            extended_attributes: vec![],
        };
        let nt = match kind {
            K::File => NodeType::File,
            K::Dir => NodeType::Dir,
            K::Link(t) => NodeType::from_link(&PathBuf::from(OsString::from_vec(t.clone()))),
            K::Other(_) => NodeType::Fifo,
        };
        Node::new_node(&OsString::from_vec(name.to_vec()), nt, meta)
    }
}

impl rustic_core::ReadSource for LogSource {
    type Open = LogReader;
    type Iter = std::vec::IntoIter<rustic_core::RusticResult<rustic_core::ReadSourceEntry<LogReader>>>;
    fn size(&self) -> rustic_core::RusticResult<Option<u64>> {
        Ok(None)
    }
    fn entries(&self) -> Self::Iter {
        let mut v = Vec::new();
        let root = Self::node(b"src", &K::Dir, 0, ROOT_TIME, ROOT_TIME, 0);
        v.push(Ok(rustic_core::ReadSourceEntry { path: PathBuf::from(crate::repo::SRC_ROOT), node: root, open: None }));
        for (idx, e) in self.entries.iter().enumerate() {
            let mut p = PathBuf::from(crate::repo::SRC_ROOT);
            for c in &e.path {
                p.push(OsString::from_vec(c.clone()));
            }
            let data = e.bytes();
            let size = if e.kind == K::File { data.len() as u64 } else { 0 };
            let node = Self::node(e.path.last().unwrap(), &e.kind, size, e.mtime, e.ctime, e.inode);
            let open = (e.kind == K::File).then(|| LogReader { idx, cur: std::io::Cursor::new(data), log: self.log.clone() });
            v.push(Ok(rustic_core::ReadSourceEntry { path: p, node, open }));
        }
        v.into_iter()
    }
}

fn sha(b: &[u8]) -> Id {
    use sha2::Digest;
    let d = sha2::Sha256::digest(b);
    let mut a = [0u8; 32];
    a.copy_from_slice(&d);
    Id::new(a)
}

/// Rewrite the index so that the given blob ids are no longer listed (the packs stay).
pub fn remove_from_index(h: &RepoHandle, ids: &BTreeSet<Id>) -> rustic_core::RusticResult<()> {
    use rustic_core::repofile::{IndexFile, IndexId};
    if ids.is_empty() {
        return Ok(());
    }
    let repo = h.open_nc()?;
    let files: Vec<(IndexId, IndexFile)> = repo.stream_files::<IndexFile>()?.collect::<rustic_core::RusticResult<_>>()?;
    let mut newf = IndexFile::default();
    for (_, f) in &files {
        for p in &f.packs {
            let mut p = p.clone();
            p.blobs.retain(|b| !ids.contains(&b.id));
            newf.packs.push(p);
        }
        for p in &f.packs_to_delete {
            newf.packs_to_delete.push(p.clone());
        }
    }
    for (id, _) in &files {
        h.be.del_raw(rustic_core::FileType::Index, id);
    }
    _ = rustic_core::verif::repository::save_file(&repo, &newf)?;
    Ok(())
}

pub fn fixed64_config() -> ConfigOptions {
    ConfigOptions::default()
        .set_chunker(rustic_core::repofile::Chunker::FixedSize)
        .set_chunk_size(bytesize::ByteSize(64))
}

pub fn new_snap() -> rustic_core::repofile::SnapshotFile {
    rustic_core::SnapshotOptions::default().host("vh".to_string()).to_snapshot().unwrap()
}

/// Compare a snapshot read back through ls + dump with the source it was made from.
fn reads_back_as(h: &RepoHandle, snap: &rustic_core::repofile::SnapshotFile, src: &[SE]) -> Result<bool, String> {
    let repo = h.open_nc().and_then(|r| r.to_indexed()).map_err(|e| crate::util::errkind(&e))?;
    let got = crate::repo::read_back(&repo, snap).map_err(|e| crate::util::errkind(&e))?;
    let mut exp: Vec<(Vec<u8>, String, Option<Vec<u8>>, Option<Vec<u8>>, Option<i64>)> = vec![(b"src".to_vec(), "dir".into(), None, None, Some(ROOT_TIME))];
    for e in src {
        let mut p = b"src".to_vec();
        for c in &e.path {
            p.push(b'/');
            p.extend_from_slice(c);
        }
        let (k, c, l) = match &e.kind {
            K::File => ("file", Some(e.bytes()), None),
            K::Dir => ("dir", None, None),
            K::Link(t) => ("symlink", None, Some(t.clone())),
            K::Other(_) => ("other", None, None),
        };
        exp.push((p, k.into(), c, l, Some(stamp_secs(e.mtime))));
    }
    let mut gotv: Vec<_> = got.into_iter().map(|r| (r.path, r.kind, r.content, r.link, r.mtime_s)).collect();
    gotv.sort();
    exp.sort();
    Ok(gotv == exp)
}

fn exec_e2e(flags: &str, pm: &str, a: &str, a2: &str, rmdata: &str, rmtree: &str, b: &str) -> String {
    use rustic_core::{BackupOptions, ParentOptions};
    let (Some(sa), Some(sa2), Some(rmd), Some(sb)) = (parse_src(a), parse_src(a2), parse_labels(rmdata), parse_src(b)) else {
        return "bad-op".into();
    };
    let rmt: Vec<Vec<Vec<u8>>> = if rmtree == "-" {
        vec![]
    } else {
        match rmtree.split(',').map(parse_path).collect::<Option<Vec<_>>>() {
            Some(v) => v,
            None => return "bad-op".into(),
        }
    };
    let fl: Vec<bool> = flags.chars().map(|c| c == '1').collect();
    if fl.len() != 3 || !flags.chars().all(|c| c == '0' || c == '1') || !["x", "r", "l"].contains(&pm) {
        return "bad-op".into();
    }
    macro_rules! tryk {
        ($e:expr) => {
            match $e {
                Ok(x) => x,
                Err(e) => return crate::util::errkind(&e),
            }
        };
    }
    let (h, repo) = tryk!(RepoHandle::init_nc(MemBackend::new(), None, &fixed64_config()));
    drop(repo);
    let force = BackupOptions::default().parent_opts(ParentOptions::default().force(true));
    // parents
    let repo_a = tryk!(h.open_nc().and_then(|r| r.to_indexed_ids()));
    let snap_a = tryk!(repo_a.archive(&force, &LogSource::new(sa.clone()), new_snap(), &[PathBuf::from(crate::repo::SRC_ROOT)]));
    let mut snap_a2 = None;
    if a2 != "-" {
        std::thread::sleep(std::time::Duration::from_millis(2));
        let r = tryk!(h.open_nc().and_then(|r| r.to_indexed_ids()));
        snap_a2 = Some(tryk!(r.archive(&force, &LogSource::new(sa2.clone()), new_snap(), &[PathBuf::from(crate::repo::SRC_ROOT)])));
    }
    // remove blobs from the index
    let mut rm_ids: BTreeSet<Id> = rmd.iter().map(|l| sha(&block(*l))).collect();
    {
        let r = tryk!(h.open_nc().and_then(|r| r.to_indexed_ids()));
        for p in &rmt {
            if p.is_empty() {
                _ = rm_ids.insert(*snap_a.tree);
                continue;
            }
            let mut pb = PathBuf::from("src");
            for c in &p[..] {
                pb.push(OsString::from_vec(c.clone()));
            }
            // `p` = [] is the snapshot root tree; otherwise the tree of directory src/<p> (p = ["-"] hex "-" is "src" itself)
            let node = if p.len() == 1 && p[0].is_empty() { r.node_from_path(snap_a.tree, std::path::Path::new("src")) } else { r.node_from_path(snap_a.tree, &pb) };
            if let Ok(n) = node {
                if let Some(t) = n.subtree {
                    _ = rm_ids.insert(*t);
                }
            }
        }
    }
    tryk!(remove_from_index(&h, &rm_ids));
    // parent-based backup
    let mut popts = ParentOptions::default().ignore_ctime(fl[0]).ignore_inode(fl[1]).skip_if_unchanged(fl[2]);
    let ida = snap_a.id.to_hex().to_string();
    let ida2 = snap_a2.as_ref().map(|s| s.id.to_hex().to_string());
    let want_parents: Vec<String> = match (pm, &ida2) {
        ("x", Some(i2)) => vec![ida.clone(), i2.clone()],
        ("r", Some(i2)) => vec![i2.clone(), ida.clone()],
        ("l", Some(i2)) => vec![i2.clone()],
        _ => vec![ida.clone()],
    };
    if pm != "l" {
        popts = popts.parents(want_parents.clone());
    }
    let src_b = LogSource::new(sb.clone());
    std::thread::sleep(std::time::Duration::from_millis(2));
    let repo_p = tryk!(h.open_nc().and_then(|r| r.to_indexed_ids()));
    let snap_p = tryk!(repo_p.archive(&BackupOptions::default().parent_opts(popts), &src_b, new_snap(), &[PathBuf::from(crate::repo::SRC_ROOT)]));
    drop(repo_p);
    let used: Vec<String> = snap_p.parents.iter().map(|i| i.to_hex().to_string()).collect();
    if used != want_parents {
        return format!("oracle-fail:parent-selection used={} want={}", used.len(), want_parents.len());
    }
    let reads: Vec<usize> = src_b.log.lock().unwrap().iter().copied().collect();
    let saved = !snap_p.id.is_null();
    // oracle: the parent-based snapshot must be completely readable right now (before any other backup)
    let p_ok = if saved {
        match reads_back_as(&h, &snap_p, &sb) {
            Ok(x) => Some(x),
            Err(e) => return format!("oracle-fail:parent-snapshot-unreadable:{e}"),
        }
    } else {
        None
    };
    // forced backup of the same source
    let repo_f = tryk!(h.open_nc().and_then(|r| r.to_indexed_ids()));
    let src_f = LogSource::new(sb.clone());
    let snap_f = tryk!(repo_f.archive(&force, &src_f, new_snap(), &[PathBuf::from(crate::repo::SRC_ROOT)]));
    drop(repo_f);
    let n_files = sb.iter().filter(|e| e.kind == K::File).count();
    if src_f.log.lock().unwrap().len() != n_files {
        return "oracle-fail:forced-backup-did-not-read-every-file".into();
    }
    match reads_back_as(&h, &snap_f, &sb) {
        Ok(true) => {}
        Ok(false) => return "oracle-fail:forced-snapshot-differs-from-source".into(),
        Err(e) => return format!("oracle-fail:forced-snapshot-unreadable:{e}"),
    }
    let eq = snap_p.tree == snap_f.tree;
    if eq && p_ok == Some(false) {
        return "oracle-fail:parent-snapshot-differs-from-source".into();
    }
    let sm = snap_p.summary.as_ref().unwrap();
    let d = if snap_a2.is_some() { "*".to_string() } else { format!("{},{},{}", sm.dirs_new, sm.dirs_changed, sm.dirs_unmodified) };
    format!(
        "ok eq={} saved={} f={},{},{} d={} reads={} added={}",
        u8::from(eq),
        u8::from(saved),
        sm.files_new,
        sm.files_changed,
        sm.files_unmodified,
        d,
        if reads.is_empty() { "-".into() } else { reads.iter().map(usize::to_string).collect::<Vec<_>>().join(".") },
        sm.data_blobs
    )
}

// ---- e2e generator: source trees and edits -------------------------------------------------------

#[derive(Clone, Debug)]
pub enum T {
    File { content: Vec<u64>, mtime: i64, ctime: i64, inode: u64 },
    Dir { children: Vec<(Vec<u8>, T)>, mtime: i64, ctime: i64, inode: u64 },
    Link { target: Vec<u8>, mtime: i64, ctime: i64, inode: u64 },
}

const E2E_NAMES: [&[u8]; 9] = [b"a", b"b", b"c", b"ab", b"a.b", b"a\xff", b"B", b"d", b"x y"];

fn gen_content(rng: &mut Rng) -> Vec<u64> {
    let k = *rng.pick(&[0usize, 1, 1, 2, 3]);
    let mut v: Vec<u64> = (0..k).map(|_| rng.below(14)).collect();
    if rng.chance(1, 4) {
        v.push(500 + rng.below(60));
    }
    v
}

pub fn gen_t(rng: &mut Rng, depth: u32, inode: &mut u64) -> T {
    *inode += 1;
    let (mtime, ctime, ino) = (100 + rng.below(3) as i64, 200 + rng.below(3) as i64, if rng.chance(1, 4) { 0 } else { *inode });
    match rng.below(10) {
        0..=5 => T::File { content: gen_content(rng), mtime, ctime, inode: ino },
        6..=8 if depth > 0 => T::Dir { children: gen_children(rng, depth - 1, inode), mtime, ctime, inode: ino },
        6..=8 => T::File { content: gen_content(rng), mtime, ctime, inode: ino },
        _ => T::Link { target: rng.pick(&[b"t".to_vec(), b"../u".to_vec(), vec![0xfe, 0x41]]).clone(), mtime, ctime, inode: ino },
    }
}

fn gen_children(rng: &mut Rng, depth: u32, inode: &mut u64) -> Vec<(Vec<u8>, T)> {
    let n = rng.below(5) as usize;
    let mut names: Vec<Vec<u8>> = (0..n).map(|_| rng.pick(&E2E_NAMES).to_vec()).collect();
    names.sort();
    names.dedup();
    names.into_iter().map(|nm| (nm, gen_t(rng, depth, inode))).collect()
}

pub fn flatten(children: &[(Vec<u8>, T)], prefix: &[Vec<u8>], out: &mut Vec<SE>) {
    for (name, t) in children {
        let mut path = prefix.to_vec();
        path.push(name.clone());
        match t {
            T::File { content, mtime, ctime, inode } => out.push(SE { path, kind: K::File, mtime: *mtime, ctime: *ctime, inode: *inode, content: content.clone() }),
            T::Link { target, mtime, ctime, inode } => out.push(SE { path, kind: K::Link(target.clone()), mtime: *mtime, ctime: *ctime, inode: *inode, content: vec![] }),
            T::Dir { children, mtime, ctime, inode } => {
                out.push(SE { path: path.clone(), kind: K::Dir, mtime: *mtime, ctime: *ctime, inode: *inode, content: vec![] });
                flatten(children, &path, out);
            }
        }
    }
}

fn same_len_other(rng: &mut Rng, c: &[u64]) -> Vec<u64> {
    // different labels, identical byte length
    c.iter().map(|l| if *l < 500 { (l + 1 + rng.below(5)) % 14 + 20 } else { l + 50 }).collect()
}

/// Edit one level.  `safe`: content changes always come with a *different* mtime (used for the second parent).
pub fn mutate_children(rng: &mut Rng, ch: &[(Vec<u8>, T)], depth: u32, inode: &mut u64, safe: bool, stats: &mut Stats) -> Vec<(Vec<u8>, T)> {
    let mut out: Vec<(Vec<u8>, T)> = vec![];
    for (name, t) in ch {
        let roll = rng.below(100);
        let nt = match t {
            T::File { content, mtime, ctime, inode: ino } => match roll {
                0..=44 => Some(t.clone()),
                45..=52 => {
                    stats.hit("c11.e2e.touch");
                    Some(T::File { content: content.clone(), mtime: mtime + 1, ctime: *ctime, inode: *ino })
                }
                53..=60 => {
                    stats.hit("c11.e2e.content+mtime");
                    Some(T::File { content: gen_content(rng), mtime: mtime + 1 + rng.below(2) as i64, ctime: *ctime, inode: *ino })
                }
                61..=66 if !safe => {
                    stats.hit("c11.e2e.content+size-only");
                    let mut c = content.clone();
                    c.insert(0, rng.below(14));
                    Some(T::File { content: c, mtime: *mtime, ctime: *ctime, inode: *ino })
                }
                67..=72 if !safe => {
                    stats.hit("c11.e2e.content+ctime-only");
                    Some(T::File { content: same_len_other(rng, content), mtime: *mtime, ctime: ctime + 1, inode: *ino })
                }
                73..=76 if !safe && !content.is_empty() => {
                    stats.hit("c11.e2e.UNFAITHFUL-content-only");
                    Some(T::File { content: same_len_other(rng, content), mtime: *mtime, ctime: *ctime, inode: *ino })
                }
                77..=81 => {
                    stats.hit("c11.e2e.inode");
                    Some(T::File { content: content.clone(), mtime: *mtime, ctime: *ctime, inode: ino + 1000 })
                }
                82..=87 => {
                    stats.hit("c11.e2e.type-change");
                    *inode += 1;
                    if rng.chance(1, 2) {
                        Some(T::Dir { children: gen_children(rng, 0, inode), mtime: *mtime, ctime: *ctime, inode: *ino })
                    } else {
                        Some(T::Link { target: b"t".to_vec(), mtime: *mtime, ctime: *ctime, inode: *ino })
                    }
                }
                88..=93 => {
                    stats.hit("c11.e2e.remove");
                    None
                }
                _ => Some(t.clone()),
            },
            T::Link { target, mtime, ctime, inode: ino } => match roll {
                0..=59 => Some(t.clone()),
                60..=74 => {
                    stats.hit("c11.e2e.link-target");
                    let mut tg = target.clone();
                    tg.push(b'2');
                    Some(T::Link { target: tg, mtime: *mtime, ctime: *ctime, inode: *ino })
                }
                75..=84 => {
                    stats.hit("c11.e2e.type-change");
                    if rng.chance(1, 3) {
                        stats.hit("c11.e2e.type-change.symlink-to-dir");
                        *inode += 1;
                        Some(T::Dir { children: gen_children(rng, 0, inode), mtime: *mtime, ctime: *ctime, inode: *ino })
                    } else {
                        Some(T::File { content: gen_content(rng), mtime: *mtime, ctime: *ctime, inode: *ino })
                    }
                }
                85..=92 => None,
                _ => Some(T::Link { target: target.clone(), mtime: mtime + 1, ctime: *ctime, inode: *ino }),
            },
            T::Dir { children, mtime, ctime, inode: ino } => match roll {
                0..=79 => {
                    let m = if rng.chance(1, 4) { mtime + 1 } else { *mtime };
                    Some(T::Dir { children: mutate_children(rng, children, depth.saturating_sub(1), inode, safe, stats), mtime: m, ctime: *ctime, inode: *ino })
                }
                80..=87 => {
                    stats.hit("c11.e2e.type-change");
                    if rng.chance(1, 3) {
                        stats.hit("c11.e2e.type-change.dir-to-symlink");
                        Some(T::Link { target: b"t".to_vec(), mtime: *mtime, ctime: *ctime, inode: *ino })
                    } else {
                        Some(T::File { content: gen_content(rng), mtime: *mtime, ctime: *ctime, inode: *ino })
                    }
                }
                88..=93 => {
                    stats.hit("c11.e2e.remove");
                    None
                }
                _ => Some(t.clone()),
            },
        };
        if let Some(nt) = nt {
            out.push((name.clone(), nt));
        } else if rng.chance(1, 2) {
            // rename: the same entry under another name
            stats.hit("c11.e2e.rename");
            out.push((rng.pick(&E2E_NAMES).to_vec(), t.clone()));
        }
    }
    for _ in 0..*rng.pick(&[0u64, 0, 0, 1, 2]) {
        stats.hit("c11.e2e.add");
        out.push((rng.pick(&E2E_NAMES).to_vec(), gen_t(rng, depth.min(1), inode)));
    }
    out.sort_by(|a, b| a.0.cmp(&b.0));
    out.dedup_by(|a, b| a.0 == b.0);
    out
}

fn dir_paths(children: &[(Vec<u8>, T)], prefix: &[Vec<u8>], out: &mut Vec<Vec<Vec<u8>>>) {
    for (name, t) in children {
        if let T::Dir { children, .. } = t {
            let mut p = prefix.to_vec();
            p.push(name.clone());
            out.push(p.clone());
            dir_paths(children, &p, out);
        }
    }
}

/// Give the time stamps of a generated history a sub-second part (2 of 3 histories).  Every path gets one pair of base nanoseconds
/// (added to its mtime / ctime in the parents and in B alike, so equal stamps stay equal and different ones different); then every
/// stamp of B (and of the second parent) that differs from the first parent's stamp of the same path is, with probability 1/2, moved
/// into the SAME second as the parent's: the two differ only in their nanoseconds (by 1 ns … half a second).  The model compares the
/// stamps as integers (`c11::stamp` is injective), i.e. to the nanosecond.
fn subsecond_pass(rng: &mut Rng, fa: &mut [SE], fa2: &mut [SE], fb: &mut [SE], stats: &mut Stats) {
    if rng.chance(1, 3) {
        return;
    }
    const NS: [u32; 6] = [0, 1, 999_999_999, 500_000_000, 123_456_789, 999_999_000];
    let mut base: BTreeMap<Vec<Vec<u8>>, (u32, u32)> = BTreeMap::new();
    for e in fa.iter().chain(fa2.iter()).chain(fb.iter()) {
        if !base.contains_key(&e.path) {
            _ = base.insert(e.path.clone(), (*rng.pick(&NS), *rng.pick(&NS)));
        }
    }
    for e in fa.iter_mut().chain(fa2.iter_mut()).chain(fb.iter_mut()) {
        let (nm, nc) = base[&e.path];
        e.mtime = stamp(e.mtime, nm);
        e.ctime = stamp(e.ctime, nc);
    }
    let parent: BTreeMap<Vec<Vec<u8>>, (i64, i64)> = fa.iter().map(|e| (e.path.clone(), (e.mtime, e.ctime))).collect();
    let mut near = |rng: &mut Rng, p: i64| -> i64 {
        let d = *rng.pick(&[1u32, 1, 1000, 1_000_000, 500_000_000, 999_999_999]);
        stamp(stamp_secs(p), (stamp_nanos(p) as u32 + d) % 1_000_000_000)
    };
    for e in fa2.iter_mut().chain(fb.iter_mut()) {
        if let Some((pm, pc)) = parent.get(&e.path) {
            if e.mtime != *pm && rng.chance(1, 2) {
                e.mtime = near(rng, *pm);
                stats.hit("c11.e2e.mtime-differs-in-nanoseconds-only");
            }
            if e.ctime != *pc && rng.chance(1, 2) {
                e.ctime = near(rng, *pc);
                stats.hit("c11.e2e.ctime-differs-in-nanoseconds-only");
            }
        }
    }
}

fn gen_e2e(rng: &mut Rng, stats: &mut Stats) -> String {
    let mut inode = 10;
    let a = gen_children(rng, 2, &mut inode);
    let two = rng.chance(1, 4);
    let a2 = two.then(|| mutate_children(rng, &a, 2, &mut inode, true, stats));
    let b = if rng.chance(1, 10) { a.clone() } else { mutate_children(rng, &a, 2, &mut inode, false, stats) };
    let (mut fa, mut fa2, mut fb) = (vec![], vec![], vec![]);
    flatten(&a, &[], &mut fa);
    if let Some(a2) = &a2 {
        flatten(a2, &[], &mut fa2);
    }
    flatten(&b, &[], &mut fb);
    subsecond_pass(rng, &mut fa, &mut fa2, &mut fb, stats);
    let mut labels: BTreeSet<u64> = fa.iter().chain(fa2.iter()).flat_map(|e| e.content.iter().copied()).collect();
    let rm_mode = rng.below(4);
    labels.retain(|_| rm_mode >= 2 && rng.chance(1, 4));
    let rmd: Vec<u64> = labels.into_iter().collect();
    let mut dps = vec![vec![], vec![vec![]]];
    dir_paths(&a, &[], &mut dps);
    let rmt: Vec<String> = dps.iter().filter(|_| rm_mode == 3 && rng.chance(1, 5)).map(|p| path_tok(p)).collect();
    stats.hit(format!("c11.e2e.parents.{}", 1 + u8::from(two)));
    if !rmd.is_empty() {
        stats.hit("c11.e2e.data-blobs-removed-from-index");
    }
    if !rmt.is_empty() {
        stats.hit("c11.e2e.tree-blobs-removed-from-index");
    }
    let pm = if two { *rng.pick(&["x", "r", "l"]) } else { *rng.pick(&["x", "l"]) };
    let flags = format!("{}{}{}", rng.below(2), rng.below(2), u8::from(rng.chance(1, 4)));
    stats.add("c11.e2e.entries", fb.len() as u64);
    format!(
        "c11 e2e {flags} {pm} {} {} {} {} {}",
        enc_src(&fa),
        if two { enc_src(&fa2) } else { "-".into() },
        enc_labels(&rmd),
        if rmt.is_empty() { "-".into() } else { rmt.join(",") },
        enc_src(&fb)
    )
}

/// Directed end-to-end histories at the two borders of the property (every run, independent of the seed):
///  * stat border: a file rewritten IN PLACE with the same size and the same mtime — the ctime is the only witness of the change —
///    under all eight combinations of ignore_ctime / ignore_inode / skip_if_unchanged (top level and inside a directory; with and
///    without an inode change).  Unless `ignore_ctime` is set the file must be read again (seeded change C11-1: `ignore_inode`
///    also ignored the ctime).
///  * index border: an unchanged multi-chunk file of the parent of which only SOME chunks are still indexed — the first chunk
///    survives (alone, or because another file shares it), a later one is gone; also first-only-gone and all-gone.  The file must be
///    read again and the new snapshot must be readable (seeded change C11-2: only the first chunk was probed).
fn directed_e2e(ops: &mut Vec<String>, stats: &mut Stats) {
    let file = |content: &[u64], ctime: i64, inode: u64| T::File { content: content.to_vec(), mtime: 100, ctime, inode };
    let tree = |f: T, h: T| -> Vec<(Vec<u8>, T)> {
        vec![
            (b"a".to_vec(), file(&[1], 200, 11)),
            (b"d".to_vec(), T::Dir { children: vec![(b"h".to_vec(), h)], mtime: 100, ctime: 200, inode: 13 }),
            (b"f".to_vec(), f),
        ]
    };
    let enc = |t: &[(Vec<u8>, T)]| {
        let mut v = vec![];
        flatten(t, &[], &mut v);
        enc_src(&v)
    };
    let a = tree(file(&[1, 2, 3], 200, 12), file(&[5, 6, 507], 200, 14));
    // stat border
    for flags in ["000", "001", "010", "011", "100", "101", "110", "111"] {
        let edits = [
            tree(file(&[21, 22, 23], 201, 12), file(&[5, 6, 507], 200, 14)),
            tree(file(&[1, 2, 3], 200, 12), file(&[25, 26, 557], 201, 14)),
            tree(file(&[21, 22, 23], 201, 1012), file(&[25, 26, 557], 201, 14)),
        ];
        for b in &edits {
            ops.push(format!("c11 e2e {flags} x {} - - - {}", enc(&a), enc(b)));
            stats.hit("c11.e2e.directed.content+ctime-only");
        }
    }
    // sub-second border: a file rewritten in place with the same size WITHIN THE SAME SECOND as the recorded write — mtime (and
    // ctime) differ from the parent's only in their nanoseconds (+1 ns, -1 ns, across .999999999); also the converse (equal
    // nanoseconds, next second) and a stamp equal to the nanosecond with unchanged content (must be reused, not read).
    {
        let filet = |content: &[u64], mtime: i64, ctime: i64, inode: u64| T::File { content: content.to_vec(), mtime, ctime, inode };
        let treet = |f: T, h: T| -> Vec<(Vec<u8>, T)> {
            vec![
                (b"a".to_vec(), filet(&[1], stamp(100, 5), stamp(200, 5), 11)),
                (b"d".to_vec(), T::Dir { children: vec![(b"h".to_vec(), h)], mtime: stamp(100, 7), ctime: stamp(200, 7), inode: 13 }),
                (b"f".to_vec(), f),
            ]
        };
        for (n0, n1) in [(0u32, 1u32), (5, 4), (999_999_998, 999_999_999), (250_000_000, 750_000_000)] {
            let (m0, c0) = (stamp(100, n0), stamp(200, n0));
            let a = treet(filet(&[1, 2, 3], m0, c0, 12), filet(&[5, 6, 507], m0, c0, 14));
            let edits = [
                // mtime and ctime move within their second
                treet(filet(&[21, 22, 23], stamp(100, n1), stamp(200, n1), 12), filet(&[5, 6, 507], m0, c0, 14)),
                // only the mtime moves within its second (ctime equal to the nanosecond)
                treet(filet(&[1, 2, 3], m0, c0, 12), filet(&[25, 26, 557], stamp(100, n1), c0, 14)),
                // only the ctime moves within its second
                treet(filet(&[21, 22, 23], m0, stamp(200, n1), 12), filet(&[25, 26, 557], m0, stamp(200, n1), 14)),
                // next second, equal nanoseconds
                treet(filet(&[21, 22, 23], stamp(101, n0), stamp(201, n0), 12), filet(&[5, 6, 507], m0, c0, 14)),
                // nothing changed: equal to the nanosecond
                a.clone(),
            ];
            for flags in ["000", "100", "010", "001"] {
                for b in &edits {
                    ops.push(format!("c11 e2e {flags} x {} - - - {}", enc(&a), enc(b)));
                    stats.hit("c11.e2e.directed.sub-second-stamps");
                }
            }
        }
    }
    // index border: B = A, some chunks of the parent's files no longer indexed
    for flags in ["000", "010", "110", "001"] {
        for rm in [&[2u64][..], &[3], &[2, 3], &[1], &[1, 2, 3], &[6], &[507], &[6, 507], &[5], &[2, 507]] {
            ops.push(format!("c11 e2e {flags} x {} - {} - {}", enc(&a), enc_labels(rm), enc(&a)));
            stats.hit("c11.e2e.directed.partly-indexed-file");
        }
    }
}

pub fn generate(thorough: bool, rng: &mut Rng, ops: &mut Vec<String>, stats: &mut Stats) {
    directed_e2e(ops, stats);
    let n_proc = if thorough { 6000 } else { 500 };
    for _ in 0..n_proc {
        let mut r = rng.fork();
        ops.push(gen_proc(&mut r, stats));
    }
    let n_e2e = if thorough { 4000 } else { 300 };
    for _ in 0..n_e2e {
        let mut r = rng.fork();
        ops.push(gen_e2e(&mut r, stats));
    }
}

pub fn exec(t: &[&str]) -> String {
    let t: Vec<String> = t.iter().map(|s| (*s).to_string()).collect();
    guarded(move || match t.iter().map(String::as_str).collect::<Vec<_>>().as_slice() {
        ["proc", flags, index, store, roots, items] => exec_proc(flags, index, store, roots, items),
        ["e2e", flags, pm, a, a2, rmdata, rmtree, b] => exec_e2e(flags, pm, a, a2, rmdata, rmtree, b),
        _ => "bad-op".into(),
    })
}

#[allow(dead_code)]
fn _unused(_: BTreeMap<u8, u8>) {}
