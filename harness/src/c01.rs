//! C01 — backup → restore round trip: component differentials and the end-to-end oracle.
//!
//!   c01 esc <name-hex>                      real escape_filename / unescape_filename (hooks) → `ok <escaped-hex> <unescaped-hex>`
//!   c01 unesc <utf8-string-hex>             real unescape_filename on an arbitrary string → `ok <hex>` | `err`
//!   c01 start <size,size,…|-> <offset>       real ContentStartpoints::compute_start → `ok <i> <off>`
//!   c01 coalesce <off:len,off:len,…>         real BlobLocations::coalesce chain → `ok <off>:<len>:<n> …`
//!   c01 link <target-hex>                   real NodeType::from_link / to_link (+ serde_json round trip of the node) →
//!                                           `ok <raw present 0|1> <to_link bytes> <stored string bytes, `-` if raw present>`
//!   c01 lookup <name-hex,…> <query-hex,…>    ONE directory `d` holding (empty) files of these names is backed up; per query the real
//!                                           `Tree::node_from_path` (`Repository::node_from_path(tree, src/d/<query>)`) → `f<index of the
//!                                           node in the stored tree>` | `n` (not found); model: `Snapshot.findNode` (linear search on
//!                                           un-escaped names) over the byte-sorted names after `toSNode`/`fromSNode` (escape → un-escape)
//!   c01 e2e <cfg…> [opt…] <entries…> <seed>  real init + backup of an in-memory tree, then every way of reading the
//!                                           snapshot back is compared with the source (oracles); observation = per
//!                                           entry `path:kind[:len:chunk-lengths]`, which the model predicts with the
//!                                           chunker model (ties the archiver's chunk lists to C06's theorems)
//!   c01 e2el <cfg…> [opt…] <entries…> <seed> the same with a real directory as the source: the tree is created in a temp
//!                                           dir, backed up with the `backup` command (LocalSource), restored into a
//!                                           second dir; both directories are walked and compared
//!   c01 big <cfg…> <files|dirs> <n> <seed>   ONE backup adding more blobs than the indexer's MAX_COUNT (n distinct chunks in a few
//!                                           files / in n tiny directories), so that index files are written while the backup runs;
//!                                           re-open, ls + dump + ranged reads + check; `ok <shape> <n files> chunks <n>`
//!
//! cfg (8 tokens): v= comp= chunker= avg= min= max= dp= tp=     opt: gf=<pack grow factor> nr=<ranged reads per file>
//! ro=<rounds of: damage the restored tree (blob-aligned blocks overwritten, truncated, extended, touched, removed, replaced,
//! additional entries), restore over it with random delete / verify_existing, compare again>
//! as=<0|1> (e2el: --as-path /src or the real path).  entries (path = hex components joined by `/`, mtime = `sec[.nanos]`):
//!   F:<path>:<z|c|r|p>:<len>:<seed>:<mode>:<mtime>[:<names outside of the tree>]   file with generated content
//!   D:<path>:<mode>:<mtime>    L:<path>:<target-hex>:<mtime>    H:<path>:<path of an F entry>  (further name, same inode)
//!   T:<path>:<dir path>:<mode>:<mtime>   file whose bytes are the serialised tree blob of that directory (e2e only)
use std::collections::BTreeMap;
use std::ffi::OsString;
use std::os::unix::ffi::{OsStrExt, OsStringExt};
use std::path::{Path, PathBuf};

use crate::dispatch::c05::open_nc;
use crate::repo::{MemBackend, MemSource, RepoHandle, SRC_ROOT, SrcEntry, SrcKind};
use crate::util::{Rng, Stats, errkind, guarded, hex, unhex};

#[path = "c01_ixr.rs"]
pub mod ixr;
#[path = "c01_time.rs"]
pub mod time;
use rustic_core::repofile::{BlobType, Chunker, ConfigFile, MasterKey, Metadata, Node, NodeType, SnapshotFile};
use rustic_core::{
    ReadSource, ReadSourceEntry, RusticResult, BackupOptions, BlobId, Credentials, Excludes, IndexedFull, KeyOptions, LocalDestination, LsOptions, PathList, Repository, RestoreOptions,
};

const DEFAULT_POLY: u64 = 0x003D_A335_8B4D_C173;

// ---------------------------------------------------------------------------------------------------------
// deterministic content (mirrored bit for bit in Driver/C01.lean)

pub fn content(kind: &str, len: usize, seed: u64) -> Option<Vec<u8>> {
    Some(match kind {
        "z" => vec![0; len],
        "c" => vec![(seed & 255) as u8; len],
        "r" => Rng::new(seed).bytes(len),
        "p" => {
            let period = 1 + (seed % 97) as usize;
            let pat = Rng::new(seed).bytes(period);
            (0..len).map(|i| pat[i % period]).collect()
        }
        _ => return None,
    })
}

#[derive(Clone, Debug)]
struct Cfg {
    version: u32,
    comp: Option<i32>,
    fixed: bool,
    avg: usize,
    min: usize,
    max: usize,
    dp: Option<u32>,
    tp: Option<u32>,
}

impl Cfg {
    fn tokens(&self) -> Vec<String> {
        let o = |x: Option<String>| x.unwrap_or_else(|| "-".into());
        vec![
            format!("v={}", self.version),
            format!("comp={}", o(self.comp.map(|c| c.to_string()))),
            format!("chunker={}", if self.fixed { "fixed" } else { "rabin" }),
            format!("avg={}", self.avg),
            format!("min={}", self.min),
            format!("max={}", self.max),
            format!("dp={}", o(self.dp.map(|c| c.to_string()))),
            format!("tp={}", o(self.tp.map(|c| c.to_string()))),
        ]
    }
    fn parse(t: &[&str]) -> Option<Self> {
        let get = |k: &str| t.iter().find_map(|x| x.strip_prefix(k).and_then(|r| r.strip_prefix('=')));
        let opt = |s: &str| if s == "-" { None } else { Some(s.to_string()) };
        Some(Self {
            version: get("v")?.parse().ok()?,
            comp: match opt(get("comp")?) {
                None => None,
                Some(s) => Some(s.parse().ok()?),
            },
            fixed: match get("chunker")? {
                "fixed" => true,
                "rabin" => false,
                _ => return None,
            },
            avg: get("avg")?.parse().ok()?,
            min: get("min")?.parse().ok()?,
            max: get("max")?.parse().ok()?,
            dp: match opt(get("dp")?) {
                None => None,
                Some(s) => Some(s.parse().ok()?),
            },
            tp: match opt(get("tp")?) {
                None => None,
                Some(s) => Some(s.parse().ok()?),
            },
        })
    }
    fn config_file(&self, gf: Option<u32>) -> ConfigFile {
        let mut c = ConfigFile::new(self.version, rustic_core::Id::random().into(), DEFAULT_POLY);
        c.compression = self.comp;
        c.chunker = Some(if self.fixed { Chunker::FixedSize } else { Chunker::Rabin });
        c.chunk_size = Some(self.avg);
        c.chunk_min_size = Some(self.min);
        c.chunk_max_size = Some(self.max);
        c.datapack_size = self.dp;
        c.treepack_size = self.tp;
        c.datapack_growfactor = gf;
        c.treepack_growfactor = gf;
        c
    }
}

fn init_with(cfg: &Cfg, gf: Option<u32>) -> Result<RepoHandle, String> {
    let h = RepoHandle { be: MemBackend::new(), hot: None, key: MasterKey::new() };
    let repo = Repository::new(&RepoHandle::default_opts(), &h.backends()).map_err(|e| errkind(&e))?;
    _ = repo
        .init_with_config(&Credentials::Masterkey(h.key.clone()), &KeyOptions::default(), cfg.config_file(gf))
        .map_err(|e| errkind(&e))?;
    Ok(h)
}

// ---------------------------------------------------------------------------------------------------------


/// options between the 8 config tokens and the entries (`key=value`, no `:`)
#[derive(Clone, Debug)]
struct Opts {
    /// pack grow factor (data and tree); None = the default of the code
    gf: Option<u32>,
    /// number of ranged reads per file
    nr: usize,
    /// e2el: back up with `--as-path /src` (true) or under the real absolute path of the temp dir
    as_path: bool,
    /// rounds of "damage the restored tree, restore over it"
    ro: usize,
    /// witness switch: every round deletes and replaces all directories without a file or directory below them by files
    /// (defect repaired by f1ffc25: `restore --delete` removed the file but did not create the directory; the random
    /// generator now replaces such directories too)
    rd: bool,
    /// witness switch: trees with several names of one inode get their rounds WITHOUT damage (defect repaired by 93d1ed9: a
    /// second restore over restored hardlinks failed with `InputOutput`, the link existed already; without the switch such
    /// trees are damaged and restored over like all others)
    hl: bool,
}

fn split_opts<'a, 'b>(t: &'a [&'b str]) -> Option<(Opts, &'a [&'b str])> {
    let mut o = Opts { gf: None, nr: 6, as_path: true, ro: 0, rd: false, hl: false };
    let mut i = 0;
    while i < t.len() && !t[i].contains(':') && t[i].contains('=') {
        let (k, v) = t[i].split_once('=')?;
        match k {
            "gf" => o.gf = Some(v.parse().ok()?),
            "nr" => o.nr = v.parse().ok()?,
            "ro" => o.ro = v.parse().ok().filter(|r| *r <= 8)?,
            "as" | "rd" | "hl" => {
                let b = match v {
                    "0" => false,
                    "1" => true,
                    _ => return None,
                };
                match k {
                    "as" => o.as_path = b,
                    "rd" => o.rd = b,
                    _ => o.hl = b,
                }
            }
            _ => return None,
        }
        i += 1;
    }
    Some((o, &t[i..]))
}

/// what a token is besides its `SrcEntry`
#[derive(Clone, Debug, PartialEq)]
enum Tag {
    Plain,
    /// a further name of the file at this path (same inode)
    Hard(Vec<Vec<u8>>),
    /// a file whose content is the serialised tree blob of the directory at this path
    TreeOf(Vec<Vec<u8>>),
}

/// one parsed entry token; `e.mode` holds unix permission bits (0o7777)
#[derive(Clone, Debug)]
struct PEnt {
    e: SrcEntry,
    tag: Tag,
    ns: u32,
    /// names of the same inode outside of the backed-up tree
    xlinks: u64,
    /// the size the node RECORDS when it is not the length of the content the reader delivers (token `S:`; in-memory source only):
    /// 0 = stdin-style node (`backup -`, `--stdin-command`), smaller = the file grew after `stat`, larger = it shrank
    rsize: Option<u64>,
}

fn hexpath(p: &[Vec<u8>]) -> String {
    p.iter().map(|c| hex(c)).collect::<Vec<_>>().join("/")
}

fn mtime_tok(s: i64, ns: u32) -> String {
    if ns == 0 { s.to_string() } else { format!("{s}.{ns:09}") }
}

fn entry_token(pe: &PEnt, spec: &BTreeMap<Vec<Vec<u8>>, (String, usize, u64)>) -> String {
    let e = &pe.e;
    let p = hexpath(&e.path);
    let mt = mtime_tok(e.mtime_s, pe.ns);
    match (&pe.tag, &e.kind) {
        (Tag::Hard(t), _) => format!("H:{p}:{}", hexpath(t)),
        (Tag::TreeOf(d), _) => format!("T:{p}:{}:{:o}:{mt}", hexpath(d), e.mode),
        (Tag::Plain, SrcKind::File(_)) if pe.rsize.is_some() => {
            let (k, l, s) = &spec[&e.path];
            format!("S:{p}:{k}:{l}:{s}:{:o}:{mt}:{}", e.mode, pe.rsize.unwrap_or(0))
        }
        (Tag::Plain, SrcKind::File(_)) => {
            let (k, l, s) = &spec[&e.path];
            if pe.xlinks > 0 { format!("F:{p}:{k}:{l}:{s}:{:o}:{mt}:{}", e.mode, pe.xlinks) } else { format!("F:{p}:{k}:{l}:{s}:{:o}:{mt}", e.mode) }
        }
        (Tag::Plain, SrcKind::Dir) => format!("D:{p}:{:o}:{mt}", e.mode),
        (Tag::Plain, SrcKind::Symlink(t)) => format!("L:{p}:{}:{mt}", hex(t)),
    }
}

fn parse_mtime(s: &str) -> Option<(i64, u32)> {
    match s.split_once('.') {
        None => Some((s.parse().ok()?, 0)),
        Some((a, b)) => {
            let ns: u32 = b.parse().ok()?;
            if b.len() != 9 || ns >= 1_000_000_000 {
                return None;
            }
            Some((a.parse().ok()?, ns))
        }
    }
}

fn parse_path(s: &str) -> Option<Vec<Vec<u8>>> {
    let p: Vec<Vec<u8>> = s.split('/').map(unhex).collect::<Option<_>>()?;
    for c in &p {
        if c.is_empty() || c.len() > 255 || c == b"." || c == b".." || c.contains(&b'/') || c.contains(&0) {
            return None;
        }
    }
    Some(p)
}

fn parse_entries(t: &[&str]) -> Option<Vec<PEnt>> {
    let mut out: Vec<PEnt> = Vec::new();
    let mk = |p: Vec<Vec<u8>>, kind: SrcKind, mode: u32, (mtime, ns): (i64, u32), tag: Tag, xlinks: u64| PEnt {
        e: SrcEntry { path: p, kind, mode, mtime_s: mtime, ctime_s: mtime, inode: 0, links: 1 },
        tag,
        ns,
        xlinks,
        rsize: None,
    };
    let mode = |s: &str| u32::from_str_radix(s, 8).ok().filter(|m| *m <= 0o7777);
    for tok in t {
        let f: Vec<&str> = tok.split(':').collect();
        match f.as_slice() {
            ["F", p, k, l, s, m, mt] | ["F", p, k, l, s, m, mt, _] => {
                let x = if f.len() == 8 { f[7].parse().ok()? } else { 0 };
                let c = content(k, l.parse().ok()?, s.parse().ok()?)?;
                out.push(mk(parse_path(p)?, SrcKind::File(c), mode(m)?, parse_mtime(mt)?, Tag::Plain, x));
            }
            ["S", p, k, l, s, m, mt, r] => {
                let c = content(k, l.parse().ok()?, s.parse().ok()?)?;
                let r: u64 = r.parse().ok()?;
                if r == c.len() as u64 {
                    return None;
                }
                let mut pe = mk(parse_path(p)?, SrcKind::File(c), mode(m)?, parse_mtime(mt)?, Tag::Plain, 0);
                pe.rsize = Some(r);
                out.push(pe);
            }
            ["D", p, m, mt] => out.push(mk(parse_path(p)?, SrcKind::Dir, mode(m)?, parse_mtime(mt)?, Tag::Plain, 0)),
            ["L", p, target, mt] => {
                let t = unhex(target)?;
                if t.is_empty() || t.len() > 4095 || t.contains(&0) {
                    return None;
                }
                out.push(mk(parse_path(p)?, SrcKind::Symlink(t), 0o777, parse_mtime(mt)?, Tag::Plain, 0));
            }
            ["H", p, target] => out.push(mk(parse_path(p)?, SrcKind::File(vec![]), 0, (0, 0), Tag::Hard(parse_path(target)?), 0)),
            ["T", p, dir, m, mt] => out.push(mk(parse_path(p)?, SrcKind::File(vec![]), mode(m)?, parse_mtime(mt)?, Tag::TreeOf(parse_path(dir)?), 0)),
            _ => return None,
        }
    }
    // no path twice, no entry below a non-directory
    for (i, a) in out.iter().enumerate() {
        for (j, b) in out.iter().enumerate() {
            if i != j && (a.e.path == b.e.path || (b.e.path.starts_with(&a.e.path) && !matches!(a.e.kind, SrcKind::Dir))) {
                return None;
            }
        }
    }
    // further names take content and metadata of the (plain) file they name
    for i in 0..out.len() {
        if let Tag::Hard(t) = out[i].tag.clone() {
            let src = out.iter().find(|x| x.e.path == t && x.tag == Tag::Plain && matches!(x.e.kind, SrcKind::File(_)))?.clone();
            out[i].e.kind = src.e.kind;
            out[i].e.mode = src.e.mode;
            out[i].e.mtime_s = src.e.mtime_s;
            out[i].e.ctime_s = src.e.ctime_s;
            out[i].ns = src.ns;
        }
    }
    // a tree-content file names a directory of the source that does not hold it
    for x in &out {
        if let Tag::TreeOf(d) = &x.tag {
            if x.e.path.starts_with(d) || !out.iter().any(|y| &y.e.path == d && matches!(y.e.kind, SrcKind::Dir)) {
                return None;
            }
            if out.iter().any(|y| y.e.path.starts_with(d) && matches!(y.tag, Tag::TreeOf(_))) {
                return None;
            }
        }
    }
    Some(out)
}

/// inode numbers / link counts: every file with further names (inside or outside of the tree) gets its own inode
fn assign_inodes(ents: &mut [PEnt]) {
    let mut next = 1000u64;
    for i in 0..ents.len() {
        if ents[i].tag != Tag::Plain || !matches!(ents[i].e.kind, SrcKind::File(_)) {
            continue;
        }
        let p = ents[i].e.path.clone();
        let names = ents.iter().filter(|x| x.tag == Tag::Hard(p.clone())).count() as u64;
        let links = 1 + names + ents[i].xlinks;
        if links > 1 {
            next += 1;
            for x in ents.iter_mut() {
                if x.e.path == p || x.tag == Tag::Hard(p.clone()) {
                    x.e.inode = next;
                    x.e.links = links;
                }
            }
        }
    }
}

const GO_SETUID: u32 = 1 << 23;
const GO_SETGID: u32 = 1 << 22;
const GO_STICKY: u32 = 1 << 20;

/// unix permission bits (0o7777) → the Go `FileMode` encoding nodes use
fn unix_to_go(m: u32) -> u32 {
    (m & 0o777) | if m & 0o4000 != 0 { GO_SETUID } else { 0 } | if m & 0o2000 != 0 { GO_SETGID } else { 0 } | if m & 0o1000 != 0 { GO_STICKY } else { 0 }
}

/// permission bits (0o7777) of a node mode in Go encoding (type bits are not looked at)
fn go_perm(m: u32) -> u32 {
    (m & 0o777) | if m & GO_SETUID != 0 { 0o4000 } else { 0 } | if m & GO_SETGID != 0 { 0o2000 } else { 0 } | if m & GO_STICKY != 0 { 0o1000 } else { 0 }
}

fn os(b: &[u8]) -> OsString {
    OsString::from_vec(b.to_vec())
}

fn join_rel(prefix: &[u8], comps: &[Vec<u8>]) -> Vec<u8> {
    let mut v = prefix.to_vec();
    for c in comps {
        if !v.is_empty() {
            v.push(b'/');
        }
        v.extend_from_slice(c);
    }
    v
}

/// one entry of the source as every way of reading the snapshot has to show it
#[derive(Clone, Debug)]
struct Exp {
    /// path relative to the listing root, raw bytes
    rel: Vec<u8>,
    /// token form of the path (observation)
    hexp: String,
    kind: SrcKind,
    /// unix permission bits (not compared for symlinks)
    mode: u32,
    mtime_s: i64,
    ns: u32,
    /// 'f' file (observation with chunk lengths), 't' tree-content file, 'd', 'l', '-' = not part of the observation,
    /// 'R' = the directory handed to `backup` itself: `LocalSource` skips the entry of depth 0, so its own permission bits
    /// and mtime are not in the snapshot (only its name and type are compared)
    tag: char,
    /// one of several names of an inode inside the tree
    hl: bool,
    /// the size the node must record when it is not the content length (`S:` entries)
    rsize: Option<u64>,
}

#[derive(Clone, Debug)]
struct Walked {
    kind: char,
    data: Vec<u8>,
    mode: u32,
    mtime_s: i64,
    ns: u32,
}

fn walk_dir(root: &Path, rel: &Path, out: &mut BTreeMap<Vec<u8>, Walked>) -> std::io::Result<()> {
    use std::os::unix::fs::MetadataExt;
    for ent in std::fs::read_dir(root.join(rel))? {
        let ent = ent?;
        let r = rel.join(ent.file_name());
        let md = std::fs::symlink_metadata(root.join(&r))?;
        let key = r.as_os_str().as_bytes().to_vec();
        let w = |kind: char, data: Vec<u8>| Walked { kind, data, mode: md.mode() & 0o7777, mtime_s: md.mtime(), ns: md.mtime_nsec() as u32 };
        if md.file_type().is_symlink() {
            let t = std::fs::read_link(root.join(&r))?;
            _ = out.insert(key, w('l', t.as_os_str().as_bytes().to_vec()));
        } else if md.is_dir() {
            _ = out.insert(key, w('d', vec![]));
            walk_dir(root, &r, out)?;
        } else if md.is_file() {
            _ = out.insert(key, w('f', std::fs::read(root.join(&r))?));
        } else {
            _ = out.insert(key, w('?', vec![]));
        }
    }
    Ok(())
}

fn last_comp(rel: &[u8]) -> &[u8] {
    rel.rsplit(|b| *b == b'/').next().unwrap_or(rel)
}

fn parent_of(rel: &[u8]) -> Option<&[u8]> {
    rel.iter().rposition(|b| *b == b'/').map(|i| &rel[..i])
}

fn kind_char(n: &Node) -> char {
    if n.is_dir() {
        'd'
    } else if n.is_symlink() {
        'l'
    } else if n.is_file() {
        'f'
    } else {
        '?'
    }
}

fn exp_char(e: &Exp) -> char {
    match e.kind {
        SrcKind::Dir => 'd',
        SrcKind::Symlink(_) => 'l',
        SrcKind::File(_) => 'f',
    }
}

/// ranges for `read_file_at`: the fixed border ranges, ranges starting at / around chunk boundaries and EOF, lengths of
/// zero, one, exactly up to the next boundary ± 1, beyond EOF, random
fn read_ranges(rng: &mut Rng, len: usize, bounds: &[usize], nr: usize) -> Vec<(usize, usize)> {
    let mut v = vec![(0, len + 3), (len, 5), (len + 7, 5), (len / 2, 0)];
    while v.len() < nr {
        let b = if bounds.is_empty() { 0 } else { *rng.pick(bounds) };
        let off = match rng.below(8) {
            0 => b,
            1 => b.saturating_sub(1),
            2 => b + 1,
            3 => len.saturating_sub(rng.below(4) as usize),
            4 => len + rng.below(3) as usize,
            _ => rng.below(len as u64 + 2) as usize,
        };
        let next = bounds.iter().copied().find(|x| *x > off).unwrap_or(len.max(off));
        let l = match rng.below(8) {
            0 => 0,
            1 => 1,
            2 => next - off,
            3 => (next - off).saturating_sub(1),
            4 => next - off + 1,
            5 => len + 10,
            _ => rng.below(len as u64 + 10) as usize,
        };
        v.push((off, l));
    }
    v
}

fn ls_set<S: IndexedFull>(repo: &Repository<S>, node: &Node, opts: &LsOptions) -> Result<BTreeMap<Vec<u8>, char>, String> {
    let v: Vec<(PathBuf, Node)> = repo.ls(node, opts).and_then(|it| it.collect()).map_err(|e| format!("oracle-fail:ls-variant-{}", errkind(&e)))?;
    let n = v.len();
    let m: BTreeMap<Vec<u8>, char> = v.iter().map(|(p, n)| (p.as_os_str().as_bytes().to_vec(), kind_char(n))).collect();
    if m.len() != n {
        return Err("oracle-fail:ls-variant-duplicate-path".into());
    }
    Ok(m)
}

/// Every way of reading the snapshot below `root` back, compared with `exps`; Ok = the observation items.
#[allow(clippy::too_many_lines)]
fn verify<S: IndexedFull>(repo: &Repository<S>, snap: &SnapshotFile, prefix: &Path, root: &Node, exps: &[Exp], opts: &Opts, seed: u64, tmp: &Path) -> Result<Vec<String>, String> {
    // --- ls: names, types, link targets, permission bits, mtimes
    let ls: Vec<(PathBuf, Node)> = repo.ls(root, &LsOptions::default()).and_then(|it| it.collect()).map_err(|e| format!("oracle-fail:ls-{}", errkind(&e)))?;
    let by_path: BTreeMap<Vec<u8>, &Node> = ls.iter().map(|(p, n)| (p.as_os_str().as_bytes().to_vec(), n)).collect();
    if by_path.len() != ls.len() {
        return Err("oracle-fail:ls-duplicate-path".into());
    }
    if by_path.len() != exps.len() {
        return Err(format!("oracle-fail:ls-entry-count:{}:{}", by_path.len(), exps.len()));
    }
    let mut rng = Rng::new(seed);
    let mut obs = Vec::new();
    let mut bounds_of: BTreeMap<Vec<u8>, Vec<usize>> = BTreeMap::new();
    if std::env::var("VH_DEBUG").is_ok() {
        for (p, n) in &ls {
            eprintln!("ls {:?} {}", p, serde_json::to_string(n).unwrap_or_default());
        }
    }
    for e in exps {
        let Some(n) = by_path.get(&e.rel) else { return Err("oracle-fail:ls-name-missing".into()) };
        if e.tag == 'R' {
            if !n.is_dir() {
                return Err("oracle-fail:ls-dir".into());
            }
            continue;
        }
        let Some(mt) = n.meta.mtime else { return Err(format!("oracle-fail:ls-mtime:{}:none", e.hexp)) };
        if mt.as_nanosecond() != i128::from(e.mtime_s) * 1_000_000_000 + i128::from(e.ns) {
            return Err(format!("oracle-fail:ls-mtime:{}:{}:{}.{:09}", e.hexp, mt.as_nanosecond(), e.mtime_s, e.ns));
        }
        let p = &e.hexp;
        match &e.kind {
            SrcKind::Dir => {
                if !n.is_dir() || n.meta.mode.map(go_perm) != Some(e.mode) {
                    return Err("oracle-fail:ls-dir".into());
                }
                if e.tag == 'd' {
                    obs.push(format!("{p}:d"));
                }
            }
            SrcKind::Symlink(t) => {
                if !n.is_symlink() || n.node_type.to_link().as_os_str().as_bytes() != t.as_slice() {
                    return Err("oracle-fail:ls-symlink-target".into());
                }
                obs.push(format!("{p}:l"));
            }
            SrcKind::File(c) => {
                // the node keeps the size the source RECORDED (it may differ from the content: stdin-style nodes); everything read
                // below — dump, blob lengths, ranged reads, restore — must be the content actually read
                if !n.is_file() || n.meta.mode.map(go_perm) != Some(e.mode) || n.meta.size != e.rsize.unwrap_or(c.len() as u64) {
                    return Err("oracle-fail:ls-file-meta".into());
                }
                // --- dump
                let mut buf = Vec::new();
                if let Err(err) = repo.dump(n, &mut buf) {
                    return Err(format!("oracle-fail:dump-{}", errkind(&err)));
                }
                if &buf != c {
                    return Err("oracle-fail:dump-content".into());
                }
                // chunk lengths as recorded in the snapshot (data_length of every content blob)
                let mut lens = Vec::new();
                let mut bounds = vec![0usize];
                for id in n.content.iter().flatten() {
                    match repo.get_index_entry(id) {
                        Ok(ie) => {
                            lens.push(ie.data_length().to_string());
                            bounds.push(bounds[bounds.len() - 1] + ie.data_length() as usize);
                        }
                        Err(_) => return Err("oracle-fail:content-blob-not-indexed".into()),
                    }
                }
                let len = c.len();
                if bounds[bounds.len() - 1] != len {
                    return Err("oracle-fail:content-lengths-sum".into());
                }
                // --- ranged reads at random and boundary ranges
                let of = repo.open_file(n).map_err(|err| format!("oracle-fail:open-{}", errkind(&err)))?;
                for (off, l) in read_ranges(&mut rng, len, &bounds, opts.nr) {
                    let got = repo.read_file_at(&of, off, l).map_err(|err| format!("oracle-fail:read_at-{}", errkind(&err)))?;
                    let want: &[u8] = if off >= len { &[] } else { &c[off..(off + l).min(len)] };
                    if got.as_ref() != want {
                        return Err(format!("oracle-fail:read_at-content:{off}:{l}:{len}"));
                    }
                }
                _ = bounds_of.insert(e.rel.clone(), bounds);
                // ls of a file node is the file itself
                for rec in [true, false] {
                    let m = ls_set(repo, n, &LsOptions::default().recursive(rec))?;
                    if m.len() != 1 || m.get(last_comp(&e.rel)) != Some(&'f') {
                        return Err("oracle-fail:ls-of-file-node".into());
                    }
                }
                if e.tag == 't' && std::env::var("VH_DEBUG").is_ok() {
                    let ids: Vec<String> = n.content.iter().flatten().map(|i| i.to_hex().to_string()).collect();
                    let hit = ids.len() == 1 && ls.iter().any(|(_, d)| d.subtree.is_some_and(|t| t.to_hex().to_string() == ids[0]));
                    eprintln!("tree-content-file chunks={} id-equals-a-tree-id={hit}", ids.len());
                }
                match e.tag {
                    't' => obs.push(format!("{p}:t")),
                    _ => obs.push(format!("{p}:f:{len}:{}", if lens.is_empty() { "-".to_string() } else { lens.join(",") })),
                }
            }
        }
    }
    // --- every entry BY PATH: `Tree::node_from_path` through `Repository::node_from_path`, `Vfs`, `snapshot:path`
    // (`node_from_snapshot_path`, `node_from_snapshot_and_path`; strings, so only for UTF-8 paths) and `find_nodes_from_path` has to
    // give the node the listing gave; dump / ranged reads / listing / restore THROUGH the node found by path equal the source
    let Some(root_tree) = root.subtree else { return Err("oracle-fail:by-path-root-without-subtree".into()) };
    let vfs = rustic_core::vfs::Vfs::from_dir_node(root);
    let snap_hex = snap.id.to_hex().to_string();
    let mut by_path_nodes: BTreeMap<Vec<u8>, Node> = BTreeMap::new();
    for e in exps {
        let listed = by_path[&e.rel];
        let rel = PathBuf::from(os(&e.rel));
        let hp = hex(&e.rel);
        let same = |how: &str, got: RusticResult<Node>| -> Result<Node, String> {
            match got {
                Err(err) => Err(format!("oracle-fail:by-path-{}:{how}:{hp}", errkind(&err))),
                Ok(n) if &n != listed => Err(format!("oracle-fail:by-path-other-node:{how}:{hp}")),
                Ok(n) => Ok(n),
            }
        };
        let n1 = same("node_from_path", repo.node_from_path(root_tree, &rel))?;
        _ = same("vfs-node_from_path", vfs.node_from_path(repo, &rel))?;
        // a leading `/` (root component) is skipped by the lookup
        let mut abs = b"/".to_vec();
        abs.extend_from_slice(&e.rel);
        _ = same("node_from_path-absolute", repo.node_from_path(root_tree, &PathBuf::from(os(&abs))))?;
        let full = prefix.join(&rel);
        // (the snapshot tree of `backup` of an absolute path has no root component)
        if let Some(s) = full.to_str() {
            _ = same("node_from_snapshot_path", repo.node_from_snapshot_path(&format!("{snap_hex}:{s}"), |_| true))?;
            _ = same("node_from_snapshot_and_path", repo.node_from_snapshot_and_path(snap, s))?;
        }
        match repo.find_nodes_from_path(vec![root_tree], &rel) {
            Err(err) => return Err(format!("oracle-fail:by-path-{}:find_nodes_from_path:{hp}", errkind(&err))),
            Ok(f) => {
                if f.matches.len() != 1 || f.matches[0].and_then(|i| f.nodes.get(i)) != Some(listed) {
                    return Err(format!("oracle-fail:by-path-other-node:find_nodes_from_path:{hp}"));
                }
            }
        }
        match &e.kind {
            SrcKind::File(c) => {
                let mut buf = Vec::new();
                repo.dump(&n1, &mut buf).map_err(|err| format!("oracle-fail:by-path-dump-{}:{hp}", errkind(&err)))?;
                if &buf != c {
                    return Err(format!("oracle-fail:by-path-dump-content:{hp}"));
                }
                let of = repo.open_file(&n1).map_err(|err| format!("oracle-fail:by-path-open-{}:{hp}", errkind(&err)))?;
                let len = c.len();
                let bounds = bounds_of.get(&e.rel).cloned().unwrap_or_default();
                for (off, l) in read_ranges(&mut rng, len, &bounds, 6) {
                    let got = repo.read_file_at(&of, off, l).map_err(|err| format!("oracle-fail:by-path-read_at-{}:{hp}", errkind(&err)))?;
                    let want: &[u8] = if off >= len { &[] } else { &c[off..(off + l).min(len)] };
                    if got.as_ref() != want {
                        return Err(format!("oracle-fail:by-path-read_at-content:{hp}:{off}:{l}:{len}"));
                    }
                }
            }
            SrcKind::Dir => {
                // sub-path ls (recursive) and the directory entries the Vfs gives (names as bytes, types)
                let mut pre = e.rel.clone();
                pre.push(b'/');
                let below: BTreeMap<Vec<u8>, char> = exps.iter().filter(|x| x.rel.starts_with(&pre)).map(|x| (x.rel[pre.len()..].to_vec(), exp_char(x))).collect();
                if ls_set(repo, &n1, &LsOptions::default())? != below {
                    return Err(format!("oracle-fail:by-path-ls:{hp}"));
                }
                let ents = vfs.dir_entries_from_path(repo, &rel).map_err(|err| format!("oracle-fail:by-path-{}:vfs-dir_entries_from_path:{hp}", errkind(&err)))?;
                let got: BTreeMap<Vec<u8>, char> = ents.iter().map(|n| (n.name().as_bytes().to_vec(), kind_char(n))).collect();
                let want: BTreeMap<Vec<u8>, char> = exps.iter().filter(|x| parent_of(&x.rel) == Some(&e.rel)).map(|x| (last_comp(&x.rel).to_vec(), exp_char(x))).collect();
                if got.len() != ents.len() || got != want {
                    return Err(format!("oracle-fail:by-path-dir-entries:{hp}"));
                }
            }
            SrcKind::Symlink(t) => {
                if n1.node_type.to_link().as_os_str().as_bytes() != t.as_slice() {
                    return Err(format!("oracle-fail:by-path-symlink-target:{hp}"));
                }
            }
        }
        _ = by_path_nodes.insert(e.rel.clone(), n1);
    }
    // names that are NOT in the tree are not found: the escaped form of a name that needs escaping, a name with a byte appended
    for e in exps.iter().filter(|x| x.tag != 'R') {
        let name = last_comp(&e.rel);
        let esc = rustic_core::verif::node::escape(name);
        let mut longer = name.to_vec();
        longer.push(b'~');
        for cand in [esc.as_bytes().to_vec(), longer] {
            let mut p = parent_of(&e.rel).map(<[u8]>::to_vec).unwrap_or_default();
            if !p.is_empty() {
                p.push(b'/');
            }
            p.extend_from_slice(&cand);
            if cand.is_empty() || by_path.contains_key(&p) {
                continue;
            }
            if repo.node_from_path(root_tree, &PathBuf::from(os(&p))).is_ok() {
                return Err(format!("oracle-fail:by-path-found-absent-name:{}", hex(&p)));
            }
        }
    }
    // --- sub-path restore: one directory found by path is restored on its own and compared
    let sub_dirs: Vec<&Exp> = exps.iter().filter(|x| matches!(x.kind, SrcKind::Dir) && x.tag != 'R').collect();
    if !sub_dirs.is_empty() {
        let d = *rng.pick(&sub_dirs);
        let mut pre = d.rel.clone();
        pre.push(b'/');
        let sub_exps: Vec<Exp> = exps.iter().filter(|x| x.rel.starts_with(&pre)).map(|x| Exp { rel: x.rel[pre.len()..].to_vec(), ..x.clone() }).collect();
        let dest_path = tmp.join("sub");
        restore_into(repo, &by_path_nodes[&d.rel], &dest_path, RestoreOptions::default()).map_err(|e| format!("oracle-fail:by-path-restore-{e}"))?;
        compare_restored(&dest_path, &sub_exps, &[], "by-path-restore")?;
    }
    // … and one file (or symlink) found by path: the destination then holds exactly that entry
    let sub_files: Vec<&Exp> = exps.iter().filter(|x| !matches!(x.kind, SrcKind::Dir)).collect();
    if !sub_files.is_empty() {
        let f = *rng.pick(&sub_files);
        let one = vec![Exp { rel: last_comp(&f.rel).to_vec(), ..f.clone() }];
        let dest_path = tmp.join("subf");
        restore_into(repo, &by_path_nodes[&f.rel], &dest_path, RestoreOptions::default()).map_err(|e| format!("oracle-fail:by-path-restore-file-{e}"))?;
        compare_restored(&dest_path, &one, &[], "by-path-restore-file")?;
    }
    // --- ls variants: non-recursive listing of the root and of directories = their direct children; recursive listing of a
    // directory node = its descendants (paths relative to it)
    let children_of = |dir: Option<&[u8]>| -> BTreeMap<Vec<u8>, char> { exps.iter().filter(|x| parent_of(&x.rel) == dir).map(|x| (last_comp(&x.rel).to_vec(), exp_char(x))).collect() };
    if ls_set(repo, root, &LsOptions::default().recursive(false))? != children_of(None) {
        return Err("oracle-fail:ls-nonrecursive-root".into());
    }
    let dirs: Vec<&Exp> = exps.iter().filter(|x| matches!(x.kind, SrcKind::Dir)).collect();
    for (i, d) in dirs.iter().enumerate() {
        if dirs.len() > 16 && i != dirs.len() - 1 && !rng.chance(16, dirs.len() as u64) {
            continue;
        }
        let node = by_path[&d.rel];
        if ls_set(repo, node, &LsOptions::default().recursive(false))? != children_of(Some(&d.rel)) {
            return Err("oracle-fail:ls-nonrecursive-dir".into());
        }
        let mut pre = d.rel.clone();
        pre.push(b'/');
        let below: BTreeMap<Vec<u8>, char> = exps.iter().filter(|x| x.rel.starts_with(&pre)).map(|x| (x.rel[pre.len()..].to_vec(), exp_char(x))).collect();
        if ls_set(repo, node, &LsOptions::default())? != below {
            return Err("oracle-fail:ls-recursive-dir".into());
        }
    }
    // --- ls with an excluding glob on a plain ASCII name: exactly the entries of that name (any case for iglob) disappear
    let plain: Vec<&[u8]> = exps.iter().map(|x| last_comp(&x.rel)).filter(|n| !n.is_empty() && n.iter().all(u8::is_ascii_alphanumeric)).collect();
    if !plain.is_empty() {
        let name = rng.pick(&plain).to_vec();
        let pat = format!("!{}", String::from_utf8_lossy(&name));
        let all: BTreeMap<Vec<u8>, char> = exps.iter().map(|x| (x.rel.clone(), exp_char(x))).collect();
        let want: BTreeMap<Vec<u8>, char> = all.iter().filter(|(k, _)| last_comp(k) != name.as_slice()).map(|(k, v)| (k.clone(), *v)).collect();
        if ls_set(repo, root, &LsOptions::default().excludes(Excludes::default().globs(vec![pat.clone()])))? != want {
            return Err("oracle-fail:ls-glob".into());
        }
        let wanti: BTreeMap<Vec<u8>, char> = all.iter().filter(|(k, _)| !last_comp(k).eq_ignore_ascii_case(&name)).map(|(k, v)| (k.clone(), *v)).collect();
        if ls_set(repo, root, &LsOptions::default().excludes(Excludes::default().iglobs(vec![pat])))? != wanti {
            return Err("oracle-fail:ls-iglob".into());
        }
    }
    // --- restore to a temporary directory through LocalDestination, compare with the source
    let dest_path = tmp.join("r");
    restore_into(repo, root, &dest_path, RestoreOptions::default()).map_err(|e| format!("oracle-fail:restore-{e}"))?;
    compare_restored(&dest_path, exps, &[], "restore")?;
    // --- restore again over modified versions of the restored tree (every choice from the op line's seed)
    let hardlinks = exps.iter().any(|e| e.hl);
    for round in 0..opts.ro {
        let delete = opts.rd || rng.chance(1, 2);
        let verify_existing = rng.chance(1, 2);
        let extras = if hardlinks && opts.hl { vec![] } else { mutate_restored(&dest_path, exps, &bounds_of, &mut rng, delete, verify_existing, opts.rd).map_err(|e| format!("err:mutate-restored:{:?}", e.kind()))? };
        let ropts = RestoreOptions::default().delete(delete).verify_existing(verify_existing);
        restore_into(repo, root, &dest_path, ropts).map_err(|e| format!("oracle-fail:restore-over-existing-{e}:round{round}:delete={delete}:verify={verify_existing}"))?;
        let keep: &[Vec<u8>] = if delete { &[] } else { &extras };
        compare_restored(&dest_path, exps, keep, "restore-over-existing").map_err(|e| format!("{e}:round{round}:delete={delete}:verify={verify_existing}"))?;
        if delete {
            continue;
        }
        // leave a destination without additional entries for the next round
        for x in &extras {
            let p = dest_path.join(os(x));
            if std::fs::symlink_metadata(&p).is_ok_and(|m| m.is_dir()) { std::fs::remove_dir_all(&p) } else { std::fs::remove_file(&p) }.map_err(|e| format!("err:mutate-restored:{:?}", e.kind()))?;
        }
        restore_into(repo, root, &dest_path, RestoreOptions::default()).map_err(|e| format!("oracle-fail:restore-over-existing-{e}:round{round}:cleanup"))?;
    }
    Ok(obs)
}

fn restore_into<S: IndexedFull>(repo: &Repository<S>, root: &Node, dest_path: &Path, ropts: RestoreOptions) -> Result<(), String> {
    let Some(dp) = dest_path.to_str() else { return Err("tempdir-name".into()) };
    let dest = LocalDestination::new(dp, true, false).map_err(|e| format!("dest-{}", errkind(&e)))?;
    let lsopts = LsOptions::default();
    let stream = || repo.ls(root, &lsopts);
    let plan = stream().and_then(|s| repo.prepare_restore(&ropts, s, &dest, false)).map_err(|e| format!("prepare-{}", errkind(&e)))?;
    stream().and_then(|s| repo.restore(plan, &ropts, s, &dest)).map_err(|e| errkind(&e))
}

/// the restored directory holds exactly `exps` (plus `extras` and what is below them)
fn compare_restored(dest_path: &Path, exps: &[Exp], extras: &[Vec<u8>], key: &str) -> Result<(), String> {
    let mut got = BTreeMap::new();
    if walk_dir(dest_path, Path::new(""), &mut got).is_err() {
        return Err(format!("oracle-fail:{key}-walk"));
    }
    got.retain(|k, _| !extras.iter().any(|x| k == x || (k.starts_with(x) && k.get(x.len()) == Some(&b'/'))));
    if got.len() != exps.len() {
        let missing = exps.iter().find(|e| !got.contains_key(&e.rel)).map(|e| format!("missing={}:{}", hex(&e.rel), exp_char(e)));
        let unexpected = got.keys().find(|k| !exps.iter().any(|e| &e.rel == *k)).map(|k| format!("unexpected={}", hex(k)));
        return Err(format!("oracle-fail:{key}-entry-count:{}:{}:{}", got.len(), exps.len(), missing.or(unexpected).unwrap_or_default()));
    }
    for e in exps {
        let Some(w) = got.get(&e.rel) else { return Err(format!("oracle-fail:{key}-name-missing")) };
        if e.tag == 'R' {
            if w.kind != 'd' {
                return Err(format!("oracle-fail:{key}-dir"));
            }
            continue;
        }
        let mtime_ok = w.mtime_s == e.mtime_s && w.ns == e.ns;
        let mt = || format!("{}:{}.{:09}:{}.{:09}", e.hexp, w.mtime_s, w.ns, e.mtime_s, e.ns);
        match &e.kind {
            SrcKind::Dir => {
                if w.kind != 'd' || w.mode != e.mode {
                    return Err(format!("oracle-fail:{key}-dir"));
                }
                if !mtime_ok {
                    return Err(format!("oracle-fail:{key}-dir-mtime:{}", mt()));
                }
            }
            SrcKind::Symlink(t) => {
                if w.kind != 'l' || &w.data != t {
                    return Err(format!("oracle-fail:{key}-symlink"));
                }
                if !mtime_ok {
                    return Err(format!("oracle-fail:{key}-symlink-mtime:{}", mt()));
                }
            }
            SrcKind::File(c) => {
                if w.kind != 'f' || &w.data != c {
                    return Err(format!("oracle-fail:{key}-content:{}:{}:{}", e.hexp, w.data.len(), c.len()));
                }
                if w.mode != e.mode {
                    return Err(format!("oracle-fail:{key}-mode"));
                }
                if !mtime_ok {
                    return Err(format!("oracle-fail:{key}-mtime:{}", mt()));
                }
            }
        }
    }
    Ok(())
}

fn set_mtime(p: &Path, t: std::time::SystemTime) -> std::io::Result<()> {
    std::fs::File::open(p)?.set_times(std::fs::FileTimes::new().set_accessed(t).set_modified(t))
}

/// Turn the restored tree into an older / damaged version of itself: blocks of files (aligned with the blobs of the
/// snapshot) overwritten in place, files truncated / extended / touched / removed / replaced by something else,
/// directories removed or replaced, additional entries.  Returns the additional entries (relative paths).
#[allow(clippy::too_many_lines)]
fn mutate_restored(dest: &Path, exps: &[Exp], bounds_of: &BTreeMap<Vec<u8>, Vec<usize>>, rng: &mut Rng, delete: bool, verify_existing: bool, rd: bool) -> std::io::Result<Vec<Vec<u8>>> {
    use std::io::{Seek, SeekFrom, Write};
    use std::os::unix::fs::PermissionsExt;
    let mut gone: Vec<Vec<u8>> = vec![];
    let below = |k: &[u8], x: &[u8]| k.starts_with(x) && k.get(x.len()) == Some(&b'/');
    for e in exps {
        if e.tag == 'R' || gone.iter().any(|g| below(&e.rel, g)) {
            continue;
        }
        let p = dest.join(os(&e.rel));
        let old_mtime = sys_time(e.mtime_s, e.ns);
        let new_mtime = sys_time(e.mtime_s + 1 + rng.below(1000) as i64, 0);
        match &e.kind {
            SrcKind::File(c) => {
                let b = &bounds_of[&e.rel];
                let nblocks = b.len() - 1;
                match rng.below(12) {
                    0 | 1 | 2 | 3 if nblocks > 0 => {
                        // blocks overwritten in place: every second one, or a random subset
                        let pattern = rng.below(3);
                        let mut f = std::fs::OpenOptions::new().write(true).open(&p)?;
                        let mut any = false;
                        for i in 0..nblocks {
                            let hit = match pattern {
                                0 => i % 2 == 1,
                                1 => i % 2 == 0,
                                _ => rng.chance(1, 3),
                            };
                            if hit && b[i + 1] > b[i] {
                                let other: Vec<u8> = c[b[i]..b[i + 1]].iter().map(|x| !x).collect();
                                _ = f.seek(SeekFrom::Start(b[i] as u64))?;
                                f.write_all(&other)?;
                                any = true;
                            }
                        }
                        drop(f);
                        // an unchanged mtime hides the damage from a restore that does not verify existing files
                        // (for a name of a shared inode "nothing overwritten here" does not mean the inode is undamaged: another
                        // name may have damaged it already, and setting the old mtime again would hide that)
                        let keep_mtime = (verify_existing || (!any && !e.hl)) && rng.chance(1, 2);
                        set_mtime(&p, if keep_mtime { old_mtime } else { new_mtime })?;
                    }
                    4 if !c.is_empty() => {
                        let f = std::fs::OpenOptions::new().write(true).open(&p)?;
                        f.set_len(rng.below(c.len() as u64))?;
                    }
                    5 => {
                        let mut f = std::fs::OpenOptions::new().append(true).open(&p)?;
                        let n = 1 + rng.below(100) as usize;
                        f.write_all(&rng.bytes(n))?;
                    }
                    6 => set_mtime(&p, new_mtime)?,
                    7 => std::fs::remove_file(&p)?,
                    8 => std::fs::set_permissions(&p, std::fs::Permissions::from_mode(0o600))?,
                    9 if delete => {
                        std::fs::remove_file(&p)?;
                        if rng.chance(1, 2) {
                            std::fs::create_dir(&p)?;
                            std::fs::write(p.join("inner"), b"x")?;
                        } else {
                            std::os::unix::fs::symlink("elsewhere", &p)?;
                        }
                    }
                    _ => {}
                }
            }
            SrcKind::Symlink(_) => {
                if delete && rng.chance(1, 3) {
                    std::fs::remove_file(&p)?;
                    if rng.chance(1, 2) {
                        std::os::unix::fs::symlink("stale-target", &p)?;
                    } else {
                        std::fs::write(&p, b"was a symlink")?;
                    }
                } else if rng.chance(1, 6) {
                    std::fs::remove_file(&p)?;
                }
            }
            SrcKind::Dir => {
                // is there something below it that re-creates it on the way (`create_dir_all` of a directory / of a file's parent)?
                // If not, `restore --delete` removes the file in its place but never creates it: known defect, `Opts::rd`
                let recreated = exps.iter().any(|x| below(&x.rel, &e.rel) && !matches!(x.kind, SrcKind::Symlink(_)));
                let r = rng.below(16);
                if rd {
                    if !recreated {
                        std::fs::remove_dir_all(&p)?;
                        std::fs::write(&p, b"was a directory")?;
                        gone.push(e.rel.clone());
                    }
                } else if r == 0 {
                    std::fs::remove_dir_all(&p)?;
                    gone.push(e.rel.clone());
                } else if r == 1 && delete {
                    std::fs::remove_dir_all(&p)?;
                    std::fs::write(&p, b"was a directory")?;
                    gone.push(e.rel.clone());
                } else if r == 2 {
                    set_mtime(&p, new_mtime)?;
                } else if r == 3 {
                    std::fs::set_permissions(&p, std::fs::Permissions::from_mode(0o700))?;
                }
            }
        }
    }
    // additional entries: at the top, inside a directory that is still there
    let mut extras = vec![];
    let dirs: Vec<&Exp> = exps.iter().filter(|e| matches!(e.kind, SrcKind::Dir) && !gone.iter().any(|g| &e.rel == g || below(&e.rel, g))).collect();
    for i in 0..rng.below(3) {
        let mut rel = if dirs.is_empty() || rng.chance(1, 3) { vec![] } else { rng.pick(&dirs).rel.clone() };
        if !rel.is_empty() {
            rel.push(b'/');
        }
        rel.extend_from_slice(format!("zz-extra-{i}").as_bytes());
        if exps.iter().any(|e| e.rel == rel) {
            continue;
        }
        let p = dest.join(os(&rel));
        if rng.chance(1, 2) {
            std::fs::write(&p, b"additional")?;
        } else {
            std::fs::create_dir(&p)?;
            std::fs::write(p.join("f"), b"additional")?;
        }
        extras.push(rel);
    }
    Ok(extras)
}

fn check_clean(h: &RepoHandle) -> Result<(), String> {
    match crate::dispatch::c05::real_check(h) {
        Ok(e) if e.is_empty() => Ok(()),
        Ok(e) => Err(format!("oracle-fail:check-after-backup:{}", e.into_iter().collect::<Vec<_>>().join(","))),
        Err(e) => Err(format!("oracle-fail:check-after-backup:{e}")),
    }
}

fn is_hl(ents: &[PEnt], pe: &PEnt) -> bool {
    matches!(pe.tag, Tag::Hard(_)) || ents.iter().any(|x| x.tag == Tag::Hard(pe.e.path.clone()))
}

fn mem_entry(pe: &PEnt) -> SrcEntry {
    let mut e = pe.e.clone();
    e.mode = unix_to_go(e.mode);
    e
}

/// plaintext of the tree blob of directory `dir` when `entries` are backed up with `cfg`
fn tree_bytes_of(cfg: &Cfg, opts: &Opts, entries: Vec<SrcEntry>, ns: BTreeMap<Vec<Vec<u8>>, u32>, dir: &[Vec<u8>]) -> Result<Vec<u8>, String> {
    let h = init_with(cfg, opts.gf)?;
    let src = NsSource { inner: MemSource::new(entries), ns, sizes: BTreeMap::new() };
    let repo = open_nc(&h).and_then(Repository::to_indexed_ids).map_err(|e| errkind(&e))?;
    let snap = repo.archive(&BackupOptions::default(), &src, SnapshotFile::default(), &[PathBuf::from(SRC_ROOT)]).map_err(|e| format!("backup-{}", errkind(&e)))?;
    drop(repo);
    let repo = open_nc(&h).and_then(Repository::to_indexed).map_err(|e| errkind(&e))?;
    let mut pb = PathBuf::from("src");
    for c in dir {
        pb.push(os(c));
    }
    let n = repo.node_from_path(snap.tree, &pb).map_err(|e| errkind(&e))?;
    let t = n.subtree.ok_or("no-subtree")?;
    let b = repo.get_blob_cached(&BlobId::from(*t), BlobType::Tree).map_err(|e| errkind(&e))?;
    Ok(b.to_vec())
}

const ROOT_MTIME: i64 = 1_600_000_000;

/// `MemSource` with nanosecond parts of the mtimes (`SrcEntry` carries whole seconds): token time = floor seconds + nanoseconds
struct NsSource {
    inner: MemSource,
    ns: BTreeMap<Vec<Vec<u8>>, u32>,
    /// recorded sizes that differ from the content length (`S:` entries)
    sizes: BTreeMap<Vec<Vec<u8>>, u64>,
}

impl ReadSource for NsSource {
    type Open = std::io::Cursor<Vec<u8>>;
    type Iter = std::vec::IntoIter<RusticResult<ReadSourceEntry<Self::Open>>>;
    fn size(&self) -> RusticResult<Option<u64>> {
        Ok(None)
    }
    fn entries(&self) -> Self::Iter {
        // the root first, then `inner.entries` in their order
        let mut v: Vec<_> = self.inner.entries().collect();
        for (item, e) in v.iter_mut().skip(1).zip(&self.inner.entries) {
            if let (Ok(item), Some(ns)) = (item, self.ns.get(&e.path)) {
                let t = rustic_core::jiff::Timestamp::from_nanosecond(i128::from(e.mtime_s) * 1_000_000_000 + i128::from(*ns)).ok();
                item.node.meta.mtime = t;
                item.node.meta.atime = t;
            }
        }
        for (item, e) in v.iter_mut().skip(1).zip(&self.inner.entries) {
            if let (Ok(item), Some(r)) = (item, self.sizes.get(&e.path)) {
                item.node.meta.size = *r;
            }
        }
        v.into_iter()
    }
}

fn e2e(cfg: &Cfg, opts: &Opts, mut ents: Vec<PEnt>, seed: u64) -> String {
    assign_inodes(&mut ents);
    // tree-content files: the tree blobs come from a backup of the other entries with the same configuration
    if ents.iter().any(|x| matches!(x.tag, Tag::TreeOf(_))) {
        let others: Vec<SrcEntry> = ents.iter().filter(|x| !matches!(x.tag, Tag::TreeOf(_))).map(mem_entry).collect();
        for i in 0..ents.len() {
            if let Tag::TreeOf(d) = ents[i].tag.clone() {
                match tree_bytes_of(cfg, opts, others.clone(), ents.iter().filter(|x| x.ns != 0).map(|x| (x.e.path.clone(), x.ns)).collect(), &d) {
                    Ok(b) => ents[i].e.kind = SrcKind::File(b),
                    Err(e) => return format!("err:tree-of:{e}"),
                }
            }
        }
    }
    let h = match init_with(cfg, opts.gf) {
        Ok(h) => h,
        Err(e) => return format!("init-{e}"),
    };
    let src = NsSource {
        inner: MemSource::new(ents.iter().map(mem_entry).collect()),
        ns: ents.iter().filter(|x| x.ns != 0).map(|x| (x.e.path.clone(), x.ns)).collect(),
        sizes: ents.iter().filter_map(|x| x.rsize.map(|r| (x.e.path.clone(), r))).collect(),
    };
    let repo = match open_nc(&h).and_then(Repository::to_indexed_ids) {
        Ok(r) => r,
        Err(e) => return errkind(&e),
    };
    let snap = match repo.archive(&BackupOptions::default(), &src, SnapshotFile::default(), &[PathBuf::from(SRC_ROOT)]) {
        Ok(s) => s,
        Err(e) => return format!("backup-{}", errkind(&e)),
    };
    drop(repo);
    let repo = match open_nc(&h).and_then(Repository::to_indexed) {
        Ok(r) => r,
        Err(e) => return errkind(&e),
    };
    let mut root = Node::new_node(std::ffi::OsStr::new(""), NodeType::Dir, Metadata::default());
    root.subtree = Some(snap.tree);
    // expected entries: the root directory, every entry of the source (token order first, synthesised parents last)
    let tagc = |pe: &PEnt| match (&pe.tag, &pe.e.kind) {
        (Tag::TreeOf(_), _) => 't',
        (_, SrcKind::File(_)) => 'f',
        (_, SrcKind::Dir) => 'd',
        (_, SrcKind::Symlink(_)) => 'l',
    };
    let mut exps = vec![Exp { rel: b"src".to_vec(), hexp: String::new(), kind: SrcKind::Dir, mode: 0o755, mtime_s: ROOT_MTIME, ns: 0, tag: '-', hl: false, rsize: None }];
    for pe in &ents {
        exps.push(Exp { rel: join_rel(b"src", &pe.e.path), hexp: hexpath(&pe.e.path), kind: pe.e.kind.clone(), mode: pe.e.mode, mtime_s: pe.e.mtime_s, ns: pe.ns, tag: tagc(pe), hl: is_hl(&ents, pe), rsize: pe.rsize });
    }
    for e in &src.inner.entries {
        if !ents.iter().any(|pe| pe.e.path == e.path) {
            exps.push(Exp { rel: join_rel(b"src", &e.path), hexp: String::new(), kind: SrcKind::Dir, mode: go_perm(e.mode), mtime_s: e.mtime_s, ns: 0, tag: '-', hl: false, rsize: None });
        }
    }
    let tmp = match tempfile::tempdir() {
        Ok(t) => t,
        Err(_) => return "err:tempdir".into(),
    };
    let obs = match verify(&repo, &snap, Path::new(""), &root, &exps, opts, seed, tmp.path()) {
        Ok(o) => o,
        Err(e) => return e,
    };
    // --- and the repository checks clean
    if let Err(e) = check_clean(&h) {
        return e;
    }
    format!("ok {}", obs.join(" "))
}

fn sys_time(s: i64, ns: u32) -> std::time::SystemTime {
    use std::time::{Duration, UNIX_EPOCH};
    if s >= 0 { UNIX_EPOCH + Duration::new(s as u64, ns) } else { UNIX_EPOCH - Duration::new(s.unsigned_abs(), 0) + Duration::new(0, ns) }
}

fn is_root() -> bool {
    use std::os::unix::fs::MetadataExt;
    std::fs::metadata("/proc/self").map(|m| m.uid() == 0).unwrap_or(false)
}

/// The same round trip with a real directory as the source: the tree of the op line is created in a temp dir (contents,
/// hardlinks, symlinks, then permissions and mtimes bottom-up), backed up with the `backup` command (`LocalSource` with
/// default save / filter options), read back and restored into a second directory.
#[allow(clippy::too_many_lines)]
fn e2el(cfg: &Cfg, opts: &Opts, ents: Vec<PEnt>, seed: u64) -> String {
    use std::os::unix::fs::PermissionsExt;
    if ents.iter().any(|x| matches!(x.tag, Tag::TreeOf(_))) {
        return "bad-op".into();
    }
    let root_ok = is_root();
    let tmp = match tempfile::tempdir() {
        Ok(t) => t,
        Err(_) => return "err:tempdir".into(),
    };
    let Ok(base) = tmp.path().canonicalize() else { return "err:tempdir".into() };
    let srcdir = base.join("src");
    let outdir = base.join("out");
    let fs_path = |p: &[Vec<u8>]| {
        let mut q = srcdir.clone();
        for c in p {
            q.push(os(c));
        }
        q
    };
    let mut sorted: Vec<&PEnt> = ents.iter().collect();
    sorted.sort_by(|a, b| a.e.path.cmp(&b.e.path));
    let setup = || -> std::io::Result<()> {
        std::fs::create_dir(&srcdir)?;
        std::fs::create_dir(&outdir)?;
        let mut nout = 0;
        // plain entries first (parents sort before their content), further names afterwards
        for pe in sorted.iter().filter(|x| x.tag == Tag::Plain) {
            let p = fs_path(&pe.e.path);
            match &pe.e.kind {
                SrcKind::Dir => std::fs::create_dir(&p)?,
                SrcKind::Symlink(t) => std::os::unix::fs::symlink(os(t), &p)?,
                SrcKind::File(c) => {
                    std::fs::write(&p, c)?;
                    for _ in 0..pe.xlinks {
                        nout += 1;
                        std::fs::hard_link(&p, outdir.join(format!("x{nout}")))?;
                    }
                }
            }
        }
        for pe in &ents {
            if let Tag::Hard(t) = &pe.tag {
                std::fs::hard_link(fs_path(t), fs_path(&pe.e.path))?;
            }
        }
        // metadata bottom-up: times before permissions (a file without owner write permission), directories after their content
        for pe in sorted.iter().rev() {
            if pe.tag != Tag::Plain || matches!(pe.e.kind, SrcKind::Symlink(_)) {
                continue;
            }
            let p = fs_path(&pe.e.path);
            let f = std::fs::File::open(&p)?;
            let t = sys_time(pe.e.mtime_s, pe.ns);
            f.set_times(std::fs::FileTimes::new().set_accessed(t).set_modified(t))?;
            drop(f);
            let mut m = pe.e.mode;
            if !root_ok {
                m |= if matches!(pe.e.kind, SrcKind::Dir) { 0o700 } else { 0o400 };
            }
            std::fs::set_permissions(&p, std::fs::Permissions::from_mode(m))?;
        }
        let f = std::fs::File::open(&srcdir)?;
        let t = sys_time(ROOT_MTIME, 0);
        f.set_times(std::fs::FileTimes::new().set_accessed(t).set_modified(t))?;
        std::fs::set_permissions(&srcdir, std::fs::Permissions::from_mode(0o755))?;
        Ok(())
    };
    if let Err(e) = setup() {
        return format!("err:src-setup:{:?}", e.kind());
    }
    // the source as it is on disk (symlink mtimes cannot be chosen; everything else has to be what the tokens say)
    let mut disk = BTreeMap::new();
    if walk_dir(&srcdir, Path::new(""), &mut disk).is_err() || disk.len() != ents.len() {
        return "err:src-walk".into();
    }
    let mut exps = Vec::new();
    if opts.as_path {
        exps.push(Exp { rel: b"src".to_vec(), hexp: String::new(), kind: SrcKind::Dir, mode: 0o755, mtime_s: ROOT_MTIME, ns: 0, tag: 'R', hl: false, rsize: None });
    }
    let prefix: &[u8] = if opts.as_path { b"src" } else { b"" };
    for pe in &ents {
        let Some(w) = disk.get(&join_rel(b"", &pe.e.path)) else { return "err:src-walk".into() };
        let want_mode = if root_ok { pe.e.mode } else { pe.e.mode | if matches!(pe.e.kind, SrcKind::Dir) { 0o700 } else { 0o400 } };
        let (kind_ok, tag) = match &pe.e.kind {
            SrcKind::Dir => (w.kind == 'd' && w.mode == want_mode && (w.mtime_s, w.ns) == (pe.e.mtime_s, pe.ns), 'd'),
            SrcKind::File(c) => (w.kind == 'f' && &w.data == c && w.mode == want_mode && (w.mtime_s, w.ns) == (pe.e.mtime_s, pe.ns), 'f'),
            SrcKind::Symlink(t) => (w.kind == 'l' && &w.data == t, 'l'),
        };
        if !kind_ok {
            return "err:src-differs-from-tokens".into();
        }
        exps.push(Exp { rel: join_rel(prefix, &pe.e.path), hexp: hexpath(&pe.e.path), kind: pe.e.kind.clone(), mode: w.mode, mtime_s: w.mtime_s, ns: w.ns, tag, hl: is_hl(&ents, pe), rsize: None });
    }
    let h = match init_with(cfg, opts.gf) {
        Ok(h) => h,
        Err(e) => return format!("init-{e}"),
    };
    let repo = match open_nc(&h).and_then(Repository::to_indexed_ids) {
        Ok(r) => r,
        Err(e) => return errkind(&e),
    };
    let mut bopts = BackupOptions::default();
    if opts.as_path {
        bopts = bopts.as_path(PathBuf::from(SRC_ROOT));
    }
    let snap = match repo.backup(&bopts, &PathList::from_iter([srcdir.clone()]), SnapshotFile::default()) {
        Ok(s) => s,
        Err(e) => return format!("backup-{}", errkind(&e)),
    };
    drop(repo);
    let repo = match open_nc(&h).and_then(Repository::to_indexed) {
        Ok(r) => r,
        Err(e) => return errkind(&e),
    };
    let root = if opts.as_path {
        let mut root = Node::new_node(std::ffi::OsStr::new(""), NodeType::Dir, Metadata::default());
        root.subtree = Some(snap.tree);
        root
    } else {
        match repo.node_from_path(snap.tree, &srcdir) {
            Ok(n) => n,
            Err(e) => return format!("oracle-fail:source-dir-not-in-snapshot-{}", errkind(&e)),
        }
    };
    let obs = match verify(&repo, &snap, if opts.as_path { Path::new("") } else { &srcdir }, &root, &exps, opts, seed, &base) {
        Ok(o) => o,
        Err(e) => return e,
    };
    // the backup left the source as it was
    let mut disk2 = BTreeMap::new();
    if walk_dir(&srcdir, Path::new(""), &mut disk2).is_err() || disk2.len() != disk.len() {
        return "oracle-fail:source-changed".into();
    }
    for (k, w) in &disk {
        let w2 = &disk2[k];
        if (w.kind, &w.data, w.mode, w.mtime_s, w.ns) != (w2.kind, &w2.data, w2.mode, w2.mtime_s, w2.ns) {
            return "oracle-fail:source-changed".into();
        }
    }
    if let Err(e) = check_clean(&h) {
        return e;
    }
    format!("ok {}", obs.join(" "))
}

/// chunk number `i` of the `big` sources: distinct for every i (nothing deduplicates)
fn big_chunk(i: u64, size: usize, seed: u64) -> Vec<u8> {
    let mut v = i.to_le_bytes().to_vec();
    v.resize(size.max(8), (seed & 255) as u8);
    v
}

fn big_files(shape: &str, n: u64, size: usize, seed: u64) -> Option<Vec<SrcEntry>> {
    let mut out = Vec::new();
    match shape {
        "files" => {
            let f = 1 + seed % 3;
            let mut i = 0u64;
            for j in 0..f {
                let cnt = if j + 1 == f { n - i } else { n / f };
                let mut c = Vec::with_capacity(cnt as usize * size);
                for _ in 0..cnt {
                    c.extend_from_slice(&big_chunk(i, size, seed));
                    i += 1;
                }
                out.push(SrcEntry::file(&[format!("f{j}").as_bytes()], &c));
            }
        }
        "dirs" => {
            for i in 0..n {
                let (g, d) = (format!("g{}", i / 100), format!("d{}", i % 100));
                out.push(SrcEntry::file(&[g.as_bytes(), d.as_bytes(), b"f"], &big_chunk(i, size, seed)));
            }
        }
        _ => return None,
    }
    Some(out)
}

fn big(cfg: &Cfg, shape: &str, n: u64, seed: u64) -> String {
    if !cfg.fixed || cfg.avg < 8 || cfg.avg > 4096 || n > 400_000 {
        return "bad-op".into();
    }
    let Some(files) = big_files(shape, n, cfg.avg, seed) else { return "bad-op".into() };
    let nfiles = files.len();
    let src = MemSource::new(files);
    let trees = if shape == "dirs" { src.entries.len() - nfiles + 1 } else { 1 };
    if (n as usize) + trees < rustic_core::verif::indexer::MAX_COUNT {
        return "bad-op:fewer-blobs-than-MAX_COUNT".into();
    }
    let h = match init_with(cfg, None) {
        Ok(h) => h,
        Err(e) => return format!("init-{e}"),
    };
    let repo = match open_nc(&h).and_then(Repository::to_indexed_ids) {
        Ok(r) => r,
        Err(e) => return errkind(&e),
    };
    let snap = match repo.archive(&BackupOptions::default(), &src, SnapshotFile::default(), &[PathBuf::from(SRC_ROOT)]) {
        Ok(s) => s,
        Err(e) => return format!("backup-{}", errkind(&e)),
    };
    drop(repo);
    // a new process: everything comes from the stored index files
    let repo = match open_nc(&h).and_then(Repository::to_indexed) {
        Ok(r) => r,
        Err(e) => return format!("oracle-fail:reopen-{}", errkind(&e)),
    };
    let mut root = Node::new_node(std::ffi::OsStr::new(""), NodeType::Dir, Metadata::default());
    root.subtree = Some(snap.tree);
    let ls: Vec<(PathBuf, Node)> = match repo.ls(&root, &LsOptions::default()).and_then(|it| it.collect()) {
        Ok(v) => v,
        Err(e) => return format!("oracle-fail:ls-{}", errkind(&e)),
    };
    if ls.len() != src.entries.len() + 1 {
        return format!("oracle-fail:ls-entry-count:{}:{}", ls.len(), src.entries.len() + 1);
    }
    let by_path: BTreeMap<Vec<u8>, &Node> = ls.iter().map(|(p, n)| (p.as_os_str().as_bytes().to_vec(), n)).collect();
    let mut rng = Rng::new(seed);
    let mut chunks = 0usize;
    for e in &src.entries {
        let Some(n) = by_path.get(&join_rel(b"src", &e.path)) else { return "oracle-fail:ls-name-missing".into() };
        let SrcKind::File(c) = &e.kind else {
            if !n.is_dir() {
                return "oracle-fail:ls-dir".into();
            }
            continue;
        };
        if !n.is_file() || n.meta.size != c.len() as u64 {
            return "oracle-fail:ls-file-meta".into();
        }
        chunks += n.content.iter().flatten().count();
        let mut buf = Vec::with_capacity(c.len());
        if let Err(err) = repo.dump(n, &mut buf) {
            return format!("oracle-fail:dump-{}", errkind(&err));
        }
        if &buf != c {
            return "oracle-fail:dump-content".into();
        }
        if shape == "files" || rng.chance(1, 200) {
            let of = match repo.open_file(n) {
                Ok(f) => f,
                Err(err) => return format!("oracle-fail:open-{}", errkind(&err)),
            };
            for _ in 0..8 {
                let off = rng.below(c.len() as u64 + 1) as usize;
                let l = rng.below(5 * cfg.avg as u64) as usize;
                match repo.read_file_at(&of, off, l) {
                    Ok(b) if b.as_ref() == &c[off..(off + l).min(c.len())] => {}
                    Ok(_) => return format!("oracle-fail:read_at-content:{off}:{l}:{}", c.len()),
                    Err(err) => return format!("oracle-fail:read_at-{}", errkind(&err)),
                }
            }
        }
    }
    // the case has to have reached the indexer's flush in the middle of the run (else it shows nothing)
    if h.be.ids(rustic_core::FileType::Index).len() < 2 {
        return "oracle-fail:index-not-flushed".into();
    }
    if let Err(e) = check_clean(&h) {
        return e;
    }
    format!("ok {shape} {nfiles} chunks {chunks}")
}

/// `c01 lookup`: by-path lookups in ONE directory (see the module comment)
fn lookup(names: &[Vec<u8>], queries: &[Vec<u8>]) -> String {
    let cfg = Cfg { version: 2, comp: Some(0), fixed: true, avg: 4096, min: 4096, max: 4096, dp: None, tp: None };
    let h = match init_with(&cfg, None) {
        Ok(h) => h,
        Err(e) => return format!("init-{e}"),
    };
    let ents: Vec<SrcEntry> = names.iter().map(|n| SrcEntry::file(&[b"d", n.as_slice()], b"")).collect();
    let src = MemSource::new(ents);
    let repo = match open_nc(&h).and_then(Repository::to_indexed_ids) {
        Ok(r) => r,
        Err(e) => return errkind(&e),
    };
    let snap = match repo.archive(&BackupOptions::default(), &src, SnapshotFile::default(), &[PathBuf::from(SRC_ROOT)]) {
        Ok(s) => s,
        Err(e) => return format!("backup-{}", errkind(&e)),
    };
    drop(repo);
    let repo = match open_nc(&h).and_then(Repository::to_indexed) {
        Ok(r) => r,
        Err(e) => return errkind(&e),
    };
    // the stored tree of `d`: its nodes in stored order
    let d = match repo.node_from_path(snap.tree, Path::new("src/d")) {
        Ok(n) => n,
        Err(e) => return format!("oracle-fail:lookup-dir-{}", errkind(&e)),
    };
    let Some(sub) = d.subtree else { return "oracle-fail:lookup-dir-without-subtree".into() };
    let stored: Vec<Vec<u8>> = match repo.get_tree(&sub) {
        Ok(t) => t.nodes.iter().map(|n| n.name().as_bytes().to_vec()).collect(),
        Err(e) => return format!("oracle-fail:lookup-tree-{}", errkind(&e)),
    };
    let mut sorted = names.to_vec();
    sorted.sort();
    if stored != sorted {
        return "oracle-fail:lookup-tree-not-sorted-by-name".into();
    }
    let mut out = Vec::new();
    for q in queries {
        let mut p = PathBuf::from("src/d");
        p.push(os(q));
        match repo.node_from_path(snap.tree, &p) {
            Ok(n) => match stored.iter().position(|x| x.as_slice() == n.name().as_bytes()) {
                Some(i) if n.name().as_bytes() == q.as_slice() => out.push(format!("f{i}")),
                _ => return format!("oracle-fail:lookup-other-node:{}", hex(q)),
            },
            Err(_) => {
                if names.contains(q) {
                    return format!("oracle-fail:lookup-listed-name-not-found:{}", hex(q));
                }
                out.push("n".into());
            }
        }
    }
    format!("ok {}", out.join(" "))
}

fn run_e2e(rest: &[&str], local: bool) -> String {
    let ncfg = 8;
    if rest.len() < ncfg + 2 {
        return "bad-op".into();
    }
    let Some(cfg) = Cfg::parse(&rest[..ncfg]) else { return "bad-op".into() };
    let Ok(seed) = rest[rest.len() - 1].parse::<u64>() else { return "bad-op".into() };
    let Some((opts, ent_toks)) = split_opts(&rest[ncfg..rest.len() - 1]) else { return "bad-op".into() };
    let Some(entries) = parse_entries(ent_toks) else { return "bad-op".into() };
    if entries.is_empty() {
        return "bad-op".into();
    }
    // a recorded size other than the content length exists for in-memory sources only; never for a file with several names
    if entries.iter().any(|x| x.rsize.is_some() && (local || is_hl(&entries, x))) {
        return "bad-op".into();
    }
    if local { e2el(&cfg, &opts, entries, seed) } else { e2e(&cfg, &opts, entries, seed) }
}

pub fn exec(toks: &[&str]) -> String {
    let t: Vec<String> = toks.iter().map(|s| (*s).to_string()).collect();
    guarded(std::panic::AssertUnwindSafe(move || {
        let t: Vec<&str> = t.iter().map(String::as_str).collect();
        match t.as_slice() {
            ["esc", name] => {
                let Some(name) = unhex(name) else { return "bad-op".into() };
                let esc = rustic_core::verif::node::escape(&name);
                let back = rustic_core::verif::node::unescape(&esc);
                if back.as_deref() != Some(name.as_slice()) {
                    return "oracle-fail:escape-roundtrip".into();
                }
                format!("ok {} {}", hex(esc.as_bytes()), hex(&name))
            }
            ["unesc", s] => {
                let Some(b) = unhex(s) else { return "bad-op".into() };
                let Ok(s) = String::from_utf8(b) else { return "bad-op".into() };
                match rustic_core::verif::node::unescape(&s) {
                    Some(b) => format!("ok {}", hex(&b)),
                    None => "err".into(),
                }
            }
            ["start", sizes, offset] => {
                let sizes: Option<Vec<usize>> = if *sizes == "-" { Some(vec![]) } else { sizes.split(',').map(|x| x.parse().ok()).collect() };
                let (Some(sizes), Ok(offset)) = (sizes, offset.parse::<usize>()) else { return "bad-op".into() };
                let (i, o) = rustic_core::verif::vfs::compute_start(&sizes, offset);
                format!("ok {i} {o}")
            }
            ["coalesce", locs] => {
                let locs: Option<Vec<(u32, u32)>> = locs
                    .split(',')
                    .map(|x| {
                        let (a, b) = x.split_once(':')?;
                        Some((a.parse().ok()?, b.parse().ok()?))
                    })
                    .collect();
                let Some(locs) = locs else { return "bad-op".into() };
                // itertools' coalesce: the running group absorbs the next location or is emitted
                let mut groups: Vec<(u32, u32, usize)> = Vec::new();
                for l in locs {
                    match groups.last().copied() {
                        Some((o, n, k)) => match rustic_core::verif::blob::coalesce((o, n), l) {
                            Some((o2, n2)) => *groups.last_mut().unwrap() = (o2, n2, k + 1),
                            None => groups.push((l.0, l.1, 1)),
                        },
                        None => groups.push((l.0, l.1, 1)),
                    }
                }
                format!("ok {}", groups.iter().map(|(o, n, k)| format!("{o}:{n}:{k}")).collect::<Vec<_>>().join(" "))
            }
            ["link", target] => {
                let Some(t) = unhex(target) else { return "bad-op".into() };
                let nt = NodeType::from_link(Path::new(std::ffi::OsStr::from_bytes(&t)));
                let NodeType::Symlink { linktarget, linktarget_raw } = &nt else { return "oracle-fail:link-type".into() };
                let back = nt.to_link().as_os_str().as_bytes().to_vec();
                if back != t {
                    return "oracle-fail:link-roundtrip".into();
                }
                // the node as it is stored in a tree blob and read again
                let node = Node::new_node(std::ffi::OsStr::new("l"), nt.clone(), Metadata::default());
                let parsed: Option<Node> = serde_json::to_string(&node).ok().and_then(|js| serde_json::from_str(&js).ok());
                match parsed {
                    Some(n) if n.is_symlink() && n.node_type.to_link().as_os_str().as_bytes() == t.as_slice() => {}
                    _ => return "oracle-fail:link-serde".into(),
                }
                let s = if linktarget_raw.is_some() { "-".to_string() } else { hex(linktarget.as_bytes()) };
                format!("ok {} {} {s}", u8::from(linktarget_raw.is_some()), hex(&back))
            }
            ["lookup", names, queries] => {
                let list = |t: &str| -> Option<Vec<Vec<u8>>> { t.split(',').map(unhex).collect() };
                let (Some(names), Some(queries)) = (list(names), list(queries)) else { return "bad-op".into() };
                let ok = |c: &Vec<u8>| !(c.is_empty() || c.len() > 255 || c == b"." || c == b".." || c.contains(&b'/') || c.contains(&0));
                let distinct: std::collections::BTreeSet<&Vec<u8>> = names.iter().collect();
                if !names.iter().chain(&queries).all(ok) || distinct.len() != names.len() {
                    return "bad-op".into();
                }
                lookup(&names, &queries)
            }
            ["ixr", rest @ ..] => ixr::exec(rest),
            ["time", rest @ ..] => time::exec(rest),
            ["big", rest @ ..] => {
                if rest.len() != 11 {
                    return "bad-op".into();
                }
                let (Some(cfg), Ok(n), Ok(seed)) = (Cfg::parse(&rest[..8]), rest[9].parse::<u64>(), rest[10].parse::<u64>()) else { return "bad-op".into() };
                big(&cfg, rest[8], n, seed)
            }
            ["e2e", rest @ ..] => run_e2e(rest, false),
            ["e2el", rest @ ..] => run_e2e(rest, true),
            _ => "bad-op".into(),
        }
    }))
}

// ---------------------------------------------------------------------------------------------------------

const NAMES: [&[u8]; 16] = [
    b"a", b"b", b"B", b"c.txt", b"\"q", b"\\z", b"\xc3\xa9", b"\xff\xfe", b"a b", b"zz", b"A", b"\x01c", b"tab\there", b"nl\nx",
    b"\xe2\x82", b"\xf0\x9f\x98\x80!",
];

fn rand_name(rng: &mut Rng) -> Vec<u8> {
    match rng.below(4) {
        0 => {
            let n = 1 + rng.below(12) as usize;
            let mut v = rng.bytes(n);
            for b in &mut v {
                if *b == b'/' || *b == 0 {
                    *b = b'_';
                }
            }
            if v == b"." || v == b".." {
                v = b"dot".to_vec();
            }
            v
        }
        _ => rng.pick(&NAMES).to_vec(),
    }
}

fn gen_cfg(rng: &mut Rng, stats: &mut Stats) -> Cfg {
    let version = if rng.chance(1, 3) { 1 } else { 2 };
    let comp = if version == 2 { *rng.pick(&[None, Some(0), Some(1), Some(-5), Some(19), Some(3)]) } else { None };
    let fixed = rng.chance(1, 3);
    let (avg, min, max) = if fixed {
        let s = *rng.pick(&[1usize, 100, 4096, 5000]);
        (s, s, s)
    } else if rng.chance(1, 8) {
        stats.hit("cfg.rabin-default");
        (1 << 20, 512 << 10, 8 << 20)
    } else {
        let bits = rng.range(6, 12);
        let avg = 1usize << bits;
        let min = *rng.pick(&[avg, avg / 2, 64.max(avg / 4), 64.min(avg)]);
        let max = *rng.pick(&[avg, 2 * avg, 8 * avg]);
        (avg, min.max(1), max)
    };
    let dp = *rng.pick(&[None, Some(1u32), Some(3000), Some(20000)]);
    let tp = *rng.pick(&[None, Some(1u32), Some(700)]);
    stats.hit(format!("cfg.v{version}"));
    stats.hit(if fixed { "cfg.fixed" } else { "cfg.rabin" });
    stats.hit(format!("cfg.comp.{comp:?}"));
    Cfg { version, comp, fixed, avg, min, max, dp, tp }
}

pub fn generate(thorough: bool, rng: &mut Rng, ops: &mut Vec<String>, stats: &mut Stats) {
    // the indexer's index files (own rng stream, so the other generators keep their cases)
    ixr::generate(thorough, &mut Rng::new(rng.below(1 << 60)), ops, stats);
    time::generate(thorough, &mut Rng::new(rng.below(1 << 60)), ops, stats);
    // file names
    for n in NAMES {
        ops.push(format!("c01 esc {}", hex(n)));
    }
    let n_esc = if thorough { 5000 } else { 600 };
    for _ in 0..n_esc {
        let len = rng.below(14) as usize;
        let mut v = rng.bytes(len);
        // bias towards the interesting bytes
        for b in &mut v {
            if rng.chance(1, 3) {
                *b = *rng.pick(&[b'\\', b'"', 7, 8, 9, 10, 11, 12, 13, b'a', b'x', 0xc3, 0xa9, 0xe2, 0x82, 0xac, 0xf0, 0x9f, 0xff, 0x80, b'\'', b'`']);
            }
        }
        stats.hit("esc");
        ops.push(format!("c01 esc {}", hex(&v)));
    }
    let strs: [&str; 16] = [
        "plain", "\\", "a\\", "\\q", "\\x4", "\\x41", "\\xzz", "\\x+f", "\\u00e9", "\\U0001F600", "\\ud800", "\\U00110000", "\\'\\`", "é\\x", "\\u12",
        "\\a\\b\\f\\n\\r\\t\\v\\\\\\\"",
    ];
    for s in strs {
        ops.push(format!("c01 unesc {}", hex(s.as_bytes())));
    }
    for _ in 0..(if thorough { 2000 } else { 300 }) {
        let n = rng.below(10) as usize;
        let alphabet = ['\\', 'x', 'u', 'U', '0', '4', 'f', 'F', 'g', '+', 'a', 'n', '"', 'é', 'z', '1', 'd', '8'];
        let s: String = (0..n).map(|_| *rng.pick(&alphabet)).collect();
        stats.hit("unesc");
        ops.push(format!("c01 unesc {}", hex(s.as_bytes())));
    }
    // start points
    for _ in 0..(if thorough { 3000 } else { 400 }) {
        let k = rng.below(7) as usize;
        let sizes: Vec<usize> = (0..k).map(|_| *rng.pick(&[0usize, 1, 2, 5, 100, 4096])).collect();
        let total: usize = sizes.iter().sum();
        let off = match rng.below(5) {
            0 => 0,
            1 => total,
            2 => total + 1 + rng.below(10) as usize,
            3 => {
                // exactly a boundary
                let j = rng.below(k as u64 + 1) as usize;
                sizes[..j].iter().sum()
            }
            _ => rng.below(total as u64 + 2) as usize,
        };
        stats.hit("start");
        let s = if sizes.is_empty() { "-".to_string() } else { sizes.iter().map(ToString::to_string).collect::<Vec<_>>().join(",") };
        ops.push(format!("c01 start {s} {off}"));
    }
    // coalescing: sorted, non-overlapping locations with holes around the limits
    const HOLE: u32 = 256 * 1024;
    const LIMIT: u32 = 40 * 1024 * 1024;
    for _ in 0..(if thorough { 3000 } else { 400 }) {
        let k = 1 + rng.below(7) as usize;
        let mut off: u32 = rng.below(1000) as u32;
        let mut locs = Vec::new();
        for _ in 0..k {
            let len = *rng.pick(&[1u32, 32, 4000, 1 << 20, LIMIT - 100, 10 << 20]);
            locs.push(format!("{off}:{len}"));
            let hole = *rng.pick(&[0u32, 0, 1, HOLE - 1, HOLE, HOLE + 1, 5]);
            off = off.saturating_add(len).saturating_add(hole).min(u32::MAX / 4);
        }
        stats.hit("coalesce");
        ops.push(format!("c01 coalesce {}", locs.join(",")));
    }
    // link targets as stored in a node
    const LINKS: [&[u8]; 14] = [
        b"", b"a", b"/", b"\xc3\xa9", b"\xf0\x9f\x98\x80", b"\xff", b"\xe2\x82", b"a\xe2\x82", b"\xed\xa0\x80", b"\xc0\xaf", b"\xf4\x90\x80\x80", b"a\\b\"c\nd", b"\x00",
        b"\xef\xbf\xbd",
    ];
    for t in LINKS {
        ops.push(format!("c01 link {}", hex(t)));
    }
    for i in 0..(if thorough { 3000 } else { 300 }) {
        let mut t = match i % 6 {
            0 => {
                // valid UTF-8 of all encoded lengths
                let n = rng.below(12) as usize;
                let cs = ['a', '/', '\\', '"', '\n', 'é', '€', '😀', '\u{7f}', '\u{80}', '\u{7ff}', '\u{800}', '\u{ffff}', '\u{10000}', '\u{10ffff}', '\u{fffd}'];
                (0..n).map(|_| *rng.pick(&cs)).collect::<String>().into_bytes()
            }
            1 => {
                let n = *rng.pick(&[4095usize, 4096, 4097, 5000]);
                let mut v = rng.bytes(n);
                if rng.chance(1, 2) {
                    for b in &mut v {
                        *b = b'a' + *b % 26;
                    }
                }
                v
            }
            2 => {
                let n = rng.below(10) as usize;
                rng.bytes(n)
            }
            _ => rand_target(rng, stats),
        };
        if rng.chance(1, 6) {
            // a valid prefix with one broken byte somewhere
            let k = rng.below(t.len() as u64 + 1) as usize;
            t.insert(k, *rng.pick(&[0xffu8, 0x80, 0xc3, 0xe2, 0xf0, 0xed, 0]));
        }
        stats.hit(if std::str::from_utf8(&t).is_ok() { "link.utf8" } else { "link.non-utf8" });
        ops.push(format!("c01 link {}", hex(&t)));
    }
    // by-path lookups in one directory: names around the bytes that escaping changes (`"`, `\\`, controls, invalid UTF-8) next to
    // plain neighbours, so that the order of the escaped strings differs from the order of the names
    const LK: [&[u8]; 24] = [
        b"a!", b"a\"z", b"a#", b"m", b"z", b"\xff", b"caf\xe9", b"cafe", b"caff", b"Z", b"\\", b"a", b"tab\there", b"tab", b"tabz", b"\x01", b"0", b"~",
        b"a\\b", b"a]b", b"a[b", b"\xc3\xa9", b"\xc3", b"x\ny",
    ];
    for i in 0..(if thorough { 1500 } else { 150 }) {
        let k = 2 + rng.below(if i % 4 == 0 { 30 } else { 8 }) as usize;
        let mut names: Vec<Vec<u8>> = Vec::new();
        for _ in 0..k {
            let n = match rng.below(4) {
                0 => rand_name(rng),
                1 => {
                    // a neighbour of a name already there: one byte changed to an escape-relevant or plain one / appended
                    let mut n = if names.is_empty() { b"a".to_vec() } else { rng.pick(&names).clone() };
                    let b = *rng.pick(&[b'"', b'\\', b'!', b'#', b'[', b']', b'\t', b'\n', 0x7f, 0xff, 0x80, b'a', b'Z', b'~', b' ']);
                    if rng.chance(1, 2) || n.is_empty() { n.push(b) } else { let j = rng.below(n.len() as u64) as usize; n[j] = b }
                    n
                }
                _ => rng.pick(&LK).to_vec(),
            };
            if n.len() <= 255 && n != b"." && n != b".." && !names.contains(&n) {
                names.push(n);
            }
        }
        let mut queries = names.clone();
        for n in names.clone() {
            if rng.chance(1, 3) {
                let e = rustic_core::verif::node::escape(&n).into_bytes();
                if !queries.contains(&e) {
                    queries.push(e);
                }
            }
        }
        for _ in 0..2 {
            let n = rand_name(rng);
            if !queries.contains(&n) && n != b"." && n != b".." {
                queries.push(n);
            }
        }
        stats.hit("lookup");
        if names.iter().any(|n| rustic_core::verif::node::escape(n).as_bytes() != n.as_slice()) {
            stats.hit("lookup.dir-with-escaped-name");
        }
        let l = |v: &[Vec<u8>]| v.iter().map(|x| hex(x)).collect::<Vec<_>>().join(",");
        ops.push(format!("c01 lookup {} {}", l(&names), l(&queries)));
    }
    // one backup with more blobs than the indexer collects before it writes an index file
    let max_count = rustic_core::verif::indexer::MAX_COUNT as u64;
    let bigs: Vec<(&str, u64)> = if thorough { vec![("files", max_count + 10_000), ("files", 2 * max_count + 5), ("dirs", max_count / 2 + 2_000), ("files", max_count + 1)] } else { vec![("files", max_count + 10_000)] };
    for (shape, n) in bigs {
        let size = *rng.pick(&[16usize, 32, 64]);
        let cfg = Cfg { version: 2, comp: *rng.pick(&[None, Some(3)]), fixed: true, avg: size, min: size, max: size, dp: Some(*rng.pick(&[20_000u32, 100_000])), tp: Some(*rng.pick(&[20_000u32, 100_000])) };
        stats.hit(format!("big.{shape}"));
        ops.push(format!("c01 big {} {shape} {n} {}", cfg.tokens().join(" "), rng.below(1 << 32)));
    }
    // end to end: the classic mix, shaped scenarios on the in-memory source, and real directories
    let (n_classic, n_shaped, n_local) = if thorough { (1500, 120, 400) } else { (200, 40, 100) };
    for _ in 0..n_classic {
        if let Some(l) = gen_case("classic", false, thorough, rng, stats) {
            ops.push(l);
        }
    }
    for scn in ["deep", "bound", "hard", "coll", "links", "mixed"] {
        for _ in 0..n_shaped {
            if let Some(l) = gen_case(scn, false, thorough, rng, stats) {
                ops.push(l);
            }
        }
    }
    for i in 0..n_local {
        let scn = ["mixed", "mixed", "mixed", "deep", "hard", "links", "bound", "classic"][i % 8];
        if let Some(l) = gen_case(scn, true, thorough, rng, stats) {
            ops.push(l);
        }
    }
}

// ---------------------------------------------------------------------------------------------------------
// end-to-end case builder

/// link targets: non-UTF-8 bytes, backslashes / quotes / newlines, absolute, dotted, long (up to the 4095 bytes a symlink holds)
fn rand_target(rng: &mut Rng, stats: &mut Stats) -> Vec<u8> {
    const FIXED: [&[u8]; 18] = [
        b"\xff\xfe",
        b"../\xff\xfe/x",
        b"a\\b\"c\nd",
        b"\\\\",
        b"\"",
        b"\n",
        b"/",
        b"/etc/passwd",
        b".",
        b"..",
        b"dir/",
        b"\xe2\x82",
        b"\x80",
        b"\xc0\xaf",
        b"\xed\xa0\x80",
        b"\\xff\\u00e9",
        b"\xf0\x9f\x98\x80 \xc3\xa9",
        b"a//b/./c/",
    ];
    let t = match rng.below(6) {
        0 => rand_name(rng),
        1 | 2 => rng.pick(&FIXED).to_vec(),
        3 => {
            // random bytes biased to the awkward ones, with separators
            let n = 1 + rng.below(40) as usize;
            let mut v = rng.bytes(n);
            for b in &mut v {
                if rng.chance(1, 3) {
                    *b = *rng.pick(&[b'\\', b'"', b'\n', b'/', 0xff, 0xfe, 0x80, 0xc3, b'\'', b'\t', b' ', b'.']);
                }
            }
            v
        }
        4 => {
            let n = *rng.pick(&[254usize, 255, 256, 1000, 4094, 4095]);
            let mut v = rng.bytes(n);
            for (i, b) in v.iter_mut().enumerate() {
                if i % 50 == 49 {
                    *b = b'/';
                }
            }
            stats.hit("symlink.target.long");
            v
        }
        _ => {
            let mut v = rand_name(rng);
            v.extend_from_slice(b"/");
            v.extend_from_slice(&rand_name(rng));
            v
        }
    };
    let mut t: Vec<u8> = t.into_iter().map(|b| if b == 0 { b'_' } else { b }).collect();
    if t.is_empty() {
        t = b"x".to_vec();
    }
    if std::str::from_utf8(&t).is_err() {
        stats.hit("symlink.target.non-utf8");
    }
    if t.iter().any(|b| matches!(b, b'\\' | b'"' | b'\n')) {
        stats.hit("symlink.target.backslash-quote-newline");
    }
    t
}

fn rand_mtime(rng: &mut Rng, stats: &mut Stats, ns: bool) -> (i64, u32) {
    let s = if rng.chance(1, 8) {
        let s = *rng.pick(&[-2_000_000_000i64, -86_400, -1, 0, 1, (1 << 31) - 1, 1 << 31, 1 << 32, 10_000_000_000]);
        stats.hit(if s < 0 { "mtime.before-1970" } else if s >= 1 << 31 { "mtime.after-2038" } else { "mtime.epoch" });
        s
    } else {
        1_500_000_000 + rng.below(100_000_000) as i64
    };
    let n = if ns {
        match rng.below(4) {
            0 => 0,
            1 => *rng.pick(&[1u32, 999_999_999, 500_000_000, 1000]),
            _ => rng.below(1_000_000_000) as u32,
        }
    } else {
        0
    };
    if n != 0 {
        stats.hit(if s < 0 { "mtime.before-1970-with-nanoseconds" } else { "mtime.nanoseconds" });
    }
    (s, n)
}

struct Build {
    ents: Vec<PEnt>,
    spec: BTreeMap<Vec<Vec<u8>>, (String, usize, u64)>,
    local: bool,
}

impl Build {
    fn new(local: bool) -> Self {
        Self { ents: vec![], spec: BTreeMap::new(), local }
    }
    /// may `path` be added (under explicit directories only, not over or above anything)
    fn free(&self, path: &[Vec<u8>]) -> bool {
        !path.is_empty()
            && self.ents.iter().all(|x| {
                x.e.path != path && !(path.starts_with(&x.e.path) && !matches!(x.e.kind, SrcKind::Dir)) && !x.e.path.starts_with(path)
            })
    }
    fn push(&mut self, path: Vec<Vec<u8>>, kind: SrcKind, mode: u32, mt: (i64, u32), tag: Tag, xlinks: u64) {
        self.ents.push(PEnt { e: SrcEntry { path, kind, mode, mtime_s: mt.0, ctime_s: mt.0, inode: 0, links: 1 }, tag, ns: mt.1, xlinks, rsize: None });
    }
    fn file_mode(&self, rng: &mut Rng, stats: &mut Stats) -> u32 {
        if rng.chance(1, 5) {
            let m = *rng.pick(&[0o4755u32, 0o2755, 0o6711, 0o1644, 0o000, 0o200, 0o777, 0o7777, 0o111]);
            stats.hit(format!("mode.file.{m:o}"));
            m
        } else {
            *rng.pick(&[0o644u32, 0o600, 0o755, 0o444])
        }
    }
    fn dir_mode(&self, rng: &mut Rng, stats: &mut Stats) -> u32 {
        if rng.chance(1, 5) {
            let m = *rng.pick(&[0o1777u32, 0o2775, 0o500, 0o000, 0o111, 0o7777, 0o4755]);
            stats.hit(format!("mode.dir.{m:o}"));
            m
        } else {
            *rng.pick(&[0o755u32, 0o700, 0o775])
        }
    }
    fn file(&mut self, rng: &mut Rng, stats: &mut Stats, path: Vec<Vec<u8>>, kind: &str, len: usize, xlinks: u64) -> bool {
        if !self.free(&path) {
            return false;
        }
        let seed = rng.below(1 << 40);
        let mode = self.file_mode(rng, stats);
        let mt = rand_mtime(rng, stats, true);
        stats.hit(format!("file.{kind}.{}", Stats::bucket(len)));
        _ = self.spec.insert(path.clone(), (kind.to_string(), len, seed));
        // the bytes are regenerated from the token
        self.push(path, SrcKind::File(vec![]), mode, mt, Tag::Plain, xlinks);
        // in-memory sources: 1 file in 6 sits behind a node that RECORDS another size than its reader delivers — 0 (stdin-style
        // node: `backup -`, `--stdin-command`, block device saved as file), a smaller one (grown after `stat`), a larger one (shrunk)
        if !self.local && xlinks == 0 && rng.chance(1, 6) {
            let l = len as u64;
            let r = match rng.below(5) {
                0 | 1 => 0,
                2 => l / 2,
                3 => l.saturating_sub(1),
                _ => l + 1 + rng.below(100_000),
            };
            if r != l {
                stats.hit(if r == 0 { "file.recorded-size.zero" } else if r < l { "file.recorded-size.smaller" } else { "file.recorded-size.larger" });
                self.ents.last_mut().unwrap().rsize = Some(r);
            }
        }
        true
    }
    fn dir(&mut self, rng: &mut Rng, stats: &mut Stats, path: Vec<Vec<u8>>) -> bool {
        if !self.free(&path) {
            return false;
        }
        let mode = self.dir_mode(rng, stats);
        let mt = rand_mtime(rng, stats, true);
        self.push(path, SrcKind::Dir, mode, mt, Tag::Plain, 0);
        true
    }
    fn link(&mut self, rng: &mut Rng, stats: &mut Stats, path: Vec<Vec<u8>>) -> bool {
        if !self.free(&path) {
            return false;
        }
        let t = rand_target(rng, stats);
        // the mtime of a real symlink cannot be chosen (it is read from the disk instead)
        let mt = if self.local { (0, 0) } else { rand_mtime(rng, stats, true) };
        stats.hit("symlink");
        self.push(path, SrcKind::Symlink(t), 0o777, mt, Tag::Plain, 0);
        true
    }
    fn hard(&mut self, path: Vec<Vec<u8>>, target: Vec<Vec<u8>>) -> bool {
        if !self.free(&path) {
            return false;
        }
        // a file with several names records its real size
        for x in &mut self.ents {
            if x.e.path == target {
                x.rsize = None;
            }
        }
        self.push(path, SrcKind::File(vec![]), 0, (0, 0), Tag::Hard(target), 0);
        true
    }
    fn tree_of(&mut self, rng: &mut Rng, stats: &mut Stats, path: Vec<Vec<u8>>, dir: Vec<Vec<u8>>) -> bool {
        if !self.free(&path) || path.starts_with(&dir) {
            return false;
        }
        let mode = self.file_mode(rng, stats);
        let mt = rand_mtime(rng, stats, true);
        self.push(path, SrcKind::File(vec![]), mode, mt, Tag::TreeOf(dir), 0);
        true
    }
    /// explicit entries for all parents, sorted by path: the op line is the whole source
    fn finish(mut self, rng: &mut Rng, stats: &mut Stats) -> Vec<String> {
        let mut have: std::collections::BTreeSet<Vec<Vec<u8>>> = self.ents.iter().map(|x| x.e.path.clone()).collect();
        let paths: Vec<Vec<Vec<u8>>> = have.iter().cloned().collect();
        for p in paths {
            for k in 1..p.len() {
                if have.insert(p[..k].to_vec()) {
                    let mode = self.dir_mode(rng, stats);
                    let mt = rand_mtime(rng, stats, true);
                    self.push(p[..k].to_vec(), SrcKind::Dir, mode, mt, Tag::Plain, 0);
                }
            }
        }
        self.ents.sort_by(|a, b| a.e.path.cmp(&b.e.path));
        let depth = self.ents.iter().map(|x| x.e.path.len()).max().unwrap_or(0);
        stats.hit(format!("tree.depth.{}", match depth { 0..=3 => "1-3", 4..=8 => "4-8", 9..=12 => "9-12", 13..=24 => "13-24", _ => "25+" }));
        for x in &self.ents {
            if matches!(x.e.kind, SrcKind::Dir) && !self.ents.iter().any(|y| y.e.path.len() > x.e.path.len() && y.e.path.starts_with(&x.e.path)) {
                stats.hit("dir.empty");
            }
        }
        self.ents.iter().map(|x| entry_token(x, &self.spec)).collect()
    }
}

fn short_name(rng: &mut Rng) -> Vec<u8> {
    rng.pick(&[&b"a"[..], b"b", b"B", b"d", b"e", b"\xff", b"\xc3\xa9", b"\"", b"\\", b" ", b"zz", b"A"]).to_vec()
}

fn small_cfg(rng: &mut Rng, stats: &mut Stats) -> Cfg {
    loop {
        let c = gen_cfg(rng, stats);
        if c.avg < (1 << 20) {
            return c;
        }
    }
}

/// sizes at the borders of the chunker
fn border_len(rng: &mut Rng, stats: &mut Stats, cfg: &Cfg, cap: usize) -> usize {
    let (l, what) = if cfg.fixed {
        let k = 1 + rng.below(5) as usize;
        match rng.below(3) {
            0 => (k * cfg.avg - 1, "fixed.k*size-1"),
            1 => (k * cfg.avg, "fixed.k*size"),
            _ => (k * cfg.avg + 1, "fixed.k*size+1"),
        }
    } else {
        match rng.below(9) {
            0 => (cfg.min.saturating_sub(1), "rabin.min-1"),
            1 => (cfg.min, "rabin.min"),
            2 => (cfg.min + 1, "rabin.min+1"),
            3 => (cfg.max - 1, "rabin.max-1"),
            4 => (cfg.max, "rabin.max"),
            5 => (cfg.max + 1, "rabin.max+1"),
            6 => (2 * cfg.max, "rabin.2max"),
            7 => (3 * cfg.max, "rabin.3max"),
            _ => (2 * cfg.max + cfg.min, "rabin.2max+min"),
        }
    };
    if l <= cap {
        stats.hit(format!("len.border.{what}"));
    }
    l.min(cap)
}

fn classic_len(rng: &mut Rng, cfg: &Cfg, thorough: bool) -> usize {
    let unit = if cfg.fixed { cfg.avg } else { cfg.max };
    if cfg.avg >= (1 << 20) {
        *rng.pick(&[0usize, 1, 600_000, 1_200_000])
    } else {
        match rng.below(7) {
            0 => 0,
            1 => 1,
            2 => cfg.min.saturating_sub(1),
            3 => unit,
            4 => unit + 1,
            5 => 3 * unit + rng.below(unit as u64 + 1) as usize,
            _ => rng.below(6 * unit as u64 + 2) as usize,
        }
        .min(if thorough { 200_000 } else { 60_000 })
    }
}

/// one end-to-end op line of the given scenario
#[allow(clippy::too_many_lines)]
fn gen_case(scn: &str, local: bool, thorough: bool, rng: &mut Rng, stats: &mut Stats) -> Option<String> {
    let cap = if thorough { 200_000 } else { 60_000 };
    let mut b = Build::new(local);
    let mut gf = None;
    let mut cfg = match scn {
        "classic" => gen_cfg(rng, stats),
        _ => small_cfg(rng, stats),
    };
    let content_kind = |rng: &mut Rng| *rng.pick(&["z", "c", "r", "r", "p"]);
    match scn {
        "classic" => {
            let n = 1 + rng.below(6) as usize;
            for _ in 0..n {
                let depth = 1 + rng.below(3) as usize;
                let path: Vec<Vec<u8>> = (0..depth).map(|_| rand_name(rng)).collect();
                match rng.below(8) {
                    0 => _ = b.link(rng, stats, path),
                    1 => _ = b.dir(rng, stats, path),
                    _ => {
                        let len = classic_len(rng, &cfg, thorough);
                        let k = content_kind(rng);
                        _ = b.file(rng, stats, path, k, len, 0);
                    }
                }
            }
        }
        "deep" => {
            // a chain of directories; leaves: empty directory / file / symlink; directories holding only empty directories
            let maxd = if thorough { 40 } else { 12 };
            let dr = 2 + rng.below(maxd as u64 - 2) as usize;
            let d = *rng.pick(&[maxd, maxd - 1, dr]);
            let chain: Vec<Vec<u8>> = (0..d).map(|_| short_name(rng)).collect();
            match rng.below(3) {
                0 => _ = b.dir(rng, stats, chain.clone()),
                1 => {
                    let (k, l) = (content_kind(rng), rng.below(300) as usize);
                    _ = b.file(rng, stats, chain.clone(), k, l, 0);
                }
                _ => _ = b.link(rng, stats, chain.clone()),
            }
            for _ in 0..rng.below(4) {
                // empty directories (and directories of empty directories) hanging off the chain
                let k = rng.below(d as u64) as usize;
                let mut p = chain[..k].to_vec();
                p.push(rand_name(rng));
                if rng.chance(1, 2) {
                    let mut q = p.clone();
                    q.push(short_name(rng));
                    _ = b.dir(rng, stats, q);
                    let mut q = p.clone();
                    q.push(rand_name(rng));
                    if b.dir(rng, stats, q) {
                        stats.hit("dir.of-empty-dirs");
                    }
                } else {
                    _ = b.dir(rng, stats, p);
                }
            }
            if rng.chance(1, 2) {
                let k = rng.below(d as u64) as usize;
                let mut p = chain[..k].to_vec();
                p.push(rand_name(rng));
                let l = rng.below(2000) as usize;
                _ = b.file(rng, stats, p, "r", l, 0);
            }
        }
        "bound" => {
            // sizes at the chunker's borders, pack size at 1 / 2 blobs ± 1 (grow factor 0: the pack size stays what it is)
            if !cfg.fixed {
                let bits = rng.range(6, 10);
                cfg.avg = 1 << bits;
                cfg.min = *rng.pick(&[cfg.avg, cfg.avg / 2, 64]);
                cfg.max = *rng.pick(&[cfg.avg, 2 * cfg.avg, 8 * cfg.avg]);
            } else if cfg.avg == 1 {
                cfg.avg = 512;
                cfg.min = 512;
                cfg.max = 512;
            }
            let unit = (if cfg.fixed { cfg.avg } else { cfg.max }) as u32;
            if rng.chance(3, 4) {
                let blob = unit + 32;
                let (dp, what) = match rng.below(7) {
                    0 => (blob - 1, "1blob-1"),
                    1 => (blob, "1blob"),
                    2 => (blob + 1, "1blob+1"),
                    3 => (2 * blob - 1, "2blobs-1"),
                    4 => (2 * blob, "2blobs"),
                    5 => (2 * blob + 1, "2blobs+1"),
                    _ => (3 * blob, "3blobs"),
                };
                cfg.dp = Some(dp);
                gf = Some(0);
                stats.hit(format!("pack.size.{what}"));
                if cfg.version == 1 || cfg.comp.is_none() {
                    stats.hit("pack.size.exact(uncompressed)");
                }
            }
            let n = 2 + rng.below(4) as usize;
            for _ in 0..n {
                let len = border_len(rng, stats, &cfg, cap);
                let path = vec![rand_name(rng)];
                let kind = *rng.pick(&["r", "r", "r", "z", "c", "p"]);
                _ = b.file(rng, stats, path, kind, len, 0);
            }
        }
        "hard" => {
            // files with several names (same / different directories), files with names outside of the tree
            let groups = 1 + rng.below(3) as usize;
            for _ in 0..groups {
                let depth = 1 + rng.below(3) as usize;
                let path: Vec<Vec<u8>> = (0..depth).map(|_| rand_name(rng)).collect();
                let len = if rng.chance(1, 5) { 0 } else { classic_len(rng, &cfg, thorough) };
                let x = if rng.chance(1, 4) { 1 + rng.below(2) } else { 0 };
                let k = content_kind(rng);
                if !b.file(rng, stats, path.clone(), k, len, x) {
                    continue;
                }
                let names = if x > 0 && rng.chance(1, 2) { 0 } else { 1 + rng.below(3) };
                if names == 0 {
                    stats.hit("hardlink.names-outside-only");
                }
                for _ in 0..names {
                    let mut p = if rng.chance(1, 2) { path[..path.len() - 1].to_vec() } else { (0..rng.below(3)).map(|_| rand_name(rng)).collect() };
                    p.push(rand_name(rng));
                    if b.hard(p, path.clone()) {
                        stats.hit("hardlink.name");
                    }
                }
            }
            // and something that is not linked
            let (p, l) = (vec![rand_name(rng)], rng.below(500) as usize);
            _ = b.file(rng, stats, p, "r", l, 0);
        }
        "coll" => {
            // a file whose bytes are the serialised tree of a directory next to it (the tree has to stay one chunk for the ids to collide)
            cfg.fixed = rng.chance(1, 2);
            if cfg.fixed {
                let s = *rng.pick(&[4096usize, 5000, 16384]);
                (cfg.avg, cfg.min, cfg.max) = (s, s, s);
            } else {
                cfg.avg = *rng.pick(&[1usize << 12, 1 << 13, 1 << 14]);
                cfg.min = cfg.avg;
                cfg.max = 8 * cfg.avg;
            }
            let top: Vec<Vec<u8>> = if rng.chance(1, 2) { vec![] } else { vec![rand_name(rng)] };
            let mut d = top.clone();
            d.push(rng.pick(&[&b"d"[..], b"m", b"\xffd"]).to_vec());
            if !b.dir(rng, stats, d.clone()) {
                return None;
            }
            for _ in 0..rng.below(4) {
                let mut p = d.clone();
                p.push(rand_name(rng));
                match rng.below(4) {
                    0 => _ = b.dir(rng, stats, p),
                    1 => _ = b.link(rng, stats, p),
                    _ => {
                        let (k, l) = (content_kind(rng), rng.below(3000) as usize);
                        _ = b.file(rng, stats, p, k, l, 0);
                    }
                }
            }
            // sorted before or after the directory: data blob first or tree blob first
            let mut t = top.clone();
            let before = rng.chance(1, 2);
            t.push(if before { b"a-tree".to_vec() } else { b"z-tree".to_vec() });
            if !b.tree_of(rng, stats, t, d.clone()) {
                return None;
            }
            stats.hit(if before { "tree-content-file.before-dir" } else { "tree-content-file.after-dir" });
            if rng.chance(1, 3) {
                // a second copy elsewhere
                if b.tree_of(rng, stats, vec![b"copy".to_vec(), b"t".to_vec()], d) {
                    stats.hit("tree-content-file.second-copy");
                }
            }
        }
        "links" => {
            for _ in 0..(2 + rng.below(6)) {
                let depth = 1 + rng.below(2) as usize;
                let path: Vec<Vec<u8>> = (0..depth).map(|_| rand_name(rng)).collect();
                _ = b.link(rng, stats, path);
            }
            let (p, l) = (vec![rand_name(rng)], rng.below(500) as usize);
            _ = b.file(rng, stats, p, "r", l, 0);
        }
        "mixed" => {
            // everything at once (the real-directory variant mostly uses this)
            let n = 3 + rng.below(10) as usize;
            let mut files: Vec<Vec<Vec<u8>>> = vec![];
            for _ in 0..n {
                let depth = 1 + rng.below(4) as usize;
                let path: Vec<Vec<u8>> = (0..depth).map(|_| if rng.chance(1, 2) { short_name(rng) } else { rand_name(rng) }).collect();
                match rng.below(10) {
                    0 | 1 => _ = b.link(rng, stats, path),
                    2 | 3 => _ = b.dir(rng, stats, path),
                    4 if !files.is_empty() => {
                        let t = rng.pick(&files).clone();
                        if b.hard(path, t) {
                            stats.hit("hardlink.name");
                        }
                    }
                    _ => {
                        let len = if rng.chance(1, 3) { border_len(rng, stats, &cfg, cap) } else { classic_len(rng, &cfg, thorough) };
                        let x = u64::from(rng.chance(1, 10));
                        let k = content_kind(rng);
                        if b.file(rng, stats, path.clone(), k, len, x) {
                            files.push(path);
                        }
                    }
                }
            }
            if rng.chance(1, 3) {
                let maxd = if thorough { 30 } else { 10 };
                let chain: Vec<Vec<u8>> = (0..maxd).map(|_| short_name(rng)).collect();
                _ = b.dir(rng, stats, chain);
            }
        }
        _ => return None,
    }
    if b.ents.is_empty() {
        return None;
    }
    let mut toks = vec!["c01".to_string(), if local { "e2el" } else { "e2e" }.to_string()];
    toks.extend(cfg.tokens());
    if let Some(g) = gf {
        toks.push(format!("gf={g}"));
    }
    toks.push(format!("nr={}", rng.range(20, 40)));
    let ro = *rng.pick(&[0usize, 1, 1, 1, 1, 2, 2, 3]);
    if ro > 0 {
        stats.hit(format!("restore-over-existing.rounds.{ro}"));
        toks.push(format!("ro={ro}"));
    }
    if local {
        let a = rng.chance(2, 3);
        stats.hit(if a { "e2el.as-path" } else { "e2el.real-path" });
        toks.push(format!("as={}", u8::from(a)));
    }
    toks.extend(b.finish(rng, stats));
    toks.push(rng.below(1 << 32).to_string());
    stats.hit(format!("{}.{scn}", if local { "e2el" } else { "e2e" }));
    stats.hit(if local { "e2el" } else { "e2e" });
    Some(toks.join(" "))
}
