//! C01 — backup → restore round trip: component differentials and the end-to-end oracle.
//!
//!   c01 esc <name-hex>                      real escape_filename / unescape_filename (hooks) → `ok <escaped-hex> <unescaped-hex>`
//!   c01 unesc <utf8-string-hex>             real unescape_filename on an arbitrary string → `ok <hex>` | `err`
//!   c01 start <size,size,…|-> <offset>       real ContentStartpoints::compute_start → `ok <i> <off>`
//!   c01 coalesce <off:len,off:len,…>         real BlobLocations::coalesce chain → `ok <off>:<len>:<n> …`
//!   c01 e2e <cfg…> <entries…> <seed>        real init + backup of an in-memory tree, then every way of reading the
//!                                           snapshot back is compared with the source (oracles); observation = per
//!                                           entry `path:kind[:len:chunk-lengths]`, which the model predicts with the
//!                                           chunker model (ties the archiver's chunk lists to C06's theorems)
use std::collections::BTreeMap;
use std::ffi::OsString;
use std::os::unix::ffi::{OsStrExt, OsStringExt};
use std::path::{Path, PathBuf};

use crate::dispatch::c05::open_nc;
use crate::repo::{MemBackend, MemSource, RepoHandle, SRC_ROOT, SrcEntry, SrcKind};
use crate::util::{Rng, Stats, errkind, guarded, hex, unhex};
use rustic_core::repofile::{Chunker, ConfigFile, MasterKey, Metadata, Node, NodeType, SnapshotFile};
use rustic_core::{
    BackupOptions, Credentials, KeyOptions, LocalDestination, LsOptions, Repository, RestoreOptions,
};

const DEFAULT_POLY: u64 = 0x003D_A335_8B4D_C173;

// ---------------------------------------------------------------------------------------------------------
// deterministic content (mirrored bit for bit in Driver/C01.lean)

pub fn content(kind: &str, len: usize, seed: u64) -> Option<Vec<u8>> {
    Some(match kind {
        "z" => vec![0; len],
        "c" => vec![(seed & 255) as u8; len],
        "r" => Rng::new(seed).bytes(len),
        "p" => {
            let period = 1 + (seed % 97) as usize;
            let pat = Rng::new(seed).bytes(period);
            (0..len).map(|i| pat[i % period]).collect()
        }
        _ => return None,
    })
}

#[derive(Clone, Debug)]
struct Cfg {
    version: u32,
    comp: Option<i32>,
    fixed: bool,
    avg: usize,
    min: usize,
    max: usize,
    dp: Option<u32>,
    tp: Option<u32>,
}

impl Cfg {
    fn tokens(&self) -> Vec<String> {
        let o = |x: Option<String>| x.unwrap_or_else(|| "-".into());
        vec![
            format!("v={}", self.version),
            format!("comp={}", o(self.comp.map(|c| c.to_string()))),
            format!("chunker={}", if self.fixed { "fixed" } else { "rabin" }),
            format!("avg={}", self.avg),
            format!("min={}", self.min),
            format!("max={}", self.max),
            format!("dp={}", o(self.dp.map(|c| c.to_string()))),
            format!("tp={}", o(self.tp.map(|c| c.to_string()))),
        ]
    }
    fn parse(t: &[&str]) -> Option<Self> {
        let get = |k: &str| t.iter().find_map(|x| x.strip_prefix(k).and_then(|r| r.strip_prefix('=')));
        let opt = |s: &str| if s == "-" { None } else { Some(s.to_string()) };
        Some(Self {
            version: get("v")?.parse().ok()?,
            comp: match opt(get("comp")?) {
                None => None,
                Some(s) => Some(s.parse().ok()?),
            },
            fixed: match get("chunker")? {
                "fixed" => true,
                "rabin" => false,
                _ => return None,
            },
            avg: get("avg")?.parse().ok()?,
            min: get("min")?.parse().ok()?,
            max: get("max")?.parse().ok()?,
            dp: match opt(get("dp")?) {
                None => None,
                Some(s) => Some(s.parse().ok()?),
            },
            tp: match opt(get("tp")?) {
                None => None,
                Some(s) => Some(s.parse().ok()?),
            },
        })
    }
    fn config_file(&self) -> ConfigFile {
        let mut c = ConfigFile::new(self.version, rustic_core::Id::random().into(), DEFAULT_POLY);
        c.compression = self.comp;
        c.chunker = Some(if self.fixed { Chunker::FixedSize } else { Chunker::Rabin });
        c.chunk_size = Some(self.avg);
        c.chunk_min_size = Some(self.min);
        c.chunk_max_size = Some(self.max);
        c.datapack_size = self.dp;
        c.treepack_size = self.tp;
        c
    }
}

fn init_with(cfg: &Cfg) -> Result<RepoHandle, String> {
    let h = RepoHandle { be: MemBackend::new(), hot: None, key: MasterKey::new() };
    let repo = Repository::new(&RepoHandle::default_opts(), &h.backends()).map_err(|e| errkind(&e))?;
    _ = repo
        .init_with_config(&Credentials::Masterkey(h.key.clone()), &KeyOptions::default(), cfg.config_file())
        .map_err(|e| errkind(&e))?;
    Ok(h)
}

// ---------------------------------------------------------------------------------------------------------

fn entry_tokens(e: &SrcEntry, spec: &BTreeMap<Vec<Vec<u8>>, (String, usize, u64)>) -> String {
    let p = e.path.iter().map(|c| hex(c)).collect::<Vec<_>>().join("/");
    match &e.kind {
        SrcKind::File(_) => {
            let (k, l, s) = &spec[&e.path];
            format!("F:{p}:{k}:{l}:{s}:{:o}:{}", e.mode, e.mtime_s)
        }
        SrcKind::Dir => format!("D:{p}:{:o}:{}", e.mode, e.mtime_s),
        SrcKind::Symlink(t) => format!("L:{p}:{}:{}", hex(t), e.mtime_s),
    }
}

fn parse_entries(t: &[&str]) -> Option<Vec<SrcEntry>> {
    let mut out = Vec::new();
    for tok in t {
        let f: Vec<&str> = tok.split(':').collect();
        let path = |s: &str| -> Option<Vec<Vec<u8>>> { s.split('/').map(unhex).collect() };
        match f.as_slice() {
            ["F", p, k, l, s, mode, mtime] => {
                let c = content(k, l.parse().ok()?, s.parse().ok()?)?;
                let p = path(p)?;
                let refs: Vec<&[u8]> = p.iter().map(Vec::as_slice).collect();
                let mut e = SrcEntry::file(&refs, &c);
                e.mode = u32::from_str_radix(mode, 8).ok()?;
                e.mtime_s = mtime.parse().ok()?;
                e.ctime_s = e.mtime_s;
                out.push(e);
            }
            ["D", p, mode, mtime] => {
                let p = path(p)?;
                let refs: Vec<&[u8]> = p.iter().map(Vec::as_slice).collect();
                let mut e = SrcEntry::dir(&refs);
                e.mode = u32::from_str_radix(mode, 8).ok()?;
                e.mtime_s = mtime.parse().ok()?;
                e.ctime_s = e.mtime_s;
                out.push(e);
            }
            ["L", p, target, mtime] => {
                let p = path(p)?;
                let refs: Vec<&[u8]> = p.iter().map(Vec::as_slice).collect();
                let mut e = SrcEntry::file(&refs, b"");
                e.kind = SrcKind::Symlink(unhex(target)?);
                e.mode = 0o777;
                e.mtime_s = mtime.parse().ok()?;
                e.ctime_s = e.mtime_s;
                out.push(e);
            }
            _ => return None,
        }
    }
    Some(out)
}

fn rel_path(e: &SrcEntry) -> PathBuf {
    let mut p = PathBuf::from("src");
    for c in &e.path {
        p.push(OsString::from_vec(c.clone()));
    }
    p
}

fn walk_dir(root: &Path, rel: &Path, out: &mut BTreeMap<Vec<u8>, (String, Vec<u8>, u32, i64)>) -> std::io::Result<()> {
    use std::os::unix::fs::MetadataExt;
    for ent in std::fs::read_dir(root.join(rel))? {
        let ent = ent?;
        let r = rel.join(ent.file_name());
        let md = std::fs::symlink_metadata(root.join(&r))?;
        let key = r.as_os_str().as_bytes().to_vec();
        if md.file_type().is_symlink() {
            let t = std::fs::read_link(root.join(&r))?;
            _ = out.insert(key, ("l".into(), t.as_os_str().as_bytes().to_vec(), 0, md.mtime()));
        } else if md.is_dir() {
            _ = out.insert(key, ("d".into(), vec![], md.mode() & 0o7777, md.mtime()));
            walk_dir(root, &r, out)?;
        } else {
            _ = out.insert(key, ("f".into(), std::fs::read(root.join(&r))?, md.mode() & 0o7777, md.mtime()));
        }
    }
    Ok(())
}

fn e2e(cfg: &Cfg, entries: Vec<SrcEntry>, seed: u64) -> String {
    let h = match init_with(cfg) {
        Ok(h) => h,
        Err(e) => return format!("init-{e}"),
    };
    let src = MemSource::new(entries);
    let repo = match open_nc(&h).and_then(Repository::to_indexed_ids) {
        Ok(r) => r,
        Err(e) => return errkind(&e),
    };
    let snap = match repo.archive(&BackupOptions::default(), &src, SnapshotFile::default(), &[PathBuf::from(SRC_ROOT)]) {
        Ok(s) => s,
        Err(e) => return format!("backup-{}", errkind(&e)),
    };
    let repo = match open_nc(&h).and_then(Repository::to_indexed) {
        Ok(r) => r,
        Err(e) => return errkind(&e),
    };
    // --- ls: names, types, link targets, permission bits, mtimes
    let mut root = Node::new_node(std::ffi::OsStr::new(""), NodeType::Dir, Metadata::default());
    root.subtree = Some(snap.tree);
    let ls: Vec<(PathBuf, Node)> = match repo.ls(&root, &LsOptions::default()).and_then(|it| it.collect()) {
        Ok(v) => v,
        Err(e) => return format!("oracle-fail:ls-{}", errkind(&e)),
    };
    let by_path: BTreeMap<Vec<u8>, &Node> = ls.iter().map(|(p, n)| (p.as_os_str().as_bytes().to_vec(), n)).collect();
    if by_path.len() != ls.len() {
        return "oracle-fail:ls-duplicate-path".into();
    }
    if by_path.len() != src.entries.len() + 1 {
        return "oracle-fail:ls-entry-count".into();
    }
    let mut rng = Rng::new(seed);
    let mut obs = Vec::new();
    for e in &src.entries {
        let key = rel_path(e).as_os_str().as_bytes().to_vec();
        let Some(n) = by_path.get(&key) else { return "oracle-fail:ls-name-missing".into() };
        if n.meta.mtime.map(|t| t.as_second()) != Some(e.mtime_s) {
            return "oracle-fail:ls-mtime".into();
        }
        let p = e.path.iter().map(|c| hex(c)).collect::<Vec<_>>().join("/");
        match &e.kind {
            SrcKind::Dir => {
                if !n.is_dir() || n.meta.mode != Some(e.mode) {
                    return "oracle-fail:ls-dir".into();
                }
                obs.push(format!("{p}:d"));
            }
            SrcKind::Symlink(t) => {
                if !n.is_symlink() || n.node_type.to_link().as_os_str().as_bytes() != t.as_slice() {
                    return "oracle-fail:ls-symlink-target".into();
                }
                obs.push(format!("{p}:l"));
            }
            SrcKind::File(c) => {
                if !n.is_file() || n.meta.mode != Some(e.mode) || n.meta.size != c.len() as u64 {
                    return "oracle-fail:ls-file-meta".into();
                }
                // --- dump
                let mut buf = Vec::new();
                if let Err(err) = repo.dump(n, &mut buf) {
                    return format!("oracle-fail:dump-{}", errkind(&err));
                }
                if &buf != c {
                    return "oracle-fail:dump-content".into();
                }
                // --- ranged reads at random and boundary ranges
                let of = match repo.open_file(n) {
                    Ok(f) => f,
                    Err(err) => return format!("oracle-fail:open-{}", errkind(&err)),
                };
                let len = c.len();
                for k in 0..6 {
                    let (off, l) = match k {
                        0 => (0, len + 3),
                        1 => (len, 5),
                        2 => (len + 7, 5),
                        3 => (len / 2, 0),
                        _ => (rng.below(len as u64 + 2) as usize, rng.below(len as u64 + 10) as usize),
                    };
                    let got = match repo.read_file_at(&of, off, l) {
                        Ok(b) => b,
                        Err(err) => return format!("oracle-fail:read_at-{}", errkind(&err)),
                    };
                    let want: &[u8] = if off >= len { &[] } else { &c[off..(off + l).min(len)] };
                    if got.as_ref() != want {
                        return format!("oracle-fail:read_at-content:{off}:{l}:{len}");
                    }
                }
                // chunk lengths as recorded in the snapshot (data_length of every content blob)
                let mut lens = Vec::new();
                for id in n.content.iter().flatten() {
                    match repo.get_index_entry(id) {
                        Ok(ie) => lens.push(ie.data_length().to_string()),
                        Err(_) => return "oracle-fail:content-blob-not-indexed".into(),
                    }
                }
                obs.push(format!("{p}:f:{len}:{}", if lens.is_empty() { "-".to_string() } else { lens.join(",") }));
            }
        }
    }
    // --- restore to a temporary directory through LocalDestination, compare with the source
    let tmp = match tempfile::tempdir() {
        Ok(t) => t,
        Err(_) => return "err:tempdir".into(),
    };
    let dest_path = tmp.path().join("r");
    let Some(dp) = dest_path.to_str() else { return "err:tempdir-name".into() };
    let dest = match LocalDestination::new(dp, true, false) {
        Ok(d) => d,
        Err(e) => return format!("oracle-fail:dest-{}", errkind(&e)),
    };
    let ropts = RestoreOptions::default();
    let lsopts = LsOptions::default();
    let stream = || repo.ls(&root, &lsopts);
    let plan = match stream().and_then(|s| repo.prepare_restore(&ropts, s, &dest, false)) {
        Ok(p) => p,
        Err(e) => return format!("oracle-fail:prepare-restore-{}", errkind(&e)),
    };
    if let Err(e) = stream().and_then(|s| repo.restore(plan, &ropts, s, &dest)) {
        return format!("oracle-fail:restore-{}", errkind(&e));
    }
    let mut got = BTreeMap::new();
    if walk_dir(&dest_path, Path::new(""), &mut got).is_err() {
        return "oracle-fail:restore-walk".into();
    }
    if got.len() != src.entries.len() + 1 {
        return "oracle-fail:restore-entry-count".into();
    }
    for e in &src.entries {
        let key = rel_path(e).as_os_str().as_bytes().to_vec();
        let Some((k, data, mode, mtime)) = got.get(&key) else { return "oracle-fail:restore-name-missing".into() };
        match &e.kind {
            SrcKind::Dir => {
                if k != "d" || *mode != e.mode & 0o7777 {
                    return "oracle-fail:restore-dir".into();
                }
            }
            SrcKind::Symlink(t) => {
                if k != "l" || data != t {
                    return "oracle-fail:restore-symlink".into();
                }
            }
            SrcKind::File(c) => {
                if k != "f" || data != c {
                    return "oracle-fail:restore-content".into();
                }
                if *mode != e.mode & 0o7777 {
                    return "oracle-fail:restore-mode".into();
                }
                if *mtime != e.mtime_s {
                    return "oracle-fail:restore-mtime".into();
                }
            }
        }
    }
    // --- and the repository checks clean
    match crate::dispatch::c05::real_check(&h) {
        Ok(e) if e.is_empty() => {}
        Ok(e) => return format!("oracle-fail:check-after-backup:{}", e.into_iter().collect::<Vec<_>>().join(",")),
        Err(e) => return format!("oracle-fail:check-after-backup:{e}"),
    }
    format!("ok {}", obs.join(" "))
}

pub fn exec(toks: &[&str]) -> String {
    let t: Vec<String> = toks.iter().map(|s| (*s).to_string()).collect();
    guarded(std::panic::AssertUnwindSafe(move || {
        let t: Vec<&str> = t.iter().map(String::as_str).collect();
        match t.as_slice() {
            ["esc", name] => {
                let Some(name) = unhex(name) else { return "bad-op".into() };
                let esc = rustic_core::verif::node::escape(&name);
                let back = rustic_core::verif::node::unescape(&esc);
                if back.as_deref() != Some(name.as_slice()) {
                    return "oracle-fail:escape-roundtrip".into();
                }
                format!("ok {} {}", hex(esc.as_bytes()), hex(&name))
            }
            ["unesc", s] => {
                let Some(b) = unhex(s) else { return "bad-op".into() };
                let Ok(s) = String::from_utf8(b) else { return "bad-op".into() };
                match rustic_core::verif::node::unescape(&s) {
                    Some(b) => format!("ok {}", hex(&b)),
                    None => "err".into(),
                }
            }
            ["start", sizes, offset] => {
                let sizes: Option<Vec<usize>> = if *sizes == "-" { Some(vec![]) } else { sizes.split(',').map(|x| x.parse().ok()).collect() };
                let (Some(sizes), Ok(offset)) = (sizes, offset.parse::<usize>()) else { return "bad-op".into() };
                let (i, o) = rustic_core::verif::vfs::compute_start(&sizes, offset);
                format!("ok {i} {o}")
            }
            ["coalesce", locs] => {
                let locs: Option<Vec<(u32, u32)>> = locs
                    .split(',')
                    .map(|x| {
                        let (a, b) = x.split_once(':')?;
                        Some((a.parse().ok()?, b.parse().ok()?))
                    })
                    .collect();
                let Some(locs) = locs else { return "bad-op".into() };
                // itertools' coalesce: the running group absorbs the next location or is emitted
                let mut groups: Vec<(u32, u32, usize)> = Vec::new();
                for l in locs {
                    match groups.last().copied() {
                        Some((o, n, k)) => match rustic_core::verif::blob::coalesce((o, n), l) {
                            Some((o2, n2)) => *groups.last_mut().unwrap() = (o2, n2, k + 1),
                            None => groups.push((l.0, l.1, 1)),
                        },
                        None => groups.push((l.0, l.1, 1)),
                    }
                }
                format!("ok {}", groups.iter().map(|(o, n, k)| format!("{o}:{n}:{k}")).collect::<Vec<_>>().join(" "))
            }
            ["e2e", rest @ ..] => {
                let ncfg = 8;
                if rest.len() < ncfg + 1 {
                    return "bad-op".into();
                }
                let Some(cfg) = Cfg::parse(&rest[..ncfg]) else { return "bad-op".into() };
                let Ok(seed) = rest[rest.len() - 1].parse::<u64>() else { return "bad-op".into() };
                let Some(entries) = parse_entries(&rest[ncfg..rest.len() - 1]) else { return "bad-op".into() };
                e2e(&cfg, entries, seed)
            }
            _ => "bad-op".into(),
        }
    }))
}

// ---------------------------------------------------------------------------------------------------------

const NAMES: [&[u8]; 16] = [
    b"a", b"b", b"B", b"c.txt", b"\"q", b"\\z", b"\xc3\xa9", b"\xff\xfe", b"a b", b"zz", b"A", b"\x01c", b"tab\there", b"nl\nx",
    b"\xe2\x82", b"\xf0\x9f\x98\x80!",
];

fn rand_name(rng: &mut Rng) -> Vec<u8> {
    match rng.below(4) {
        0 => {
            let n = 1 + rng.below(12) as usize;
            let mut v = rng.bytes(n);
            for b in &mut v {
                if *b == b'/' || *b == 0 {
                    *b = b'_';
                }
            }
            if v == b"." || v == b".." {
                v = b"dot".to_vec();
            }
            v
        }
        _ => rng.pick(&NAMES).to_vec(),
    }
}

fn gen_cfg(rng: &mut Rng, stats: &mut Stats) -> Cfg {
    let version = if rng.chance(1, 3) { 1 } else { 2 };
    let comp = if version == 2 { *rng.pick(&[None, Some(0), Some(1), Some(-5), Some(19), Some(3)]) } else { None };
    let fixed = rng.chance(1, 3);
    let (avg, min, max) = if fixed {
        let s = *rng.pick(&[1usize, 100, 4096, 5000]);
        (s, s, s)
    } else if rng.chance(1, 8) {
        stats.hit("cfg.rabin-default");
        (1 << 20, 512 << 10, 8 << 20)
    } else {
        let bits = rng.range(6, 12);
        let avg = 1usize << bits;
        let min = *rng.pick(&[avg, avg / 2, 64.max(avg / 4), 64.min(avg)]);
        let max = *rng.pick(&[avg, 2 * avg, 8 * avg]);
        (avg, min.max(1), max)
    };
    let dp = *rng.pick(&[None, Some(1u32), Some(3000), Some(20000)]);
    let tp = *rng.pick(&[None, Some(1u32), Some(700)]);
    stats.hit(format!("cfg.v{version}"));
    stats.hit(if fixed { "cfg.fixed" } else { "cfg.rabin" });
    stats.hit(format!("cfg.comp.{comp:?}"));
    Cfg { version, comp, fixed, avg, min, max, dp, tp }
}

pub fn generate(thorough: bool, rng: &mut Rng, ops: &mut Vec<String>, stats: &mut Stats) {
    // file names
    for n in NAMES {
        ops.push(format!("c01 esc {}", hex(n)));
    }
    let n_esc = if thorough { 5000 } else { 600 };
    for _ in 0..n_esc {
        let len = rng.below(14) as usize;
        let mut v = rng.bytes(len);
        // bias towards the interesting bytes
        for b in &mut v {
            if rng.chance(1, 3) {
                *b = *rng.pick(&[b'\\', b'"', 7, 8, 9, 10, 11, 12, 13, b'a', b'x', 0xc3, 0xa9, 0xe2, 0x82, 0xac, 0xf0, 0x9f, 0xff, 0x80, b'\'', b'`']);
            }
        }
        stats.hit("esc");
        ops.push(format!("c01 esc {}", hex(&v)));
    }
    let strs: [&str; 16] = [
        "plain", "\\", "a\\", "\\q", "\\x4", "\\x41", "\\xzz", "\\x+f", "\\u00e9", "\\U0001F600", "\\ud800", "\\U00110000", "\\'\\`", "é\\x", "\\u12",
        "\\a\\b\\f\\n\\r\\t\\v\\\\\\\"",
    ];
    for s in strs {
        ops.push(format!("c01 unesc {}", hex(s.as_bytes())));
    }
    for _ in 0..(if thorough { 2000 } else { 300 }) {
        let n = rng.below(10) as usize;
        let alphabet = ['\\', 'x', 'u', 'U', '0', '4', 'f', 'F', 'g', '+', 'a', 'n', '"', 'é', 'z', '1', 'd', '8'];
        let s: String = (0..n).map(|_| *rng.pick(&alphabet)).collect();
        stats.hit("unesc");
        ops.push(format!("c01 unesc {}", hex(s.as_bytes())));
    }
    // start points
    for _ in 0..(if thorough { 3000 } else { 400 }) {
        let k = rng.below(7) as usize;
        let sizes: Vec<usize> = (0..k).map(|_| *rng.pick(&[0usize, 1, 2, 5, 100, 4096])).collect();
        let total: usize = sizes.iter().sum();
        let off = match rng.below(5) {
            0 => 0,
            1 => total,
            2 => total + 1 + rng.below(10) as usize,
            3 => {
                // exactly a boundary
                let j = rng.below(k as u64 + 1) as usize;
                sizes[..j].iter().sum()
            }
            _ => rng.below(total as u64 + 2) as usize,
        };
        stats.hit("start");
        let s = if sizes.is_empty() { "-".to_string() } else { sizes.iter().map(ToString::to_string).collect::<Vec<_>>().join(",") };
        ops.push(format!("c01 start {s} {off}"));
    }
    // coalescing: sorted, non-overlapping locations with holes around the limits
    const HOLE: u32 = 256 * 1024;
    const LIMIT: u32 = 40 * 1024 * 1024;
    for _ in 0..(if thorough { 3000 } else { 400 }) {
        let k = 1 + rng.below(7) as usize;
        let mut off: u32 = rng.below(1000) as u32;
        let mut locs = Vec::new();
        for _ in 0..k {
            let len = *rng.pick(&[1u32, 32, 4000, 1 << 20, LIMIT - 100, 10 << 20]);
            locs.push(format!("{off}:{len}"));
            let hole = *rng.pick(&[0u32, 0, 1, HOLE - 1, HOLE, HOLE + 1, 5]);
            off = off.saturating_add(len).saturating_add(hole).min(u32::MAX / 4);
        }
        stats.hit("coalesce");
        ops.push(format!("c01 coalesce {}", locs.join(",")));
    }
    // end to end
    let n_e2e = if thorough { 1500 } else { 150 };
    for i in 0..n_e2e {
        let cfg = gen_cfg(rng, stats);
        let n = 1 + rng.below(6) as usize;
        let mut spec: BTreeMap<Vec<Vec<u8>>, (String, usize, u64)> = BTreeMap::new();
        let mut es: Vec<SrcEntry> = Vec::new();
        let mut used: Vec<Vec<Vec<u8>>> = Vec::new();
        let big = cfg.avg >= (1 << 20);
        for _ in 0..n {
            let depth = 1 + rng.below(3) as usize;
            let path: Vec<Vec<u8>> = (0..depth).map(|_| rand_name(rng)).collect();
            if used.iter().any(|u| u.starts_with(&path) || path.starts_with(u)) {
                continue;
            }
            used.push(path.clone());
            let refs: Vec<&[u8]> = path.iter().map(Vec::as_slice).collect();
            let mtime = 1_500_000_000 + rng.below(100_000_000) as i64;
            match rng.below(8) {
                0 => {
                    let mut e = SrcEntry::file(&refs, b"");
                    let t = rand_name(rng);
                    e.kind = SrcKind::Symlink(t);
                    e.mode = 0o777;
                    e.mtime_s = mtime;
                    es.push(e);
                }
                1 => {
                    let mut e = SrcEntry::dir(&refs);
                    e.mode = *rng.pick(&[0o755u32, 0o700, 0o775]);
                    e.mtime_s = mtime;
                    es.push(e);
                }
                _ => {
                    let kind = *rng.pick(&["z", "c", "r", "r", "p"]);
                    // sizes from 0 to several chunk / pack sizes
                    let unit = if cfg.fixed { cfg.avg } else { cfg.max };
                    let len = if big {
                        *rng.pick(&[0usize, 1, 600_000, 1_200_000])
                    } else {
                        match rng.below(7) {
                            0 => 0,
                            1 => 1,
                            2 => cfg.min.saturating_sub(1),
                            3 => unit,
                            4 => unit + 1,
                            5 => 3 * unit + rng.below(unit as u64 + 1) as usize,
                            _ => rng.below(6 * unit as u64 + 2) as usize,
                        }
                        .min(if thorough { 200_000 } else { 60_000 })
                    };
                    let seed = rng.below(1 << 40);
                    let Some(c) = content(kind, len, seed) else { continue };
                    let mut e = SrcEntry::file(&refs, &c);
                    e.mode = *rng.pick(&[0o644u32, 0o600, 0o755, 0o444]);
                    e.mtime_s = mtime;
                    stats.hit(format!("file.{kind}.{}", Stats::bucket(len)));
                    _ = spec.insert(path, (kind.to_string(), len, seed));
                    es.push(e);
                }
            }
        }
        if es.is_empty() {
            continue;
        }
        // synthesised parents: give them explicit entries so that the op line is the whole source
        let src = MemSource::new(es);
        let mut toks = vec!["c01".to_string(), "e2e".to_string()];
        toks.extend(cfg.tokens());
        for e in &src.entries {
            toks.push(entry_tokens(e, &spec));
        }
        toks.push(rng.below(1 << 32).to_string());
        stats.hit("e2e");
        let _ = i;
        ops.push(toks.join(" "));
    }
}
