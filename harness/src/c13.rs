//! C13 — results do not depend on scheduling, latency or pack boundaries; termination; no unindexed pack.
//! * `c13 stream <seed> <forest> <roots>`: the real `TreeStreamerOnce` (hook `verif::tree::stream_once`) over a
//!   stored forest, with seeded delays at every backend read (the four loader threads answer in varying
//!   order) vs. the Lean model (`Rustic.Streamer`, any delivery order): set of yielded trees; oracles: no tree
//!   twice, termination (watchdog).
//! * `c13 run <src> <run,run,…>`: the same backup repeated on fresh repositories with seeded delays at every
//!   backend call and different pack sizes (down to one blob per pack); oracles: identical tree id and
//!   referenced blob set in all runs, termination (watchdog), every pack in storage is listed by the index
//!   and vice versa, `check --read-data` clean, snapshot reads back as the source.
//! * `c13 hist <src A> <src B> <run,run,…>`: per run: backup A, backup B (parent), forget A's snapshot, prune
//!   (repacking with the run's pack sizes) under delays; oracles as above for the surviving snapshot.
//! * rayon pool: the `stream` seed and every run token carry an optional pool field (`seed[.pool]`,
//!   `seed.dpack.tpack[.pool]`): missing/`0` = this process's default pool; `<n>` = the run's commands and oracles execute
//!   inside `ThreadPoolBuilder::num_threads(n)…install(..)` (caller = a worker of the pool); `g<n>` = they execute in a child
//!   `vh exec` with `RAYON_NUM_THREADS=n` (global pool of n, caller outside it; op `c13 solo …` is the child side).
//! * `c13 rest <src> <dst> <verify> <run,run,…>`: the same source backed up into repositories differing only in the pack-size
//!   setting and RESTORED from each (real `prepare_restore` + `restore` into a temp dir) into an empty directory and over the
//!   partly matching existing tree `dst`; oracles: identical bytes for every setting, equal to the source.
//! * `c13 chk <delay ms>`: `check --read-data` on a repository with a missing tree and slow reads must not
//!   panic (loader threads of an aborted `TreeStreamerOnce` still hold the index).
use std::collections::{BTreeMap, BTreeSet};
use std::ffi::OsString;
use std::path::PathBuf;
use std::sync::Arc;
use std::sync::atomic::{AtomicU64, Ordering};
use std::time::Duration;

use crate::dispatch::c11::{LogSource, SE, fake_id, fixed64_config, new_snap, parse_src};
use crate::repo::{MemBackend, SRC_ROOT};
use crate::util::{Rng, Stats, guarded};
use bytes::Bytes;
use rustic_core::repofile::{BlobType, FileType, IndexFile, MasterKey, Metadata, Node, NodeType, SnapshotFile, Tree};
use rustic_core::{
    BackupOptions, BlobId, BytesList, CheckOptions, ConfigOptions, Credentials, Id, IndexedFull, KeyOptions, OpenStatus, ParentOptions, PruneOptions,
    ReadBackend, Repository, RepositoryBackends, RepositoryOptions, RusticResult, TreeId, WriteBackend,
};

/// `MemBackend` with a seeded sleep before every call (reads and writes).
#[derive(Clone, Debug)]
pub struct DelayBackend {
    pub inner: MemBackend,
    pub seed: u64,
    pub max_us: u64,
    pub calls: Arc<AtomicU64>,
    /// every write of a PACK file sleeps `pack_write_ms ..= 2.5 * pack_write_ms` milliseconds (by seed); 0 = off
    pub pack_write_ms: u64,
    /// slow index-file writes / one late index-file read / failing index removals, see `Adv`
    pub adv: Option<Arc<Adv>>,
}

/// Latency patterns on INDEX files, stated as conditions with a time-out instead of bare sleeps (a loaded host stretches
/// every sleep, a condition keeps the intended overlap):
/// * `idx_write = (t1, t2, k)`: index-file writes are slow and the 2nd is slower than the 1st — the 1st write returns
///   when a 2nd one has begun or after `t1` ms, the 2nd when the 1st is stored and `k` more pack files have been written since
///   or after `t2` ms; later index writes are immediate.  Code that holds the indexer lock while it saves never has two
///   index writes in flight: then both time-outs simply run out.
/// * `late_index = (id, nap)`: that index file is listed last, and its read returns `nap` ms after every other index file of the
///   listing has been read (or after 3 s): it ARRIVES last at `stream_all`'s consumer, also with a single rayon worker.
/// * `fail_index_remove`: removals of index files fail (a prune that loses its connection before it removes the old index).
#[derive(Debug, Default)]
pub struct Adv {
    st: std::sync::Mutex<AdvSt>,
    cv: std::sync::Condvar,
    pub idx_write: Option<(u64, u64, usize)>,
    pub late_index: Option<(Id, u64)>,
    pub fail_index_remove: std::sync::atomic::AtomicBool,
}

#[derive(Debug, Default)]
struct AdvSt {
    iw_started: usize,
    iw_done: usize,
    packs_after: usize,
    others: usize,
    idx_read: BTreeSet<Id>,
}

impl Adv {
    fn before_write(&self, tpe: FileType) {
        let Some((t1, t2, k)) = self.idx_write else { return };
        if tpe != FileType::Index {
            return;
        }
        let mut g = self.st.lock().unwrap();
        let n = g.iw_started;
        g.iw_started += 1;
        self.cv.notify_all();
        match n {
            0 => _ = self.cv.wait_timeout_while(g, Duration::from_millis(t1), |s| s.iw_started < 2).unwrap(),
            1 => _ = self.cv.wait_timeout_while(g, Duration::from_millis(t2), |s| s.iw_done < 1 || s.packs_after < k).unwrap(),
            _ => {}
        }
    }
    fn after_write(&self, tpe: FileType) {
        if self.idx_write.is_none() {
            return;
        }
        let mut g = self.st.lock().unwrap();
        match tpe {
            FileType::Index => g.iw_done += 1,
            FileType::Pack if g.iw_done >= 1 => g.packs_after += 1,
            _ => return,
        }
        self.cv.notify_all();
    }
    fn listed(&self, tpe: FileType, list: &mut Vec<(Id, u32)>) {
        let Some((late, _)) = self.late_index else { return };
        if tpe != FileType::Index {
            return;
        }
        if let Some(i) = list.iter().position(|(id, _)| *id == late) {
            let x = list.remove(i);
            list.push(x);
        }
        let mut g = self.st.lock().unwrap();
        g.idx_read.clear();
        g.others = list.iter().filter(|(id, _)| *id != late).count();
    }
    fn before_read(&self, tpe: FileType, id: &Id) {
        let Some((late, nap)) = self.late_index else { return };
        if tpe != FileType::Index || *id != late {
            return;
        }
        let g = self.st.lock().unwrap();
        let (g, _) = self.cv.wait_timeout_while(g, Duration::from_secs(3), |s| s.idx_read.len() < s.others).unwrap();
        drop(g);
        std::thread::sleep(Duration::from_millis(nap));
    }
    fn after_read(&self, tpe: FileType, id: &Id) {
        let Some((late, _)) = self.late_index else { return };
        if tpe != FileType::Index || *id == late {
            return;
        }
        _ = self.st.lock().unwrap().idx_read.insert(*id);
        self.cv.notify_all();
    }
}

impl DelayBackend {
    pub fn new(seed: u64, max_us: u64) -> Self {
        Self { inner: MemBackend::new(), seed, max_us, calls: Arc::new(AtomicU64::new(0)), pack_write_ms: 0, adv: None }
    }
    /// another handle on the same storage with its own latency pattern
    pub fn with_adv(&self, adv: Adv) -> Self {
        Self { inner: self.inner.clone(), seed: self.seed, max_us: self.max_us, calls: self.calls.clone(), pack_write_ms: self.pack_write_ms, adv: Some(Arc::new(adv)) }
    }
    fn pack_write_nap(&self) {
        if self.pack_write_ms == 0 {
            return;
        }
        let k = self.calls.fetch_add(1, Ordering::Relaxed);
        let mut r = Rng::new(self.seed ^ k.wrapping_mul(0x51_7C_C1_B7));
        let us = self.pack_write_ms * 1000 + r.below(self.pack_write_ms * 1500 + 1);
        std::thread::sleep(Duration::from_micros(us));
    }
    fn nap(&self) {
        if self.max_us == 0 {
            return;
        }
        let k = self.calls.fetch_add(1, Ordering::Relaxed);
        let mut r = Rng::new(self.seed ^ k.wrapping_mul(0x9E37_79B9));
        let us = match r.below(4) {
            0 => 0,
            1 => r.below(self.max_us / 8 + 1),
            _ => r.below(self.max_us + 1),
        };
        if us > 0 {
            std::thread::sleep(Duration::from_micros(us));
        }
    }
}

impl ReadBackend for DelayBackend {
    fn location(&self) -> String {
        "delay".into()
    }
    fn warmup_path(&self, tpe: FileType, id: &Id) -> String {
        self.inner.warmup_path(tpe, id)
    }
    fn list_with_size(&self, tpe: FileType) -> RusticResult<Vec<(Id, u32)>> {
        self.nap();
        let mut l = self.inner.list_with_size(tpe)?;
        if let Some(a) = &self.adv {
            a.listed(tpe, &mut l);
        }
        Ok(l)
    }
    fn read_full(&self, tpe: FileType, id: &Id) -> RusticResult<Bytes> {
        self.nap();
        if let Some(a) = &self.adv {
            a.before_read(tpe, id);
        }
        let r = self.inner.read_full(tpe, id);
        if let Some(a) = &self.adv {
            a.after_read(tpe, id);
        }
        r
    }
    fn read_partial(&self, tpe: FileType, id: &Id, cacheable: bool, offset: u32, length: u32) -> RusticResult<Bytes> {
        self.nap();
        self.inner.read_partial(tpe, id, cacheable, offset, length)
    }
}
impl WriteBackend for DelayBackend {
    fn create(&self) -> RusticResult<()> {
        Ok(())
    }
    fn write_bytes(&self, tpe: FileType, id: &Id, cacheable: bool, buf: BytesList) -> RusticResult<()> {
        self.nap();
        if tpe == FileType::Pack {
            self.pack_write_nap();
        }
        if let Some(a) = &self.adv {
            a.before_write(tpe);
        }
        let r = self.inner.write_bytes(tpe, id, cacheable, buf);
        if let Some(a) = &self.adv {
            a.after_write(tpe);
        }
        r
    }
    fn remove(&self, tpe: FileType, id: &Id, cacheable: bool) -> RusticResult<()> {
        self.nap();
        if tpe == FileType::Index && self.adv.as_ref().is_some_and(|a| a.fail_index_remove.load(Ordering::SeqCst)) {
            return Err(rustic_core::RusticError::new(rustic_core::ErrorKind::Backend, "injected: connection lost before the index file was removed"));
        }
        self.inner.remove(tpe, id, cacheable)
    }
}

#[derive(Clone)]
pub struct DH {
    pub be: DelayBackend,
    pub key: MasterKey,
}

impl DH {
    fn backends(&self) -> RepositoryBackends {
        RepositoryBackends::new(Arc::new(self.be.clone()), None)
    }
    fn opts() -> RepositoryOptions {
        RepositoryOptions::default().no_cache(true)
    }
    pub fn init(be: DelayBackend, cfg: &ConfigOptions) -> RusticResult<Self> {
        let h = Self { be, key: MasterKey::new() };
        let repo = Repository::new(&Self::opts(), &h.backends())?;
        let _ = repo.init(&Credentials::Masterkey(h.key.clone()), &KeyOptions::default(), cfg)?;
        Ok(h)
    }
    pub fn open(&self) -> RusticResult<Repository<OpenStatus>> {
        Repository::new(&Self::opts(), &self.backends())?.open(&Credentials::Masterkey(self.key.clone()))
    }
}

/// `LogSource` whose file reads sleep first (seeded, at most `max_us` µs; off for `max_us = 0`): a delay BETWEEN pipeline stages — the
/// file-archiver workers of the archiver's ordered `parallel_map` finish out of order, the tree archiver must still see source order.
struct SlowSource {
    inner: LogSource,
    seed: u64,
    max_us: u64,
}
struct SlowReader {
    inner: crate::dispatch::c11::LogReader,
    us: u64,
}
impl std::io::Read for SlowReader {
    fn read(&mut self, buf: &mut [u8]) -> std::io::Result<usize> {
        if self.us > 0 {
            std::thread::sleep(Duration::from_micros(self.us));
            self.us = 0;
        }
        self.inner.read(buf)
    }
}
impl SlowSource {
    /// reads of 1 in 3 latency seeds are slow (never the undelayed run 0)
    fn new(entries: Vec<SE>, seed: u64) -> Self {
        Self { inner: LogSource::new(entries), seed, max_us: if seed % 3 == 1 { 2000 } else { 0 } }
    }
}
impl rustic_core::ReadSource for SlowSource {
    type Open = SlowReader;
    type Iter = std::vec::IntoIter<RusticResult<rustic_core::ReadSourceEntry<SlowReader>>>;
    fn size(&self) -> RusticResult<Option<u64>> {
        self.inner.size()
    }
    fn entries(&self) -> Self::Iter {
        let (seed, max_us) = (self.seed, self.max_us);
        self.inner
            .entries()
            .enumerate()
            .map(|(i, e)| {
                e.map(|e| {
                    let mut r = Rng::new(seed ^ (i as u64).wrapping_mul(0xA24B_AED4));
                    let us = if max_us == 0 || r.chance(1, 2) { 0 } else { r.below(max_us + 1) };
                    rustic_core::ReadSourceEntry { path: e.path, node: e.node, open: e.open.map(|inner| SlowReader { inner, us }) }
                })
            })
            .collect::<Vec<_>>()
            .into_iter()
    }
}

/// Watchdog budgets are stated for an idle host and stretched on a loaded one: `1 + ceil(load1 / cores)`, at most 8
/// (a saturated machine once made the 20 s budgets fire on the unchanged tree; a real deadlock is still reported, later).
fn load_factor() -> u64 {
    let load = std::fs::read_to_string("/proc/loadavg")
        .ok()
        .and_then(|s| s.split_whitespace().next().and_then(|x| x.parse::<f64>().ok()))
        .unwrap_or(0.0);
    let cores = std::thread::available_parallelism().map_or(1, std::num::NonZeroUsize::get) as f64;
    (1 + (load / cores).ceil() as u64).min(8)
}

/// Run `f` on its own thread; `None` after `secs` seconds (the thread is left behind).
fn watchdog<T: Send + 'static>(secs: u64, f: impl FnOnce() -> T + Send + 'static) -> Option<T> {
    let secs = secs * load_factor();
    let (tx, rx) = std::sync::mpsc::channel();
    _ = std::thread::spawn(move || {
        let r = std::panic::catch_unwind(std::panic::AssertUnwindSafe(f));
        _ = tx.send(r);
    });
    match rx.recv_timeout(Duration::from_secs(secs)) {
        Ok(Ok(v)) => Some(v),
        Ok(Err(e)) => std::panic::resume_unwind(e),
        Err(_) => None,
    }
}

/// Which rayon pool the real commands of a run use (`par_iter`, `par_sort`, `par_bridge`, `rayon::spawn`).
#[derive(Clone, Copy, Debug, PartialEq, Eq)]
enum Pool {
    /// field missing or `0`: this process's default pool (one worker per CPU), caller outside the pool
    Default,
    /// `<n>`: in-process `ThreadPoolBuilder::num_threads(n)…install(..)` — the caller itself is one of the n workers
    Installed(usize),
    /// `g<n>`: a child `vh exec` with `RAYON_NUM_THREADS=n` — the global pool has n workers, the caller is outside it —
    /// and CPU affinity restricted to n CPUs (so `available_parallelism()` = n: pariter's `parallel_map` stages get n threads)
    Global(usize),
}

fn parse_pool(s: &str) -> Option<Pool> {
    let (g, num) = match s.strip_prefix('g') {
        Some(r) => (true, r),
        None => (false, s),
    };
    if num.is_empty() || !num.bytes().all(|b| b.is_ascii_digit()) {
        return None;
    }
    let n: usize = num.parse().ok().filter(|n| *n <= 64)?;
    match (g, n) {
        (false, 0) => Some(Pool::Default),
        (true, 0) => None,
        (false, n) => Some(Pool::Installed(n)),
        (true, n) => Some(Pool::Global(n)),
    }
}

/// Run `f` inside a dedicated rayon pool of `threads` workers (`0`: no pool switch).
fn in_pool<T: Send>(threads: usize, f: impl FnOnce() -> T + Send) -> T {
    if threads == 0 {
        return f();
    }
    rayon::ThreadPoolBuilder::new().num_threads(threads).build().unwrap().install(f)
}

/// Execute one op line in a child `vh exec` whose global rayon pool has `threads` workers.  `Err("timeout")` = no answer
/// within `secs` seconds (the child is killed); `Err("child-…")` = the child could not be run at all (harness trouble,
/// reported as such — never as a timeout).
fn in_child(threads: usize, secs: u64, line: &str) -> Result<String, String> {
    spawn_vh(Some(threads), secs, line)
}

/// Name of the environment variable that marks a `vh exec` spawned by this module: it executes its op in-process.
const CHILD_ENV: &str = "VH_C13_CHILD";

fn is_child() -> bool {
    std::env::var_os(CHILD_ENV).is_some()
}

/// Number of cases of this implementation run that ended in a timeout (supervisor side).
static TIMEOUTS: std::sync::atomic::AtomicUsize = std::sync::atomic::AtomicUsize::new(0);
/// After this many timeouts the remaining watchdog-guarded cases are not run any more (`not-run:…`): a hang that hits
/// every case must not cost `cases × watchdog` seconds.
const MAX_TIMEOUTS: usize = 3;

/// Run one watchdog-guarded op line in a child process of its own (`vh exec` on the running image, own process group) and
/// kill it — with everything it has spawned — when it has not answered after `budget` seconds: a deadlocked command cannot
/// be stopped from inside its process (the thread watchdogs below only stop waiting), a process can.  The child's own
/// thread watchdogs are shorter than `budget`, so normally the child itself reports `oracle-fail:…timeout` with the run
/// number and exits, which also ends its hung threads.  `counts` = a timeout of this case counts towards `MAX_TIMEOUTS`
/// (witness replays that carry their own watchdog seconds do not).
fn supervised(line: &str, budget: u64, counts: bool) -> String {
    use std::sync::atomic::Ordering::SeqCst;
    if TIMEOUTS.load(SeqCst) >= MAX_TIMEOUTS {
        return format!("not-run:{MAX_TIMEOUTS}-earlier-cases-timed-out");
    }
    let obs = match spawn_vh(None, budget * load_factor(), line) {
        Ok(s) => s,
        Err(e) if e == "timeout" => "oracle-fail:timeout".into(),
        Err(e) => e,
    };
    if counts && obs.starts_with("oracle-fail") && obs.ends_with("timeout") {
        _ = TIMEOUTS.fetch_add(1, SeqCst);
    }
    obs
}

/// `threads = Some(n)`: child with `RAYON_NUM_THREADS=n` pinned to n CPUs; `None`: plain child in its own process group
/// (the supervisor's child: killed as a group).
fn spawn_vh(threads: Option<usize>, secs: u64, line: &str) -> Result<String, String> {
    use std::io::{Read, Write};
    use std::os::unix::process::CommandExt;
    use std::process::{Command, Stdio};
    // the running image itself (survives a rebuild that replaces the file on disk)
    let exe = if std::path::Path::new("/proc/self/exe").exists() {
        PathBuf::from(format!("/proc/{}/exe", std::process::id()))
    } else {
        std::env::current_exe().map_err(|e| format!("child-no-exe:{:?}", e.kind()))?
    };
    // restrict the child to `threads` CPUs as well (when `taskset` exists and that many CPUs are there): the stages
    // sized by `std::thread::available_parallelism()` (pariter's `parallel_map` in the packer pipeline and the archiver)
    // then run with `threads` workers too
    let ncpu = std::thread::available_parallelism().map_or(1, std::num::NonZero::get);
    let cpus = threads.filter(|t| *t <= ncpu).map(|threads| {
        let off = line.len() % ncpu;
        (0..threads).map(|i| ((off + i) % ncpu).to_string()).collect::<Vec<_>>().join(",")
    });
    let spawn = |affinity: Option<&String>| {
        let mut cmd = match affinity {
            Some(list) => {
                let mut c = Command::new("taskset");
                _ = c.arg("-c").arg(list).arg(&exe);
                c
            }
            None => Command::new(&exe),
        };
        _ = cmd.arg("exec").env(CHILD_ENV, "1").stdin(Stdio::piped()).stdout(Stdio::piped()).stderr(Stdio::null());
        match threads {
            Some(n) => _ = cmd.env("RAYON_NUM_THREADS", n.to_string()),
            None => _ = cmd.process_group(0),
        }
        cmd.spawn()
    };
    let mut tries = 0;
    let mut affinity = cpus.as_ref();
    let mut child = loop {
        match spawn(affinity) {
            Ok(c) => break c,
            // no `taskset`: run without the CPU restriction
            Err(e) if affinity.is_some() && e.kind() == std::io::ErrorKind::NotFound => affinity = None,
            // EAGAIN under load: wait and retry
            Err(_) if tries < 20 => {
                tries += 1;
                std::thread::sleep(Duration::from_millis(100));
            }
            Err(e) => return Err(format!("child-spawn-failed:{:?}", e.kind())),
        }
    };
    let kill = |child: &mut std::process::Child| {
        if threads.is_none() {
            // the whole process group: the child and the `g<n>` children it may have spawned
            _ = Command::new("kill").arg("-9").arg(format!("-{}", child.id())).stdout(Stdio::null()).stderr(Stdio::null()).status();
        }
        _ = child.kill();
        _ = child.wait();
    };
    {
        let Some(mut stdin) = child.stdin.take() else {
            kill(&mut child);
            return Err("child-no-stdin".into());
        };
        if let Err(e) = stdin.write_all(line.as_bytes()).and_then(|()| stdin.write_all(b"\n")) {
            kill(&mut child);
            return Err(format!("child-write-failed:{:?}", e.kind()));
        }
    }
    let Some(mut stdout) = child.stdout.take() else {
        kill(&mut child);
        return Err("child-no-stdout".into());
    };
    let reader = std::thread::spawn(move || {
        let mut out = String::new();
        _ = stdout.read_to_string(&mut out);
        out
    });
    let t0 = std::time::Instant::now();
    loop {
        match child.try_wait() {
            Ok(Some(_)) => break,
            Ok(None) if t0.elapsed() < Duration::from_secs(secs) => std::thread::sleep(Duration::from_millis(3)),
            _ => {
                kill(&mut child);
                return Err("timeout".into());
            }
        }
    }
    let out = reader.join().map_err(|_| "child-reader-panicked".to_string())?;
    out.lines().next().map(ToString::to_string).ok_or_else(|| "child-no-output".to_string())
}

/// Watchdog of one command sequence / one oracle pass of ordinary size, seconds (cases of `n` trees / source entries get
/// `WD_SECS + n / 200`).  Ordinary cases need well under a second; the margin is for a loaded host.
const WD_SECS: u64 = 20;

/// `seed[.pool[.watchdog-seconds]]` (`0` watchdog seconds = the default `WD_SECS` + size allowance; an explicit one keeps a
/// witness of a hang cheap to replay)
fn parse_seed_pool(s: &str) -> Option<(u64, Pool, u64)> {
    let f: Vec<&str> = s.split('.').collect();
    match f.as_slice() {
        [a] => Some((a.parse().ok()?, Pool::Default, 0)),
        [a, b] => Some((a.parse().ok()?, parse_pool(b)?, 0)),
        [a, b, w] => Some((a.parse().ok()?, parse_pool(b)?, w.parse().ok().filter(|w| (1..=600).contains(w))?)),
        _ => None,
    }
}

macro_rules! tryk {
    ($e:expr) => {
        match $e {
            Ok(x) => x,
            Err(e) => return crate::util::errkind(&e),
        }
    };
}

// ------------------------------------------------------------------------------------------------
// stream

/// most labels one forest / root list may expand to
const MAX_LABELS: usize = 200_000;

/// `7` or the range `3-9` (both ends included, `lo <= hi`)
fn parse_labels_item(x: &str, out: &mut Vec<u64>) -> Option<()> {
    let num = |y: &str| if !y.is_empty() && y.bytes().all(|b| b.is_ascii_digit()) { y.parse::<u64>().ok() } else { None };
    match x.split_once('-') {
        None => out.push(num(x)?),
        Some((a, b)) => {
            let (a, b) = (num(a)?, num(b)?);
            if a > b || (b - a) as usize >= MAX_LABELS || out.len() + (b - a) as usize >= MAX_LABELS {
                return None;
            }
            out.extend(a..=b);
        }
    }
    Some(())
}

/// label list: items separated by `sep`, every item a label or a range `lo-hi`
fn parse_labels(s: &str, sep: char) -> Option<Vec<u64>> {
    let mut out = vec![];
    for x in s.split(sep) {
        parse_labels_item(x, &mut out)?;
    }
    Some(out)
}

/// `<ids>=<children>;…`: `ids` a label or a range `lo-hi` (every tree of the range has the same sub-tree list),
/// `children` empty or labels / ranges separated by `.`
fn parse_forest(s: &str) -> Option<Vec<(u64, Vec<u64>)>> {
    if s == "-" {
        return Some(vec![]);
    }
    let mut out = vec![];
    for t in s.split(';') {
        let (ids, cs) = t.split_once('=')?;
        let cs = if cs.is_empty() { vec![] } else { parse_labels(cs, '.')? };
        let mut idv = vec![];
        parse_labels_item(ids, &mut idv)?;
        if out.len() + idv.len() > MAX_LABELS || idv.len().saturating_mul(cs.len().max(1)) > 4 * MAX_LABELS {
            return None;
        }
        out.extend(idv.into_iter().map(|i| (i, cs.clone())));
    }
    Some(out)
}

fn parse_roots(s: &str) -> Option<Vec<u64>> {
    if s == "-" { Some(vec![]) } else { parse_labels(s, ',') }
}

const TAG_TREE: u8 = 0x7E;

fn forest_tree(label: u64, children: &[u64]) -> Tree {
    let mut nodes = vec![Node::new_node(&OsString::from(format!("id{label}")), NodeType::File, Metadata::default())];
    for (i, c) in children.iter().enumerate() {
        let mut n = Node::new_node(&OsString::from(format!("n{i}")), NodeType::Dir, Metadata::default());
        n.subtree = Some(TreeId::from(fake_id(*c, TAG_TREE)));
        nodes.push(n);
    }
    Tree { nodes }
}

fn store_forest(h: &DH, forest: &[(u64, Vec<u64>)]) -> RusticResult<()> {
    let repo = h.open()?;
    let mut seen = BTreeSet::new();
    let mut blobs = vec![];
    for (id, cs) in forest {
        if !seen.insert(*id) {
            continue;
        }
        let (chunk, _) = forest_tree(*id, cs).serialize().unwrap();
        blobs.push((BlobType::Tree, chunk, BlobId::from(fake_id(*id, TAG_TREE))));
    }
    _ = rustic_core::verif::packer::pack_blobs(&repo, blobs)?;
    Ok(())
}

/// watchdog seconds of a stream case: the explicit ones, or the default with an allowance for the number of trees
fn stream_wd(explicit: u64, labels: usize) -> u64 {
    if explicit > 0 { explicit } else { WD_SECS + labels as u64 / 200 }
}

fn exec_stream(seed: &str, forest: &str, roots: &str) -> String {
    let (Some((seed, pool, wd_secs)), Some(forest_v), Some(roots_v)) = (parse_seed_pool(seed), parse_forest(forest), parse_roots(roots)) else {
        return "bad-op".into();
    };
    let wd_secs = stream_wd(wd_secs, forest_v.len() + roots_v.len());
    let threads = match pool {
        Pool::Default => 0,
        Pool::Installed(n) => n,
        Pool::Global(n) => {
            return match in_child(n, wd_secs + 5, &format!("c13 stream {seed}.0.{wd_secs} {forest} {roots}")) {
                Ok(s) => s,
                Err(e) if e == "timeout" => "oracle-fail:timeout".into(),
                Err(e) => e,
            };
        }
    };
    let forest = forest_v;
    let roots = roots_v;
    let cfg = ConfigOptions::default().set_treepack_size(bytesize::ByteSize(1)).set_treepack_growfactor(0u32);
    let h = tryk!(DH::init(DelayBackend::new(seed, 0), &cfg));
    tryk!(store_forest(&h, &forest));
    let mut hd = h.clone();
    hd.be.max_us = if seed % 3 == 0 { 0 } else { 3000 };
    let ids: Vec<TreeId> = roots.iter().map(|l| TreeId::from(fake_id(*l, TAG_TREE))).collect();
    let res = watchdog(wd_secs, move || -> Result<Vec<String>, String> {
      in_pool(threads, move || {
        let repo = hd.open().and_then(|r| r.to_indexed_ids()).map_err(|e| crate::util::errkind(&e))?;
        // as the callers of the streamer do: stop at the first error item
        let items = rustic_core::verif::tree::stream_once_until_error(&repo, ids).map_err(|e| crate::util::errkind(&e))?;
        let mut out = vec![];
        for it in items {
            match it {
                Ok((_, tree)) => out.push(tree.nodes.first().map(|n| n.name.clone()).unwrap_or_default()),
                Err(e) => return Err(crate::util::errkind(&e)),
            }
        }
        Ok(out)
      })
    });
    match res {
        None => "oracle-fail:timeout".into(),
        Some(Err(e)) => e,
        Some(Ok(names)) => {
            let mut labels: Vec<u64> = names.iter().filter_map(|n| n.strip_prefix("id").and_then(|x| x.parse().ok())).collect();
            let n = labels.len();
            labels.sort_unstable();
            labels.dedup();
            if labels.len() != n || n != names.len() {
                return "oracle-fail:tree-yielded-twice".into();
            }
            format!("ok {}", if labels.is_empty() { "-".into() } else { labels.iter().map(u64::to_string).collect::<Vec<_>>().join(",") })
        }
    }
}

// ------------------------------------------------------------------------------------------------
// snaps: many snapshots, real `check` and `prune_plan`

/// `c13 snaps <seed[.pool[.watchdog]]> <n>`: a repository with n snapshots whose root trees are pairwise different (stored through
/// the hooks, one tree per pack); the real `check` (trees only) and `prune_plan` must return — both give ALL snapshot roots to
/// `TreeStreamerOnce::new` at once — and `check` must report no error.
fn exec_snaps(seed: &str, n: &str) -> String {
    let (Some((seed, pool, wd_secs)), Some(n)) = (parse_seed_pool(seed), n.parse::<u64>().ok().filter(|n| (1..=20_000).contains(n))) else {
        return "bad-op".into();
    };
    let wd_secs = stream_wd(wd_secs, 2 * n as usize);
    let threads = match pool {
        Pool::Default => 0,
        Pool::Installed(k) => k,
        Pool::Global(k) => {
            return match in_child(k, wd_secs + 5, &format!("c13 snaps {seed}.0.{wd_secs} {n}")) {
                Ok(s) => s,
                Err(e) if e == "timeout" => "oracle-fail:timeout".into(),
                Err(e) => e,
            };
        }
    };
    let cfg = ConfigOptions::default().set_treepack_size(bytesize::ByteSize(1)).set_treepack_growfactor(0u32);
    let h = tryk!(DH::init(DelayBackend::new(seed, 0), &cfg));
    {
        let repo = tryk!(h.open());
        let mut blobs = vec![];
        for i in 1..=n {
            // a root directory holding one empty file whose name differs from snapshot to snapshot
            let mut f = Node::new_node(&OsString::from(format!("id{i}")), NodeType::File, Metadata::default());
            f.content = Some(vec![]);
            let (chunk, _) = Tree { nodes: vec![f] }.serialize().unwrap();
            blobs.push((BlobType::Tree, chunk, BlobId::from(fake_id(i, TAG_TREE))));
        }
        _ = tryk!(rustic_core::verif::packer::pack_blobs(&repo, blobs));
        for i in 1..=n {
            let mut snap = new_snap();
            snap.tree = TreeId::from(fake_id(i, TAG_TREE));
            tryk!(rustic_core::verif::repository::save_file(&repo, &snap));
        }
    }
    let mut hd = h.clone();
    hd.be.max_us = if seed % 3 == 0 { 0 } else { 1000 };
    let res = watchdog(wd_secs, move || -> Result<Vec<String>, String> {
        in_pool(threads, move || {
            let repo = hd.open().map_err(|e| crate::util::errkind(&e))?;
            let res = repo.check(CheckOptions::default()).map_err(|e| crate::util::errkind(&e))?;
            let mut v: Vec<String> = res
                .0
                .iter()
                .filter(|(l, _)| format!("{l:?}") == "Error")
                .map(|(_, e)| format!("{e:?}").split(|c: char| !c.is_alphanumeric()).next().unwrap_or("?").to_string())
                .collect();
            v.sort();
            v.dedup();
            let repo = repo.to_indexed_ids().map_err(|e| crate::util::errkind(&e))?;
            _ = repo.prune_plan(&PruneOptions::default()).map_err(|e| crate::util::errkind(&e))?;
            Ok(v)
        })
    });
    match res {
        None => "oracle-fail:timeout".into(),
        Some(Err(e)) => e,
        Some(Ok(v)) if v.is_empty() => format!("ok snaps={n}"),
        Some(Ok(v)) => format!("oracle-fail:check-errors:{}", v.join("+")),
    }
}

// ------------------------------------------------------------------------------------------------
// run / hist

/// One run: seed of the latencies, data / tree pack size, rayon pool, and `repack = Some(ms)`: every pack write sleeps
/// `ms..=2.5 ms` milliseconds and the prune of a `hist` repacks EVERY pack with `fast_repack` (`repack_all`, no repack limit).
#[derive(Clone, Copy, Debug)]
struct Run {
    seed: u64,
    dsize: u64,
    tsize: u64,
    pool: Pool,
    repack: Option<u64>,
}

impl Run {
    /// the token without its pool (what a `g<n>` child is given)
    fn solo_token(&self) -> String {
        format!("{}.{}.{}.0{}", self.seed, self.dsize, self.tsize, self.repack.map_or(String::new(), |ms| format!(".r{ms}")))
    }
}

/// run token `seed.dpack.tpack[.pool[.r<ms>]]`; pool: missing/`0` default pool, `<n>` installed pool, `g<n>` child with global
/// pool; `r<ms>` (ms ≤ 1000): pack-write latency and repack-all + fast-repack prune, see `Run`
fn parse_runs(s: &str) -> Option<Vec<Run>> {
    s.split(',')
        .map(|t| {
            let f: Vec<&str> = t.split('.').collect();
            let num = |y: &str| if !y.is_empty() && y.bytes().all(|b| b.is_ascii_digit()) { y.parse::<u64>().ok() } else { None };
            let (pool, repack) = match f.len() {
                3 => (Pool::Default, None),
                4 => (parse_pool(f[3])?, None),
                5 => (parse_pool(f[3])?, Some(num(f[4].strip_prefix('r')?).filter(|ms| *ms <= 1000)?)),
                _ => return None,
            };
            Some(Run { seed: num(f[0])?, dsize: num(f[1])?, tsize: num(f[2])?, pool, repack })
        })
        .collect()
}

fn run_cfg(dsize: u64, tsize: u64) -> ConfigOptions {
    fixed64_config()
        .set_datapack_size(bytesize::ByteSize(dsize))
        .set_treepack_size(bytesize::ByteSize(tsize))
        .set_datapack_growfactor(0u32)
        .set_treepack_growfactor(0u32)
}

/// (packs in storage, packs listed by the index files, keys listed)
fn storage_vs_index(h: &DH) -> RusticResult<(BTreeSet<Id>, BTreeSet<Id>, BTreeMap<(u8, Id), usize>)> {
    let repo = h.open()?;
    let mut packs = BTreeSet::new();
    let mut keys = BTreeMap::new();
    for f in repo.stream_files::<IndexFile>()? {
        let (_, f) = f?;
        for p in &f.packs {
            _ = packs.insert(*p.id);
            for b in &p.blobs {
                *keys.entry((u8::from(b.tpe == BlobType::Tree), *b.id)).or_insert(0) += 1;
            }
        }
        for p in &f.packs_to_delete {
            _ = packs.insert(*p.id);
        }
    }
    let stored: BTreeSet<Id> = h.be.inner.ids(FileType::Pack).into_iter().collect();
    Ok((stored, packs, keys))
}

/// every (type, id) a snapshot references
fn referenced<S: IndexedFull>(repo: &Repository<S>, root: TreeId) -> RusticResult<BTreeSet<(u8, Id)>> {
    let mut out = BTreeSet::new();
    let mut todo = vec![root];
    while let Some(t) = todo.pop() {
        if !out.insert((1u8, *t)) {
            continue;
        }
        for n in repo.get_tree(&t)?.nodes {
            if let Some(c) = &n.content {
                for d in c {
                    _ = out.insert((0u8, **d));
                }
            }
            if let Some(st) = n.subtree {
                todo.push(st);
            }
        }
    }
    Ok(out)
}

fn check_kinds(h: &DH) -> Option<Vec<String>> {
    let repo = h.open().ok()?;
    let res = repo.check(CheckOptions::default().read_data(true)).ok()?;
    let mut v: Vec<String> = res
        .0
        .iter()
        .filter(|(l, _)| format!("{l:?}") == "Error")
        .map(|(_, e)| format!("{e:?}").split(|c: char| !c.is_alphanumeric()).next().unwrap_or("?").to_string())
        .collect();
    v.sort();
    Some(v)
}

fn reads_back(h: &DH, snap: &SnapshotFile, src: &[SE]) -> Result<bool, String> {
    use crate::dispatch::c11::{K, ROOT_TIME};
    let repo = h.open().and_then(|r| r.to_indexed()).map_err(|e| crate::util::errkind(&e))?;
    let got = crate::repo::read_back(&repo, snap).map_err(|e| crate::util::errkind(&e))?;
    let mut exp: Vec<(Vec<u8>, String, Option<Vec<u8>>, Option<i64>)> = vec![(b"src".to_vec(), "dir".into(), None, Some(ROOT_TIME))];
    for e in src {
        let mut p = b"src".to_vec();
        for c in &e.path {
            p.push(b'/');
            p.extend_from_slice(c);
        }
        let (k, c) = match &e.kind {
            K::File => ("file", Some(e.bytes())),
            K::Dir => ("dir", None),
            K::Link(_) => ("symlink", None),
            K::Other(_) => ("other", None),
        };
        exp.push((p, k.into(), c, Some(e.mtime)));
    }
    let mut gotv: Vec<_> = got.into_iter().map(|r| (r.path, r.kind, r.content, r.mtime_s)).collect();
    gotv.sort();
    exp.sort();
    Ok(gotv == exp)
}

/// the per-run oracles on a finished repository state
fn state_oracles(h: &DH, snap: &SnapshotFile, src: &[SE], k: usize) -> Result<BTreeSet<(u8, Id)>, String> {
    let (stored, indexed, _) = storage_vs_index(h).map_err(|e| crate::util::errkind(&e))?;
    if stored != indexed {
        return Err(format!("oracle-fail:run{k}:packs-in-storage-vs-index:{}:{}", stored.len(), indexed.len()));
    }
    match check_kinds(h) {
        Some(v) if v.is_empty() => {}
        Some(v) => return Err(format!("oracle-fail:run{k}:check-errors:{}", v.join("+"))),
        None => return Err(format!("oracle-fail:run{k}:check-failed")),
    }
    match reads_back(h, snap, src) {
        Ok(true) => {}
        Ok(false) => return Err(format!("oracle-fail:run{k}:snapshot-differs-from-source")),
        Err(e) => return Err(format!("oracle-fail:run{k}:snapshot-unreadable:{e}")),
    }
    let repo = h.open().and_then(|r| r.to_indexed()).map_err(|e| crate::util::errkind(&e))?;
    referenced(&repo, snap.tree).map_err(|e| crate::util::errkind(&e))
}

type RunResult = Result<(Id, BTreeSet<(u8, Id)>), String>;

/// watchdog seconds for the commands of one run (and again for its oracles): `WD_SECS` + an allowance for large sources
/// and for the injected pack-write latency (≤ 2.5·ms per pack write, packs ≤ chunks + directories)
fn run_wd(sa: &[SE], sb: Option<&[SE]>, repack: Option<u64>) -> u64 {
    let size = |s: &[SE]| s.iter().map(|e| 1 + e.content.len() as u64).sum::<u64>();
    let n = size(sa) + sb.map_or(0, size);
    WD_SECS + n / 200 + repack.map_or(0, |ms| n * ms * 5 / 2 / 1000)
}

/// One run in this process: the commands and then the oracles, both inside a pool of `threads` workers (0: as is),
/// each under a watchdog.  `Ok((tree id, referenced (type, id) set))` or the observation to report.
fn one_run(sa: &[SE], sb: Option<&[SE]>, run: Run, threads: usize, k: usize, copy: bool) -> RunResult {
    let (sa2, sb2) = (sa.to_vec(), sb.map(<[SE]>::to_vec));
    let Run { seed, dsize, tsize, repack, .. } = run;
    let wd = run_wd(sa, sb, repack);
    let res = watchdog(wd, move || -> Result<(DH, SnapshotFile), String> {
        in_pool(threads, move || {
            let mut be = DelayBackend::new(seed, if seed == 0 { 0 } else { 1500 });
            be.pack_write_ms = repack.unwrap_or(0);
            let h = DH::init(be, &run_cfg(dsize, tsize)).map_err(|e| crate::util::errkind(&e))?;
            let force = BackupOptions::default().parent_opts(ParentOptions::default().force(true));
            let repo = h.open().and_then(|r| r.to_indexed_ids()).map_err(|e| crate::util::errkind(&e))?;
            let snap_a = repo
                .archive(&force, &SlowSource::new(sa2.clone(), seed), new_snap(), &[PathBuf::from(SRC_ROOT)])
                .map_err(|e| crate::util::errkind(&e))?;
            drop(repo);
            if copy {
                // `copy` of the snapshot into a fresh repository with the pack sizes swapped (tree packs of the data pack size and
                // vice versa) and its own latencies; the oracles then look at the TARGET
                let mut be2 = DelayBackend::new(seed ^ 0xC0, if seed == 0 { 0 } else { 1500 });
                be2.pack_write_ms = repack.unwrap_or(0);
                let h2 = DH::init(be2, &run_cfg(tsize, dsize)).map_err(|e| crate::util::errkind(&e))?;
                let src = h.open().and_then(|r| r.to_indexed()).map_err(|e| crate::util::errkind(&e))?;
                let dst = h2.open().and_then(|r| r.to_indexed_ids()).map_err(|e| crate::util::errkind(&e))?;
                src.copy(&dst, [&snap_a]).map_err(|e| crate::util::errkind(&e))?;
                drop(dst);
                let snaps = h2.open().and_then(|r| r.get_all_snapshots()).map_err(|e| crate::util::errkind(&e))?;
                return match snaps.as_slice() {
                    [s] => Ok((h2, s.clone())),
                    _ => Err(format!("oracle-fail:run{k}:copy-left-{}-snapshots", snaps.len())),
                };
            }
            let Some(sb2) = sb2 else {
                return Ok((h, snap_a));
            };
            std::thread::sleep(Duration::from_millis(2));
            let repo = h.open().and_then(|r| r.to_indexed_ids()).map_err(|e| crate::util::errkind(&e))?;
            let snap_b = repo
                .archive(&BackupOptions::default(), &SlowSource::new(sb2, seed ^ 1), new_snap(), &[PathBuf::from(SRC_ROOT)])
                .map_err(|e| crate::util::errkind(&e))?;
            drop(repo);
            // forget A, prune with repacking allowed and no grace periods
            let repo = h.open().map_err(|e| crate::util::errkind(&e))?;
            repo.delete_snapshots(&[snap_a.id]).map_err(|e| crate::util::errkind(&e))?;
            let popts = PruneOptions::default()
                .keep_pack(rustic_core::jiff::Span::new())
                .keep_delete(rustic_core::jiff::Span::new())
                .instant_delete(true);
            // `r<ms>`: every pack is repacked, blobs are copied as they are (`BlobCopier::copy_fast` -> `Packer::add_raw`)
            let popts = if repack.is_some() {
                popts.repack_all(true).fast_repack(true).max_repack(rustic_core::LimitOption::Unlimited)
            } else {
                popts
            };
            let repo = repo.to_indexed_ids().map_err(|e| crate::util::errkind(&e))?;
            let plan = repo.prune_plan(&popts).map_err(|e| crate::util::errkind(&e))?;
            repo.prune(&popts, plan).map_err(|e| crate::util::errkind(&e))?;
            Ok((h, snap_b))
        })
    });
    let (h, snap) = match res {
        None => return Err(format!("oracle-fail:run{k}:timeout")),
        Some(Err(e)) if e.starts_with("oracle-fail") => return Err(e),
        Some(Err(e)) => return Err(format!("run{k}:{e}")),
        Some(Ok(x)) => x,
    };
    // the oracles (`check --read-data`, reading the snapshot back) are real commands too: same pool, own watchdog
    let src_final = sb.unwrap_or(sa).to_vec();
    let mut hq = h.clone();
    hq.be.max_us = 0;
    hq.be.pack_write_ms = 0;
    let snap2 = snap.clone();
    match watchdog(wd, move || in_pool(threads, move || state_oracles(&hq, &snap2, &src_final, k))) {
        None => Err(format!("oracle-fail:run{k}:oracle-timeout")),
        Some(Ok(r)) => Ok((*snap.tree, r)),
        Some(Err(e)) => Err(e),
    }
}

fn enc_result(r: &RunResult) -> String {
    match r {
        Err(e) => e.clone(),
        Ok((t, refs)) => format!(
            "solo {} {}",
            t.to_hex().as_str(),
            refs.iter().map(|(ty, id)| format!("{ty}:{}", id.to_hex().as_str())).collect::<Vec<_>>().join(",")
        ),
    }
}

fn dec_result(s: &str) -> RunResult {
    let bad = || Err(format!("child:{s}"));
    let f: Vec<&str> = s.split(' ').collect();
    if f.len() != 3 || f[0] != "solo" {
        // the child's own observation (`oracle-fail:run<k>:…`, `run<k>:err:…`, `panic:…`)
        return Err(s.to_string());
    }
    let Ok(t) = f[1].parse::<Id>() else { return bad() };
    let mut refs = BTreeSet::new();
    for x in f[2].split(',') {
        let Some((ty, id)) = x.split_once(':') else { return bad() };
        let (Ok(ty), Ok(id)) = (ty.parse::<u8>(), id.parse::<Id>()) else { return bad() };
        _ = refs.insert((ty, id));
    }
    Ok((t, refs))
}

/// `c13 solo <k> <src A> <src B|~> <seed.dpack.tpack>`: one run in this process's default pool (the child side of `g<n>`)
fn exec_solo(k: &str, a: &str, b: &str, run: &str) -> String {
    let (Ok(k), Some(sa), Some(runs)) = (k.parse::<usize>(), parse_src(a), parse_runs(run)) else {
        return "bad-op".into();
    };
    let sb = if b == "~" || b == "=" { None } else { parse_src(b) };
    if (b != "~" && b != "=" && sb.is_none()) || runs.len() != 1 || runs[0].pool != Pool::Default {
        return "bad-op".into();
    }
    enc_result(&one_run(&sa, sb.as_deref(), runs[0], 0, k, b == "="))
}

fn exec_run(src: &str, runs: &str, src_b: Option<&str>) -> String {
    exec_run_mode(src, runs, src_b, false)
}

/// `copy`: every run is backup + `copy` into a second repository (no second source)
fn exec_run_mode(src: &str, runs: &str, src_b: Option<&str>, copy: bool) -> String {
    let (Some(sa), Some(runs)) = (parse_src(src), parse_runs(runs)) else {
        return "bad-op".into();
    };
    let sb = match src_b {
        None => None,
        Some(b) => match parse_src(b) {
            Some(v) => Some(v),
            None => return "bad-op".into(),
        },
    };
    let mut first: Option<(Id, BTreeSet<(u8, Id)>)> = None;
    for (k, run) in runs.iter().enumerate() {
        let res = match run.pool {
            Pool::Default => one_run(&sa, sb.as_deref(), *run, 0, k, copy),
            Pool::Installed(n) => one_run(&sa, sb.as_deref(), *run, n, k, copy),
            Pool::Global(n) => {
                let line = format!("c13 solo {k} {src} {} {}", src_b.unwrap_or(if copy { "=" } else { "~" }), run.solo_token());
                // the child's own watchdogs (commands, then oracles) report first; this is the backstop
                match in_child(n, 2 * run_wd(&sa, sb.as_deref(), run.repack) + 10, &line) {
                    Ok(s) => dec_result(&s),
                    Err(e) if e == "timeout" => Err(format!("oracle-fail:run{k}:timeout")),
                    Err(e) => Err(format!("run{k}:{e}")),
                }
            }
        };
        let (tree, refs) = match res {
            Ok(x) => x,
            Err(e) => return e,
        };
        match &first {
            None => first = Some((tree, refs)),
            Some((t0, r0)) => {
                if *t0 != tree {
                    return format!("oracle-fail:run{k}:tree-id-differs");
                }
                if *r0 != refs {
                    return format!("oracle-fail:run{k}:referenced-blobs-differ");
                }
            }
        }
    }
    let (_, refs) = first.unwrap();
    format!(
        "ok runs={} trees={} data={}",
        runs.len(),
        refs.iter().filter(|(t, _)| *t == 1).count(),
        refs.iter().filter(|(t, _)| *t == 0).count()
    )
}

// ------------------------------------------------------------------------------------------------
// chk: aborted tree stream + slow reads

fn exec_chk(delay_ms: &str) -> String {
    let Ok(delay_ms) = delay_ms.parse::<u64>() else {
        return "bad-op".into();
    };
    // a root with three sub-trees; the label 99 is referenced but not stored
    let forest: Vec<(u64, Vec<u64>)> = vec![(1, vec![2, 99, 3, 4]), (2, vec![5]), (3, vec![]), (4, vec![6]), (5, vec![]), (6, vec![])];
    let cfg = ConfigOptions::default().set_treepack_size(bytesize::ByteSize(1)).set_treepack_growfactor(0u32);
    let h = tryk!(DH::init(DelayBackend::new(7, 0), &cfg));
    tryk!(store_forest(&h, &forest));
    // a snapshot pointing at the root
    {
        let repo = tryk!(h.open());
        let mut snap = new_snap();
        snap.tree = TreeId::from(fake_id(1, TAG_TREE));
        tryk!(rustic_core::verif::repository::save_file(&repo, &snap));
    }
    let mut hd = h.clone();
    // constant delay: every read sleeps delay_ms
    hd.be = DelayBackend { inner: h.be.inner.clone(), seed: 0, max_us: 0, calls: h.be.calls.clone(), pack_write_ms: 0, adv: None };
    let slow = SlowReads { inner: hd.be.clone(), ms: delay_ms };
    let key = h.key.clone();
    let res = watchdog(WD_SECS, move || -> Result<usize, String> {
        let backends = RepositoryBackends::new(Arc::new(slow), None);
        let repo = Repository::new(&DH::opts(), &backends)
            .and_then(|r| r.open(&Credentials::Masterkey(key)))
            .map_err(|e| crate::util::errkind(&e))?;
        let res = repo.check(CheckOptions::default().read_data(true)).map_err(|e| crate::util::errkind(&e))?;
        Ok(res.0.iter().filter(|(l, _)| format!("{l:?}") == "Error").count())
    });
    match res {
        None => "oracle-fail:timeout".into(),
        Some(Err(e)) => e,
        Some(Ok(0)) => "oracle-fail:missing-tree-not-reported".into(),
        Some(Ok(_)) => "ok errors>0".into(),
    }
}

/// pack reads sleep a fixed time (tree loads in flight outlive an early end of the stream)
#[derive(Clone, Debug)]
struct SlowReads {
    inner: DelayBackend,
    ms: u64,
}
impl ReadBackend for SlowReads {
    fn location(&self) -> String {
        "slow".into()
    }
    fn warmup_path(&self, tpe: FileType, id: &Id) -> String {
        self.inner.warmup_path(tpe, id)
    }
    fn list_with_size(&self, tpe: FileType) -> RusticResult<Vec<(Id, u32)>> {
        self.inner.list_with_size(tpe)
    }
    fn read_full(&self, tpe: FileType, id: &Id) -> RusticResult<Bytes> {
        if tpe == FileType::Pack {
            std::thread::sleep(Duration::from_millis(self.ms));
        }
        self.inner.read_full(tpe, id)
    }
    fn read_partial(&self, tpe: FileType, id: &Id, cacheable: bool, offset: u32, length: u32) -> RusticResult<Bytes> {
        if tpe == FileType::Pack {
            std::thread::sleep(Duration::from_millis(self.ms));
        }
        self.inner.read_partial(tpe, id, cacheable, offset, length)
    }
}
impl WriteBackend for SlowReads {
    fn create(&self) -> RusticResult<()> {
        Ok(())
    }
    fn write_bytes(&self, tpe: FileType, id: &Id, cacheable: bool, buf: BytesList) -> RusticResult<()> {
        self.inner.write_bytes(tpe, id, cacheable, buf)
    }
    fn remove(&self, tpe: FileType, id: &Id, cacheable: bool) -> RusticResult<()> {
        self.inner.remove(tpe, id, cacheable)
    }
}


// ------------------------------------------------------------------------------------------------
// big: an index file becomes due in the middle of the run while both packers flush packs; index writes are slow

/// watchdog seconds of a `big` case of n directories (each of: commands, oracles); an idle host needs 10-20 s for 25,000
fn big_wd(n: u64) -> u64 {
    WD_SECS + n / 60
}

/// `n` directories `w/d<i>` with one small file each, every file with content of its own: n data blobs, n + 3 trees
fn big_src(n: u64) -> Vec<SE> {
    use crate::dispatch::c11::K;
    let mut v = Vec::with_capacity(2 * n as usize + 1);
    v.push(SE { path: vec![b"w".to_vec()], kind: K::Dir, mtime: 100, ctime: 200, inode: 7, content: vec![] });
    for i in 0..n {
        let d = format!("d{i:06}").into_bytes();
        v.push(SE { path: vec![b"w".to_vec(), d.clone()], kind: K::Dir, mtime: 100, ctime: 200, inode: 1_000_000 + i, content: vec![] });
        v.push(SE { path: vec![b"w".to_vec(), d, b"f".to_vec()], kind: K::File, mtime: 100, ctime: 200, inode: 2_000_000 + i, content: vec![1000 + i] });
    }
    v
}

/// `c13 big <seed[.pool]> <backup|prune|copy> <dirs> <t1 ms> <t2 ms> <k>`: one blob per pack, more than `MAX_COUNT` blobs in ONE
/// command, so that an index file is saved by `Indexer::add` in the middle of the run while the data packer's and the tree
/// packer's file writers both keep adding packs; index writes follow `Adv::idx_write = (t1, t2, k)`.
/// `backup`: the backup itself; `prune`: an undisturbed backup, then a prune that repacks every pack (`repack_all`, `fast_repack`);
/// `copy`: an undisturbed backup, then `copy` into a second repository.  Oracles on the repository the command wrote: every pack
/// file in storage is listed by the stored index files and vice versa, `check` clean (trees; no `--read-data`), the snapshot
/// references n + 3 trees and n data blobs.
fn exec_big(seed: &str, cmd: &str, dirs: &str, t1: &str, t2: &str, k: &str) -> String {
    let num = |y: &str, hi: u64| if !y.is_empty() && y.bytes().all(|b| b.is_ascii_digit()) { y.parse::<u64>().ok().filter(|v| *v <= hi) } else { None };
    let (Some((seed, pool, wd)), Some(n), Some(t1), Some(t2), Some(k)) =
        (parse_seed_pool(seed), num(dirs, 100_000).filter(|n| *n >= 1), num(t1, 10_000), num(t2, 10_000), num(k, 100))
    else {
        return "bad-op".into();
    };
    if !matches!(cmd, "backup" | "prune" | "copy") || wd != 0 {
        return "bad-op".into();
    }
    let threads = match pool {
        Pool::Default => 0,
        Pool::Installed(n) => n,
        Pool::Global(g) => {
            return match in_child(g, 2 * big_wd(n) + 10, &format!("c13 big {seed}.0 {cmd} {n} {t1} {t2} {k}")) {
                Ok(s) => s,
                Err(e) if e == "timeout" => "oracle-fail:timeout".into(),
                Err(e) => e,
            };
        }
    };
    let cmd = cmd.to_string();
    let res = watchdog(big_wd(n), move || -> Result<(DH, SnapshotFile), String> {
        in_pool(threads, move || {
            let ek = |e: Box<rustic_core::RusticError>| crate::util::errkind(&e);
            let adv = || Adv { idx_write: Some((t1, t2, k as usize)), ..Adv::default() };
            let src = big_src(n);
            let h = DH::init(DelayBackend::new(seed, 0), &run_cfg(1, 1)).map_err(ek)?;
            let hb = if cmd == "backup" { DH { be: h.be.with_adv(adv()), key: h.key.clone() } } else { h.clone() };
            let force = BackupOptions::default().parent_opts(ParentOptions::default().force(true));
            let repo = hb.open().and_then(|r| r.to_indexed_ids()).map_err(ek)?;
            let snap = repo.archive(&force, &LogSource::new(src), new_snap(), &[PathBuf::from(SRC_ROOT)]).map_err(ek)?;
            drop(repo);
            match cmd.as_str() {
                "prune" => {
                    let hp = DH { be: h.be.with_adv(adv()), key: h.key.clone() };
                    let popts = PruneOptions::default()
                        .keep_pack(rustic_core::jiff::Span::new())
                        .keep_delete(rustic_core::jiff::Span::new())
                        .instant_delete(true)
                        .repack_all(true)
                        .fast_repack(true)
                        .max_repack(rustic_core::LimitOption::Unlimited);
                    let repo = hp.open().and_then(|r| r.to_indexed_ids()).map_err(ek)?;
                    let plan = repo.prune_plan(&popts).map_err(ek)?;
                    repo.prune(&popts, plan).map_err(ek)?;
                    Ok((h, snap))
                }
                "copy" => {
                    let h2 = DH::init(DelayBackend::new(seed ^ 0xC0, 0), &run_cfg(1, 1)).map_err(ek)?;
                    let hc = DH { be: h2.be.with_adv(adv()), key: h2.key.clone() };
                    let srcr = h.open().and_then(|r| r.to_indexed()).map_err(ek)?;
                    let dst = hc.open().and_then(|r| r.to_indexed_ids()).map_err(ek)?;
                    srcr.copy(&dst, [&snap]).map_err(ek)?;
                    drop(dst);
                    let snaps = h2.open().and_then(|r| r.get_all_snapshots()).map_err(ek)?;
                    match snaps.as_slice() {
                        [s] => Ok((h2, s.clone())),
                        _ => Err(format!("oracle-fail:big:copy-left-{}-snapshots", snaps.len())),
                    }
                }
                _ => Ok((h, snap)),
            }
        })
    });
    let (h, snap) = match res {
        None => return "oracle-fail:big:timeout".into(),
        Some(Err(e)) => return e,
        Some(Ok(x)) => x,
    };
    let res = watchdog(big_wd(n), move || -> Result<(usize, usize, usize), String> {
        in_pool(threads, move || {
            let (stored, indexed, _) = storage_vs_index(&h).map_err(|e| crate::util::errkind(&e))?;
            if stored != indexed {
                return Err(format!(
                    "oracle-fail:big:packs-in-storage-vs-index:{}:{}:unlisted={}",
                    stored.len(),
                    indexed.len(),
                    stored.difference(&indexed).count()
                ));
            }
            let repo = h.open().map_err(|e| crate::util::errkind(&e))?;
            let res = repo.check(CheckOptions::default()).map_err(|e| crate::util::errkind(&e))?;
            let mut v: Vec<String> = res
                .0
                .iter()
                .filter(|(l, _)| format!("{l:?}") == "Error")
                .map(|(_, e)| format!("{e:?}").split(|c: char| !c.is_alphanumeric()).next().unwrap_or("?").to_string())
                .collect();
            v.sort();
            v.dedup();
            if !v.is_empty() {
                return Err(format!("oracle-fail:big:check-errors:{}", v.join("+")));
            }
            let repo = repo.to_indexed().map_err(|e| crate::util::errkind(&e))?;
            let refs = referenced(&repo, snap.tree).map_err(|e| format!("oracle-fail:big:snapshot-unreadable:{}", crate::util::errkind(&e)))?;
            Ok((stored.len(), refs.iter().filter(|(t, _)| *t == 1).count(), refs.iter().filter(|(t, _)| *t == 0).count()))
        })
    });
    match res {
        None => "oracle-fail:big:oracle-timeout".into(),
        Some(Err(e)) => e,
        Some(Ok((_, trees, data))) => format!("ok big dirs={n} trees={trees} data={data}"),
    }
}

// ------------------------------------------------------------------------------------------------
// order: the state an interrupted prune leaves, index files arriving in either order

/// (index id, regular pack ids, to-delete pack ids) of every stored index file
fn index_shape(h: &DH) -> RusticResult<Vec<(Id, BTreeSet<Id>, BTreeSet<Id>)>> {
    let repo = h.open()?;
    let mut v = vec![];
    for f in repo.stream_files::<IndexFile>()? {
        let (id, f) = f?;
        v.push((*id, f.packs.iter().map(|p| *p.id).collect(), f.packs_to_delete.iter().map(|p| *p.id).collect()));
    }
    v.sort();
    Ok(v)
}

/// the planner alone (hook `plan_from_parts`) on the index files in the given order: sorted (pack, marked, decision) triples
fn plan_by_hook(h: &DH, snap: &SnapshotFile, order: &[Id], popts: &PruneOptions) -> Result<Vec<String>, String> {
    use rustic_core::repofile::{IndexId, PackId};
    let ek = |e: Box<rustic_core::RusticError>| crate::util::errkind(&e);
    let repo = h.open().map_err(ek)?;
    let mut files: BTreeMap<Id, IndexFile> = BTreeMap::new();
    for f in repo.stream_files::<IndexFile>().map_err(ek)? {
        let (id, f) = f.map_err(ek)?;
        _ = files.insert(*id, f);
    }
    let ordered: Vec<(IndexId, IndexFile)> = order.iter().filter_map(|id| files.remove(id).map(|f| (IndexId::from(*id), f))).collect();
    let existing: Vec<(PackId, u32)> = h.be.inner.list_with_size(FileType::Pack).map_err(ek)?.into_iter().map(|(id, s)| (PackId::from(id), s)).collect();
    let repo = repo.to_indexed().map_err(ek)?;
    let used: Vec<(BlobType, BlobId)> = referenced(&repo, snap.tree)
        .map_err(ek)?
        .into_iter()
        .map(|(t, id)| (if t == 1 { BlobType::Tree } else { BlobType::Data }, BlobId::from(id)))
        .collect();
    let cfg = repo.config();
    let sizer = |t: BlobType| {
        let (d, g, l) = cfg.packsize(t);
        let (lo, hi) = cfg.packsize_ok_percents();
        rustic_core::verif::packer::pack_sizer(d, g, l, 0, lo, hi)
    };
    let sizers = rustic_core::verif::prune::pack_sizers(sizer(BlobType::Tree), sizer(BlobType::Data));
    let rep = rustic_core::verif::prune::plan_from_parts(used, existing, ordered, popts, rustic_core::jiff::Zoned::now(), false, &sizers).map_err(ek)?;
    let mut v: Vec<String> = rep.decisions.iter().map(|d| format!("{}:{}:{}", d.pack.to_hex().as_str(), u8::from(d.marked), d.to_do)).collect();
    v.sort();
    Ok(v)
}

/// `c13 order <seed.dpack.tpack[.pool]> <src>`: backup; prune that ignores the snapshot (every pack gets marked for deletion);
/// prune that needs the packs again and recovers them, while the removal of the old index file fails — now some pack is listed
/// regularly in one index file and as pack-to-delete in another.  On copies of that repository: the planner (hook) on the index
/// files in both orders and a seeded shuffle, and the real `prune_plan` + `prune` with the to-delete file, resp. the regular
/// file, arriving LAST (`Adv::late_index`).  Oracles: every order succeeds, the planner decides the same for every pack, the
/// repository afterwards passes the per-run oracles and references the same blobs.
fn exec_order(run: &str, src: &str) -> String {
    let (Some(runs), Some(sa)) = (parse_runs(run), parse_src(src)) else {
        return "bad-op".into();
    };
    let [run] = runs.as_slice() else { return "bad-op".into() };
    if run.repack.is_some() {
        return "bad-op".into();
    }
    let run = *run;
    let threads = match run.pool {
        Pool::Default => 0,
        Pool::Installed(n) => n,
        Pool::Global(g) => {
            let wd = 4 * run_wd(&sa, None, None) + 20;
            return match in_child(g, wd, &format!("c13 order {}.{}.{}.0 {src}", run.seed, run.dsize, run.tsize)) {
                Ok(s) => s,
                Err(e) if e == "timeout" => "oracle-fail:order:timeout".into(),
                Err(e) => e,
            };
        }
    };
    let wd = run_wd(&sa, None, None);
    let sa2 = sa.clone();
    // 1. build the state
    let built = watchdog(wd, move || -> Result<(DH, SnapshotFile), String> {
        in_pool(threads, move || {
            let ek = |e: Box<rustic_core::RusticError>| crate::util::errkind(&e);
            let h = DH::init(DelayBackend::new(run.seed, if run.seed == 0 { 0 } else { 1000 }), &run_cfg(run.dsize, run.tsize)).map_err(ek)?;
            let force = BackupOptions::default().parent_opts(ParentOptions::default().force(true));
            let repo = h.open().and_then(|r| r.to_indexed_ids()).map_err(ek)?;
            let snap = repo.archive(&force, &LogSource::new(sa2), new_snap(), &[PathBuf::from(SRC_ROOT)]).map_err(ek)?;
            drop(repo);
            // every pack unused -> marked
            let p1 = PruneOptions::default().keep_pack(rustic_core::jiff::Span::new()).ignore_snaps(vec![snap.id]);
            let repo = h.open().and_then(|r| r.to_indexed_ids()).map_err(ek)?;
            let plan = repo.prune_plan(&p1).map_err(ek)?;
            repo.prune(&p1, plan).map_err(ek)?;
            drop(repo);
            // needed again -> recovered; the old index file cannot be removed any more
            let hf = DH { be: h.be.with_adv(Adv { fail_index_remove: true.into(), ..Adv::default() }), key: h.key.clone() };
            let p2 = PruneOptions::default();
            let repo = hf.open().and_then(|r| r.to_indexed_ids()).map_err(ek)?;
            let plan = repo.prune_plan(&p2).map_err(ek)?;
            match repo.prune(&p2, plan) {
                Err(_) => {}
                Ok(()) => return Err("state-not-reached:interrupted-prune-succeeded".into()),
            }
            Ok((h, snap))
        })
    });
    let (h, snap) = match built {
        None => return "oracle-fail:order:build-timeout".into(),
        Some(Err(e)) => return e,
        Some(Ok(x)) => x,
    };
    let shape = match index_shape(&h) {
        Ok(s) => s,
        Err(e) => return crate::util::errkind(&e),
    };
    // an index file with a to-delete entry whose pack another index file lists regularly
    let mut pair: Option<(Id, Id)> = None;
    for (d, _, dels) in &shape {
        for (r, regs, _) in &shape {
            if d != r && dels.intersection(regs).next().is_some() {
                pair = pair.or(Some((*d, *r)));
            }
        }
    }
    let Some((del_file, reg_file)) = pair else {
        return "state-not-reached:no-pack-regular-and-to-delete".into();
    };
    let popts = PruneOptions::default()
        .keep_pack(rustic_core::jiff::Span::new())
        .keep_delete(rustic_core::jiff::Span::new())
        // no repack budget: under a budget WHICH of several equally ranked packs is repacked follows the order of the plan
        .max_repack(rustic_core::LimitOption::Unlimited)
        .max_unused(rustic_core::LimitOption::Size(bytesize::ByteSize(0)))
        .instant_delete(run.seed % 2 == 0);
    // 2. the real prune, either file arriving last
    let mut first: Option<BTreeSet<(u8, Id)>> = None;
    for (name, late) in [("del-first", reg_file), ("reg-first", del_file)] {
        let store = h.be.inner.store();
        let mut be = DelayBackend::new(run.seed, h.be.max_us);
        be.inner = MemBackend::from_store(store);
        be.adv = Some(Arc::new(Adv { late_index: Some((late, 40)), ..Adv::default() }));
        let hc = DH { be, key: h.key.clone() };
        let hc2 = hc.clone();
        let popts2 = popts.clone();
        let res = watchdog(wd, move || -> Result<(), String> {
            in_pool(threads, move || {
                let ek = |e: Box<rustic_core::RusticError>| crate::util::errkind(&e);
                let repo = hc2.open().and_then(|r| r.to_indexed_ids()).map_err(ek)?;
                let plan = repo.prune_plan(&popts2).map_err(ek)?;
                repo.prune(&popts2, plan).map_err(ek)
            })
        });
        match res {
            None => return format!("oracle-fail:order:{name}:timeout"),
            Some(Err(e)) => return format!("oracle-fail:order:{name}:prune:{e}"),
            Some(Ok(())) => {}
        }
        let mut hq = hc.clone();
        hq.be.max_us = 0;
        hq.be.adv = None;
        let (snap2, src2) = (snap.clone(), sa.clone());
        let refs = match watchdog(wd, move || in_pool(threads, move || state_oracles(&hq, &snap2, &src2, 0))) {
            None => return format!("oracle-fail:order:{name}:oracle-timeout"),
            Some(Err(e)) => return e.replacen("run0", &format!("order:{name}"), 1),
            Some(Ok(r)) => r,
        };
        match &first {
            None => first = Some(refs),
            Some(r0) if *r0 != refs => return format!("oracle-fail:order:{name}:referenced-blobs-differ"),
            Some(_) => {}
        }
    }
    // 3. the planner alone, index files in several orders
    let ids: Vec<Id> = shape.iter().map(|x| x.0).collect();
    let mut orders: Vec<(&str, Vec<Id>)> = vec![];
    let rest = |a: Id, b: Id| ids.iter().copied().filter(move |i| *i != a && *i != b);
    orders.push(("del-first", [del_file, reg_file].into_iter().chain(rest(del_file, reg_file)).collect()));
    orders.push(("reg-first", [reg_file, del_file].into_iter().chain(rest(del_file, reg_file)).collect()));
    let mut shuffled = ids.clone();
    let mut r = Rng::new(run.seed ^ 0x5AFF);
    for i in (1..shuffled.len()).rev() {
        shuffled.swap(i, r.below(i as u64 + 1) as usize);
    }
    orders.push(("shuffled", shuffled));
    let mut first_plan: Option<Vec<String>> = None;
    for (name, order) in &orders {
        match plan_by_hook(&h, &snap, order, &popts) {
            Err(e) => return format!("oracle-fail:order:planner:{name}:{e}"),
            Ok(p) => match &first_plan {
                None => first_plan = Some(p),
                Some(p0) if *p0 != p => return format!("oracle-fail:order:planner:{name}:decisions-differ"),
                Some(_) => {}
            },
        }
    }
    let refs = first.unwrap();
    format!("ok runs=2 trees={} data={}", refs.iter().filter(|(t, _)| *t == 1).count(), refs.iter().filter(|(t, _)| *t == 0).count())
}

// ------------------------------------------------------------------------------------------------
// rest: RESTORE of the same source from repositories that differ only in their pack-size settings

/// what a directory holds after a restore: path below the root (components joined by `/`) -> bytes of a regular file
/// (`None`: a directory or anything else)
type DirMap = BTreeMap<Vec<u8>, Option<Vec<u8>>>;

fn dir_map(root: &std::path::Path) -> DirMap {
    use std::os::unix::ffi::OsStrExt;
    fn walk(dir: &std::path::Path, prefix: &[u8], out: &mut DirMap) {
        let Ok(rd) = std::fs::read_dir(dir) else { return };
        for e in rd.flatten() {
            let mut p = prefix.to_vec();
            if !p.is_empty() {
                p.push(b'/');
            }
            p.extend_from_slice(e.file_name().as_bytes());
            match std::fs::symlink_metadata(e.path()) {
                Ok(m) if m.is_file() => _ = out.insert(p, std::fs::read(e.path()).ok()),
                Ok(m) if m.is_dir() => {
                    _ = out.insert(p.clone(), None);
                    walk(&e.path(), &p, out);
                }
                _ => _ = out.insert(p, None),
            }
        }
    }
    let mut out = DirMap::new();
    walk(root, &[], &mut out);
    out
}

fn se_rel(e: &SE) -> Vec<u8> {
    e.path.join(&b'/')
}

/// source / destination descriptions a `rest` case accepts: directories and regular files only, path components of ASCII
/// letters and digits, whole-second mtimes, no path twice (the Lean driver checks the same)
fn rest_valid(v: &[SE]) -> bool {
    use crate::dispatch::c11::K;
    let mut seen = BTreeSet::new();
    v.iter().all(|e| {
        matches!(e.kind, K::File | K::Dir)
            && e.path.iter().all(|c| !c.is_empty() && c.iter().all(u8::is_ascii_alphanumeric))
            && (0..4_000_000_000).contains(&e.mtime)
            && seen.insert(e.path.clone())
    })
}

/// the existing destination tree of a restore: the directories and files of `dst` (file mtimes as given, whole seconds)
fn materialize(root: &std::path::Path, dst: &[SE]) -> Result<(), String> {
    use crate::dispatch::c11::K;
    use std::os::unix::ffi::OsStringExt;
    std::fs::create_dir_all(root).map_err(|_| "err:dst-not-materializable".to_string())?;
    for e in dst {
        let mut p = root.to_path_buf();
        for c in &e.path {
            p.push(OsString::from_vec(c.clone()));
        }
        let ok = match e.kind {
            K::Dir => std::fs::create_dir_all(&p).is_ok(),
            K::File => {
                p.parent().is_some_and(|d| std::fs::create_dir_all(d).is_ok())
                    && std::fs::write(&p, e.bytes()).is_ok()
                    && std::fs::File::options().write(true).open(&p).is_ok_and(|f| {
                        f.set_modified(std::time::UNIX_EPOCH + Duration::from_secs(e.mtime as u64)).is_ok()
                    })
            }
            _ => false,
        };
        if !ok {
            return Err("err:dst-not-materializable".into());
        }
    }
    Ok(())
}

/// the real restore of the snapshot's `src` directory into `dest` (as `harness/src/c14.rs` drives it: `ls` node streamer,
/// `prepare_restore`, `restore`, local destination)
fn restore_into<S: IndexedFull>(repo: &Repository<S>, snap: &SnapshotFile, dest: &std::path::Path, verify: bool) -> Result<(), String> {
    use rustic_core::{LocalDestination, LsOptions, RestoreOptions};
    let opts = RestoreOptions::default().verify_existing(verify).no_ownership(true);
    std::fs::create_dir_all(dest).map_err(|_| "err:mkdir".to_string())?;
    let ek = |e: Box<rustic_core::RusticError>| crate::util::errkind(&e);
    let node = repo.node_from_snapshot_path(&format!("{}:src", snap.id.to_hex().as_str()), |_| true).map_err(ek)?;
    let ls = repo.ls(&node, &LsOptions::default()).map_err(ek)?;
    let d = LocalDestination::new(dest.to_str().ok_or("err:dest")?, true, !node.is_dir()).map_err(ek)?;
    let plan = repo.prepare_restore(&opts, ls, &d, false).map_err(|e| format!("prepare:{}", ek(e)))?;
    let ls = repo.ls(&node, &LsOptions::default()).map_err(ek)?;
    repo.restore(plan, &opts, ls, &d).map_err(|e| format!("restore:{}", ek(e)))
}

/// One run of a `rest` case: fresh repository with the run's pack sizes, backup of `sa` (latencies by seed), then the real
/// restore (a) into an empty directory and (b) over the existing tree `dst`; what the two directories hold afterwards.
fn rest_run(sa: &[SE], dst: &[SE], verify: bool, run: Run, threads: usize, k: usize) -> Result<(DirMap, DirMap), String> {
    let (sa2, dst2) = (sa.to_vec(), dst.to_vec());
    let Run { seed, dsize, tsize, .. } = run;
    let wd = run_wd(sa, Some(dst), None);
    let res = watchdog(wd, move || -> Result<(DirMap, DirMap), String> {
        in_pool(threads, move || {
            let ek = |e: Box<rustic_core::RusticError>| crate::util::errkind(&e);
            let h = DH::init(DelayBackend::new(seed, if seed == 0 { 0 } else { 1500 }), &run_cfg(dsize, tsize)).map_err(ek)?;
            let force = BackupOptions::default().parent_opts(ParentOptions::default().force(true));
            let repo = h.open().and_then(|r| r.to_indexed_ids()).map_err(ek)?;
            let snap = repo.archive(&force, &SlowSource::new(sa2, seed), new_snap(), &[PathBuf::from(SRC_ROOT)]).map_err(ek)?;
            drop(repo);
            let tmp = tempfile::tempdir().map_err(|_| "err:tempdir".to_string())?;
            let repo = h.open().and_then(|r| r.to_indexed()).map_err(ek)?;
            let fresh = tmp.path().join("fresh");
            restore_into(&repo, &snap, &fresh, verify).map_err(|e| format!("fresh:{e}"))?;
            let over = tmp.path().join("over");
            materialize(&over, &dst2)?;
            restore_into(&repo, &snap, &over, verify).map_err(|e| format!("over:{e}"))?;
            Ok((dir_map(&fresh), dir_map(&over)))
        })
    });
    match res {
        None => Err(format!("oracle-fail:run{k}:timeout")),
        Some(Err(e)) if e.starts_with("oracle-fail") => Err(e),
        Some(Err(e)) => Err(format!("run{k}:{e}")),
        Some(Ok(x)) => Ok(x),
    }
}

/// `c13 rest <src> <dst> <verify 0|1> <run,run,…>`: the same source backed up into repositories that differ only in their
/// pack-size settings (run tokens `seed.dpack.tpack[.pool]`, pool `0` or an installed pool of ≥ 2 workers) and restored from
/// each of them (a) into an empty directory, (b) over the existing tree `dst` (files of the same path: absent / same bytes /
/// same size with some other blocks / other size; trusted unread only when size AND mtime equal and `verify` is off).
/// Oracles: both directories hold the same bytes for every pack-size setting (`…differs-across-pack-sizes`), every source file
/// is restored with the source's bytes (`restore-differs-from-source`, `restore-over-existing-differs`; a destination file
/// trusted by size + mtime keeps its bytes).  Observation: number / bytes of the source files and how many were trusted
/// with other content.
fn exec_rest(src: &str, dst: &str, verify: &str, runs: &str) -> String {
    use crate::dispatch::c11::K;
    let (Some(sa), Some(dv), Some(runs)) = (parse_src(src), parse_src(dst), parse_runs(runs)) else {
        return "bad-op".into();
    };
    let verify = match verify {
        "0" => false,
        "1" => true,
        _ => return "bad-op".into(),
    };
    if !rest_valid(&sa) || !rest_valid(&dv) || runs.iter().any(|r| r.repack.is_some() || !matches!(r.pool, Pool::Default | Pool::Installed(2..))) {
        return "bad-op".into();
    }
    let mut results = vec![];
    for (k, run) in runs.iter().enumerate() {
        let threads = if let Pool::Installed(n) = run.pool { n } else { 0 };
        match rest_run(&sa, &dv, verify, *run, threads, k) {
            Ok(x) => results.push(x),
            Err(e) => return e,
        }
    }
    // the property proper: nothing depends on the pack-size setting
    for (k, (fresh, over)) in results.iter().enumerate().skip(1) {
        if *fresh != results[0].0 {
            return format!("oracle-fail:run{k}:restore-differs-across-pack-sizes");
        }
        if *over != results[0].1 {
            return format!("oracle-fail:run{k}:restore-over-existing-differs-across-pack-sizes");
        }
    }
    // … and it is the source that is restored
    let existing: BTreeMap<Vec<u8>, &SE> = dv.iter().filter(|e| e.kind == K::File).map(|e| (se_rel(e), e)).collect();
    let (mut files, mut bytes, mut kept) = (0usize, 0usize, 0usize);
    for (k, (fresh, over)) in results.iter().enumerate() {
        for e in sa.iter().filter(|e| e.kind == K::File) {
            let (p, want) = (se_rel(e), e.bytes());
            if fresh.get(&p) != Some(&Some(want.clone())) {
                return format!("oracle-fail:run{k}:restore-differs-from-source");
            }
            // size + mtime of an existing file equal and no `verify_existing`: accepted as it is, whatever it holds
            let trusted = existing.get(&p).filter(|d| !verify && d.mtime == e.mtime && d.bytes().len() == want.len()).map(|d| d.bytes());
            let expect = trusted.unwrap_or_else(|| want.clone());
            if over.get(&p) != Some(&Some(expect.clone())) {
                return format!("oracle-fail:run{k}:restore-over-existing-differs");
            }
            if k == 0 {
                files += 1;
                bytes += want.len();
                kept += usize::from(expect != want);
            }
        }
    }
    format!("ok runs={} files={files} bytes={bytes} kept={kept}", runs.len())
}

/// A `rest` case: 2-6 files (some in a sub-directory) of 1-7 blocks drawn from a small pool of labels — blocks shared between
/// files and repeated inside a file, multi-chunk files, blobs of different files next to each other in a pack — and an
/// existing destination in which every file is absent / the same bytes with another mtime / the same size with some blocks
/// replaced / accepted by size + mtime (same or other bytes) / of another size; now and then a file the snapshot lacks.
fn gen_rest(rng: &mut Rng, stats: &mut Stats) -> String {
    use crate::dispatch::c11::{enc_src, K};
    let pool: Vec<u64> = {
        let base = rng.below(30);
        (0..rng.range(3, 9)).map(|i| base + i).collect()
    };
    let n = rng.range(2, 6) as usize;
    let sub = rng.chance(1, 2);
    let file = |path: Vec<Vec<u8>>, mtime: i64, inode: u64, content: Vec<u64>| SE { path, kind: K::File, mtime, ctime: 200, inode, content };
    let (mut src, mut dst): (Vec<SE>, Vec<SE>) = (vec![], vec![]);
    // walk order: the top-level files `a`.., then the directory `s` and the last m files below it
    let m = if sub { rng.range(1, n as u64 - 1) as usize } else { 0 };
    let names: Vec<Vec<Vec<u8>>> = [b"a", b"b", b"c", b"d", b"e", b"f"]
        .iter()
        .take(n)
        .enumerate()
        .map(|(i, x)| if i >= n - m { vec![b"s".to_vec(), x.to_vec()] } else { vec![x.to_vec()] })
        .collect();
    let dir_at = if m > 0 { Some(n - m) } else { None };
    let mut src_files = vec![];
    for (i, path) in names.iter().enumerate() {
        let mut content: Vec<u64> = (0..rng.range(1, 7)).map(|_| *rng.pick(&pool)).collect();
        if rng.chance(1, 4) {
            content.push(500 + rng.below(60));
        }
        let mtime = 100 + rng.below(3) as i64;
        src_files.push(file(path.clone(), mtime, 20 + i as u64, content.clone()));
        let kind = rng.below(10);
        stats.hit(format!("c13.rest.dst.{kind}"));
        let other = |rng: &mut Rng, c: &[u64], all: bool| -> Vec<u64> {
            let mut hit = false;
            let mut v: Vec<u64> = c.iter().map(|l| if all || rng.chance(1, 2) { hit = true; if *l < 500 { l + 100 } else { l + 50 } } else { *l }).collect();
            if !hit {
                let j = rng.below(v.len() as u64) as usize;
                v[j] = if v[j] < 500 { v[j] + 100 } else { v[j] + 50 };
            }
            v
        };
        match kind {
            0 | 1 => {}
            2 | 3 => dst.push(file(path.clone(), mtime + 1000, 0, content)),
            4..=6 => {
                let m = if rng.chance(1, 4) { mtime } else { mtime + 1000 + rng.below(5) as i64 };
                dst.push(file(path.clone(), m, 0, other(rng, &content, false)));
            }
            7 => dst.push(file(path.clone(), mtime, 0, content)),
            8 => {
                let mut c = content.clone();
                if c.len() > 1 && rng.chance(1, 2) { _ = c.pop(); } else { c.push(*rng.pick(&pool)); }
                dst.push(file(path.clone(), if rng.chance(1, 2) { mtime } else { mtime + 7 }, 0, c));
            }
            _ => dst.push(file(path.clone(), mtime, 0, other(rng, &content, true))),
        }
    }
    for (i, f) in src_files.into_iter().enumerate() {
        if dir_at == Some(i) {
            src.push(SE { path: vec![b"s".to_vec()], kind: K::Dir, mtime: 100, ctime: 200, inode: 9, content: vec![] });
        }
        src.push(f);
    }
    if rng.chance(1, 4) {
        dst.push(file(vec![b"x".to_vec()], 50, 0, vec![*rng.pick(&pool)]));
    }
    let verify = rng.chance(1, 3);
    stats.hit(format!("c13.rest.verify.{}", u8::from(verify)));
    stats.add("c13.rest.files", n as u64);
    // default packs (undelayed), one blob per pack, a small pack size
    let p = |rng: &mut Rng| if rng.chance(1, 2) { "0".to_string() } else { rng.range(2, 16).to_string() };
    let runs = format!(
        "0.4000000.4000000.0,{}.1.1.{},{}.{}.{}.{}",
        1 + rng.below(10_000),
        p(rng),
        1 + rng.below(10_000),
        rng.pick(&[200u64, 400, 5000]),
        rng.pick(&[1u64, 200, 4_000_000]),
        p(rng)
    );
    format!("c13 rest {} {} {} {runs}", enc_src(&src), enc_src(&dst), u8::from(verify))
}

// ------------------------------------------------------------------------------------------------
// generator

fn gen_stream(rng: &mut Rng, stats: &mut Stats) -> String {
    let n = 1 + rng.below(14);
    let mut forest: Vec<(u64, Vec<u64>)> = vec![];
    for id in 1..=n {
        // children have larger labels: a DAG (trees are content addressed, cycles cannot exist)
        let k = if id == n { 0 } else { rng.below(4) };
        let cs: Vec<u64> = (0..k).map(|_| rng.range(id + 1, n)).collect();
        forest.push((id, cs));
    }
    let n_roots = rng.below(4);
    let roots: Vec<u64> = (0..n_roots).map(|_| rng.range(1, n)).collect();
    stats.add("c13.stream.trees", n);
    stats.hit(format!("c13.stream.roots.{n_roots}"));
    let seed = rng.below(1000);
    // the streamer's four loaders are std threads; the pool governs the index loading of the op
    let threads = gen_pool(rng, stats);
    format!(
        "c13 stream {seed}.{threads} {} {}",
        forest.iter().map(|(i, cs)| format!("{i}={}", cs.iter().map(u64::to_string).collect::<Vec<_>>().join("."))).collect::<Vec<_>>().join(";"),
        if roots.is_empty() { "-".into() } else { roots.iter().map(u64::to_string).collect::<Vec<_>>().join(",") }
    )
}

/// rayon pool of one run, sizes 1..=16 with the extremes over-represented.  `g<n>`: child process with a global pool
/// of n workers (the caller is outside the pool, as in the `rustic` binary with `RAYON_NUM_THREADS=n`); `<n>`: the
/// commands run inside `ThreadPool::install` of an n-worker pool (the caller is one of the workers) — n ≥ 2 only:
/// with n = 1 the sole worker blocks in `stream_list`'s receiver and its `rayon::spawn`ed producer never starts.
fn gen_pool(rng: &mut Rng, stats: &mut Stats) -> String {
    let t = match rng.below(8) {
        0 | 1 => 1,
        2 => 2,
        3 => 16,
        _ => rng.range(1, 16),
    };
    let global = t == 1 || rng.chance(1, 3);
    stats.hit(format!("c13.pool.{}{t}", if global { "g" } else { "" }));
    format!("{}{t}", if global { "g" } else { "" })
}

fn gen_runs(rng: &mut Rng, n: usize, stats: &mut Stats) -> String {
    let sizes = [1u64, 1, 200, 5000, 4_000_000];
    // run 0: undelayed, default packs, default pool
    let mut v = vec![format!("0.{}.{}.0", sizes[4], sizes[4])];
    for _ in 1..n {
        let mut t = format!("{}.{}.{}.{}", 1 + rng.below(10_000), rng.pick(&sizes), rng.pick(&sizes), gen_pool(rng, stats));
        // now and then: slow pack writes, and (in a `hist`) a prune that repacks everything with `fast_repack`
        if rng.chance(1, 6) {
            stats.hit("c13.repack-all-fast");
            t.push_str(&format!(".r{}", rng.pick(&[0u64, 2, 10])));
        }
        v.push(t);
    }
    v.join(",")
}

/// A pool with at least two workers (or the default one): `<n>`, `g<n>` with n in 2..=16, or `0`.
fn gen_pool2(rng: &mut Rng, stats: &mut Stats) -> String {
    let t = match rng.below(6) {
        0 | 1 => return "0".into(),
        2 => 2,
        3 => 16,
        _ => rng.range(2, 16),
    };
    let global = rng.chance(1, 3);
    stats.hit(format!("c13.pool.{}{t}", if global { "g" } else { "" }));
    format!("{}{t}", if global { "g" } else { "" })
}

/// Streams whose consumer has more than `TreeStreamerOnce`'s loaders and result queue can absorb outstanding at once:
/// `kind 0` one directory with n distinct sub-directories, `kind 1` n distinct roots (n snapshots), `kind 2` a directory
/// of m directories that all share the same n sub-directories.  n is beyond any "a few hundred / a thousand" queue bound;
/// `kind 3` / `kind 4` (thorough tier) are kind 0 / kind 1 with n in 5000..=12000.
fn gen_stream_wide(rng: &mut Rng, kind: u64, stats: &mut Stats) -> String {
    let (n, kind) = if kind >= 3 { (rng.range(5000, 12_000), kind - 3) } else { (rng.range(1100, 1600), kind) };
    let seed = rng.below(1000);
    let pool = gen_pool(rng, stats);
    stats.hit(format!("c13.stream.wide.{kind}"));
    stats.add("c13.stream.trees", n);
    match kind {
        0 => format!("c13 stream {seed}.{pool} 1=2-{};2-{}= 1", n + 1, n + 1),
        1 => format!("c13 stream {seed}.{pool} 1-{n}= 1-{n}"),
        _ => {
            let m = rng.range(2, 40);
            format!("c13 stream {seed}.{pool} 1=2-{};2-{}={}-{};{}-{}= 1", m + 1, m + 1, m + 2, m + n + 1, m + 2, m + n + 1)
        }
    }
}

/// Source pair with ONE directory of n (> 1100) pairwise different sub-directories (a file with its own inode in each);
/// B differs from A in a few of them.  `check` / `prune` walk it with `TreeStreamerOnce`.
fn gen_src_wide(rng: &mut Rng, stats: &mut Stats) -> (Vec<SE>, Vec<SE>) {
    use crate::dispatch::c11::{flatten, T};
    let n = rng.range(1100, 1400);
    stats.add("c13.wide.subdirs", n);
    let sub = |i: u64, label: Option<u64>| -> (Vec<u8>, T) {
        let f = T::File { content: label.into_iter().collect(), mtime: 100, ctime: 200, inode: 10_000 + i };
        (format!("d{i:05}").into_bytes(), T::Dir { children: vec![(b"f".to_vec(), f)], mtime: 100, ctime: 200, inode: 50_000 + i })
    };
    let a: Vec<(Vec<u8>, T)> = (0..n).map(|i| sub(i, None)).collect();
    let mut b = a.clone();
    for _ in 0..rng.range(1, 8) {
        let i = rng.below(n);
        b[i as usize] = sub(i, Some(rng.below(14)));
    }
    let top = |ch: Vec<(Vec<u8>, T)>| vec![(b"w".to_vec(), T::Dir { children: ch, mtime: 100, ctime: 200, inode: 7 })];
    let (mut fa, mut fb) = (vec![], vec![]);
    flatten(&top(a), &[], &mut fa);
    flatten(&top(b), &[], &mut fb);
    (fa, fb)
}

/// Source pair with at least 45 distinct chunks that both snapshots share (file `z`, 64-byte blocks = one chunk each under the
/// fixed-size chunker) and some only A has (file `y`): with one blob per pack a repack-all prune repacks ≥ 45 packs.
fn gen_src_many(rng: &mut Rng, stats: &mut Stats) -> (Vec<SE>, Vec<SE>) {
    use crate::dispatch::c11::K;
    let (mut fa, mut fb) = gen_src_pair(rng, stats);
    let m = rng.range(45, 80);
    let start = rng.range(20, 300);
    stats.add("c13.many.chunks", m);
    let file = |name: &[u8], inode: u64, content: Vec<u64>| SE { path: vec![name.to_vec()], kind: K::File, mtime: 100, ctime: 200, inode, content };
    // names sort after everything `gen_src_pair` makes (`a`..`e`)
    fa.push(file(b"y", 901, (start + 100..start + 100 + rng.range(1, 12)).collect()));
    fa.push(file(b"z", 902, (start..start + m).collect()));
    fb.push(file(b"z", 902, (start..start + m).collect()));
    (fa, fb)
}

fn gen_src_pair(rng: &mut Rng, stats: &mut Stats) -> (Vec<SE>, Vec<SE>) {
    use crate::dispatch::c11::{flatten, gen_t, mutate_children, T};
    let mut inode = 10;
    let n = 1 + rng.below(4);
    let mut names: Vec<Vec<u8>> = [b"a".to_vec(), b"b".to_vec(), b"c".to_vec(), b"d".to_vec(), b"e".to_vec()].into_iter().take(n as usize + 1).collect();
    names.sort();
    let a: Vec<(Vec<u8>, T)> = names.into_iter().map(|nm| (nm, gen_t(rng, 2, &mut inode))).collect();
    let b = mutate_children(rng, &a, 2, &mut inode, true, stats);
    let (mut fa, mut fb) = (vec![], vec![]);
    flatten(&a, &[], &mut fa);
    flatten(&b, &[], &mut fb);
    (fa, fb)
}

pub fn generate(thorough: bool, rng: &mut Rng, ops: &mut Vec<String>, stats: &mut Stats) {
    use crate::dispatch::c11::enc_src;
    for _ in 0..(if thorough { 3000 } else { 250 }) {
        let mut r = rng.fork();
        ops.push(gen_stream(&mut r, stats));
    }
    for _ in 0..(if thorough { 300 } else { 25 }) {
        let mut r = rng.fork();
        let (a, _) = gen_src_pair(&mut r, stats);
        stats.hit("c13.run");
        ops.push(format!("c13 run {} {}", enc_src(&a), gen_runs(&mut r, if thorough { 5 } else { 3 }, stats)));
    }
    for _ in 0..(if thorough { 200 } else { 12 }) {
        let mut r = rng.fork();
        let (a, b) = gen_src_pair(&mut r, stats);
        stats.hit("c13.hist");
        ops.push(format!("c13 hist {} {} {}", enc_src(&a), enc_src(&b), gen_runs(&mut r, if thorough { 4 } else { 3 }, stats)));
    }
    ops.push("c13 chk 250".into());
    // wide shapes: more outstanding tree requests than any fixed queue bound of the streamer (hook and real check / prune)
    for i in 0..(if thorough { 12 } else { 2 }) {
        let mut r = rng.fork();
        let kind = if i < 2 { i } else if i < 4 { i + 1 } else { r.below(3) };
        ops.push(gen_stream_wide(&mut r, kind, stats));
    }
    // more snapshots than any fixed queue bound: real `check` + `prune_plan`
    for _ in 0..(if thorough { 4 } else { 1 }) {
        let mut r = rng.fork();
        stats.hit("c13.snaps");
        ops.push(format!("c13 snaps {}.{} {}", r.below(1000), gen_pool(&mut r, stats), r.range(1100, 1500)));
    }
    for i in 0..(if thorough { 6 } else { 2 }) {
        let mut r = rng.fork();
        let (a, b) = gen_src_wide(&mut r, stats);
        let runs = format!("0.4000000.4000000.0,{}.{}.{}.{}", 1 + r.below(10_000), r.pick(&[1u64, 200, 4_000_000]), r.pick(&[200u64, 5000, 4_000_000]), gen_pool(&mut r, stats));
        if i % 2 == 0 {
            stats.hit("c13.run.wide");
            ops.push(format!("c13 run {} {runs}", enc_src(&a)));
        } else {
            stats.hit("c13.hist.wide");
            ops.push(format!("c13 hist {} {} {runs}", enc_src(&a), enc_src(&b)));
        }
    }
    // one blob per pack, slow pack writes, every pack repacked concurrently with `fast_repack` (`Packer::add_raw` from the
    // repack workers while the file writer is busy and its queue is full)
    for _ in 0..(if thorough { 12 } else { 2 }) {
        let mut r = rng.fork();
        let (a, b) = gen_src_many(&mut r, stats);
        stats.hit("c13.hist.repack-all-fast");
        let mut runs = vec!["0.4000000.4000000.0".to_string()];
        runs.push(format!("{}.1.1.{}.r{}", 1 + r.below(10_000), gen_pool2(&mut r, stats), r.range(20, 30)));
        runs.push(format!("{}.{}.{}.{}.r{}", 1 + r.below(10_000), r.pick(&[1u64, 1, 200]), r.pick(&[1u64, 200, 4_000_000]), gen_pool(&mut r, stats), r.pick(&[0u64, 5, 20])));
        ops.push(format!("c13 hist {} {} {}", enc_src(&a), enc_src(&b), runs.join(",")));
    }
    // backup + copy into a second repository (pack sizes swapped), repeated under the run variations
    for _ in 0..(if thorough { 40 } else { 4 }) {
        let mut r = rng.fork();
        let (a, _) = gen_src_pair(&mut r, stats);
        stats.hit("c13.copy");
        ops.push(format!("c13 copy {} {}", enc_src(&a), gen_runs(&mut r, 3, stats)));
    }
    // the repository an interrupted prune leaves (a pack regular in one index file, to-delete in another): planner and real
    // prune with the index files arriving in either order
    for _ in 0..(if thorough { 60 } else { 6 }) {
        let mut r = rng.fork();
        let (a, _) = gen_src_pair(&mut r, stats);
        stats.hit("c13.order");
        let sizes = [1u64, 1, 200, 5000, 4_000_000];
        ops.push(format!("c13 order {}.{}.{}.{} {}", r.below(10_000), r.pick(&sizes), r.pick(&sizes), gen_pool(&mut r, stats), enc_src(&a)));
    }
    // restore from repositories that differ only in the pack-size setting: into an empty directory and over a partly
    // matching destination
    for _ in 0..(if thorough { 150 } else { 12 }) {
        let mut r = rng.fork();
        stats.hit("c13.rest");
        ops.push(gen_rest(&mut r, stats));
    }
    // more than MAX_COUNT blobs in one command, one blob per pack, slow index writes (the 2nd slower than the 1st)
    for i in 0..(if thorough { 4 } else { 1 }) {
        let mut r = rng.fork();
        let cmd = ["backup", "backup", "prune", "copy"][i];
        let pool = if r.chance(1, 2) { "0".to_string() } else { format!("{}", r.range(4, 16)) };
        stats.hit(format!("c13.big.{cmd}"));
        // 2 n + 2 blobs: the indexer's auto-save threshold is crossed once, with 2-4 % of the run still to come
        let lo = rustic_core::verif::indexer::MAX_COUNT as u64 / 2 + 50;
        ops.push(format!("c13 big {}.{pool} {cmd} {} {} {} {}", r.below(1000), r.range(lo, lo + 950), r.range(1500, 2500), r.range(1500, 2500), r.range(3, 8)));
    }
}

/// Seconds after which the supervisor kills the child that executes this op, and whether a timeout counts towards
/// `MAX_TIMEOUTS`; `None`: not a watchdog-guarded op (or ill-formed: answered `bad-op` in-process).
fn budget_of(t: &[&str]) -> Option<(u64, bool)> {
    match t {
        ["stream", seed, forest, roots] => {
            let (_, _, wd) = parse_seed_pool(seed)?;
            let n = parse_forest(forest)?.len() + parse_roots(roots)?.len();
            Some((stream_wd(wd, n) + 15, wd == 0))
        }
        ["big", _, _, dirs, ..] => Some((4 * big_wd(dirs.parse::<u64>().ok().filter(|n| *n <= 100_000)?) + 60, true)),
        ["order", run, src] => {
            let sa = parse_src(src)?;
            _ = parse_runs(run)?;
            Some((6 * run_wd(&sa, None, None) + 60, true))
        }
        ["run", src, runs] | ["copy", src, runs] | ["hist", src, _, runs] => {
            let sa = parse_src(src)?;
            let sb = if let ["hist", _, b, _] = t { Some(parse_src(b)?) } else { None };
            let runs = parse_runs(runs)?;
            let wd = runs.iter().map(|r| run_wd(&sa, sb.as_deref(), r.repack)).max()?;
            Some((2 * wd + 10 * runs.len() as u64 + 20, true))
        }
        ["chk", ms] => ms.parse::<u64>().ok().map(|_| (WD_SECS + 15, true)),
        ["rest", src, dst, _, runs] => {
            let (sa, dv, runs) = (parse_src(src)?, parse_src(dst)?, parse_runs(runs)?);
            Some((2 * run_wd(&sa, Some(&dv), None) + 10 * runs.len() as u64 + 20, true))
        }
        ["snaps", seed, n] => {
            let (_, _, wd) = parse_seed_pool(seed)?;
            let n = n.parse::<u64>().ok().filter(|n| (1..=20_000).contains(n))?;
            Some((stream_wd(wd, 2 * n as usize) + 20, wd == 0))
        }
        _ => None,
    }
}

pub fn exec(t: &[&str]) -> String {
    let t: Vec<String> = t.iter().map(|s| (*s).to_string()).collect();
    guarded(move || {
        let v: Vec<&str> = t.iter().map(String::as_str).collect();
        // every watchdog-guarded case runs in a process of its own that can be killed; the child executes it below
        if !is_child() {
            if let Some((budget, counts)) = budget_of(&v) {
                return supervised(&format!("c13 {}", v.join(" ")), budget, counts);
            }
        }
        match v.as_slice() {
            ["stream", seed, forest, roots] => exec_stream(seed, forest, roots),
            ["run", src, runs] => exec_run(src, runs, None),
            ["hist", a, b, runs] => exec_run(a, runs, Some(b)),
            ["solo", k, a, b, run] => exec_solo(k, a, b, run),
            ["chk", ms] => exec_chk(ms),
            ["snaps", seed, n] => exec_snaps(seed, n),
            ["copy", src, runs] => exec_run_mode(src, runs, None, true),
            ["big", seed, cmd, dirs, t1, t2, k] => exec_big(seed, cmd, dirs, t1, t2, k),
            ["order", run, src] => exec_order(run, src),
            ["rest", src, dst, verify, runs] => exec_rest(src, dst, verify, runs),
            _ => "bad-op".into(),
        }
    })
}
