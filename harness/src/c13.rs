//! C13 — results do not depend on scheduling, latency or pack boundaries; termination; no unindexed pack.
//! * `c13 stream <seed> <forest> <roots>`: the real `TreeStreamerOnce` (hook `verif::tree::stream_once`) over a
//!   stored forest, with seeded delays at every backend read (the four loader threads answer in varying
//!   order) vs. the Lean model (`Rustic.Streamer`, any delivery order): set of yielded trees; oracles: no tree
//!   twice, termination (watchdog).
//! * `c13 run <src> <run,run,…>`: the same backup repeated on fresh repositories with seeded delays at every
//!   backend call and different pack sizes (down to one blob per pack); oracles: identical tree id and
//!   referenced blob set in all runs, termination (watchdog), every pack in storage is listed by the index
//!   and vice versa, `check --read-data` clean, snapshot reads back as the source.
//! * `c13 hist <src A> <src B> <run,run,…>`: per run: backup A, backup B (parent), forget A's snapshot, prune
//!   (repacking with the run's pack sizes) under delays; oracles as above for the surviving snapshot.
//! * rayon pool: the `stream` seed and every run token carry an optional pool field (`seed[.pool]`,
//!   `seed.dpack.tpack[.pool]`): missing/`0` = this process's default pool; `<n>` = the run's commands and oracles execute
//!   inside `ThreadPoolBuilder::num_threads(n)…install(..)` (caller = a worker of the pool); `g<n>` = they execute in a child
//!   `vh exec` with `RAYON_NUM_THREADS=n` (global pool of n, caller outside it; op `c13 solo …` is the child side).
//! * `c13 chk <delay ms>`: `check --read-data` on a repository with a missing tree and slow reads must not
//!   panic (loader threads of an aborted `TreeStreamerOnce` still hold the index).
use std::collections::{BTreeMap, BTreeSet};
use std::ffi::OsString;
use std::path::PathBuf;
use std::sync::Arc;
use std::sync::atomic::{AtomicU64, Ordering};
use std::time::Duration;

use crate::dispatch::c11::{LogSource, SE, fake_id, fixed64_config, new_snap, parse_src};
use crate::repo::{MemBackend, SRC_ROOT};
use crate::util::{Rng, Stats, guarded};
use bytes::Bytes;
use rustic_core::repofile::{BlobType, FileType, IndexFile, MasterKey, Metadata, Node, NodeType, SnapshotFile, Tree};
use rustic_core::{
    BackupOptions, BlobId, BytesList, CheckOptions, ConfigOptions, Credentials, Id, IndexedFull, KeyOptions, OpenStatus, ParentOptions, PruneOptions,
    ReadBackend, Repository, RepositoryBackends, RepositoryOptions, RusticResult, TreeId, WriteBackend,
};

/// `MemBackend` with a seeded sleep before every call (reads and writes).
#[derive(Clone, Debug)]
pub struct DelayBackend {
    pub inner: MemBackend,
    pub seed: u64,
    pub max_us: u64,
    pub calls: Arc<AtomicU64>,
}

impl DelayBackend {
    pub fn new(seed: u64, max_us: u64) -> Self {
        Self { inner: MemBackend::new(), seed, max_us, calls: Arc::new(AtomicU64::new(0)) }
    }
    fn nap(&self) {
        if self.max_us == 0 {
            return;
        }
        let k = self.calls.fetch_add(1, Ordering::Relaxed);
        let mut r = Rng::new(self.seed ^ k.wrapping_mul(0x9E37_79B9));
        let us = match r.below(4) {
            0 => 0,
            1 => r.below(self.max_us / 8 + 1),
            _ => r.below(self.max_us + 1),
        };
        if us > 0 {
            std::thread::sleep(Duration::from_micros(us));
        }
    }
}

impl ReadBackend for DelayBackend {
    fn location(&self) -> String {
        "delay".into()
    }
    fn warmup_path(&self, tpe: FileType, id: &Id) -> String {
        self.inner.warmup_path(tpe, id)
    }
    fn list_with_size(&self, tpe: FileType) -> RusticResult<Vec<(Id, u32)>> {
        self.nap();
        self.inner.list_with_size(tpe)
    }
    fn read_full(&self, tpe: FileType, id: &Id) -> RusticResult<Bytes> {
        self.nap();
        self.inner.read_full(tpe, id)
    }
    fn read_partial(&self, tpe: FileType, id: &Id, cacheable: bool, offset: u32, length: u32) -> RusticResult<Bytes> {
        self.nap();
        self.inner.read_partial(tpe, id, cacheable, offset, length)
    }
}
impl WriteBackend for DelayBackend {
    fn create(&self) -> RusticResult<()> {
        Ok(())
    }
    fn write_bytes(&self, tpe: FileType, id: &Id, cacheable: bool, buf: BytesList) -> RusticResult<()> {
        self.nap();
        self.inner.write_bytes(tpe, id, cacheable, buf)
    }
    fn remove(&self, tpe: FileType, id: &Id, cacheable: bool) -> RusticResult<()> {
        self.nap();
        self.inner.remove(tpe, id, cacheable)
    }
}

#[derive(Clone)]
pub struct DH {
    pub be: DelayBackend,
    pub key: MasterKey,
}

impl DH {
    fn backends(&self) -> RepositoryBackends {
        RepositoryBackends::new(Arc::new(self.be.clone()), None)
    }
    fn opts() -> RepositoryOptions {
        RepositoryOptions::default().no_cache(true)
    }
    pub fn init(be: DelayBackend, cfg: &ConfigOptions) -> RusticResult<Self> {
        let h = Self { be, key: MasterKey::new() };
        let repo = Repository::new(&Self::opts(), &h.backends())?;
        let _ = repo.init(&Credentials::Masterkey(h.key.clone()), &KeyOptions::default(), cfg)?;
        Ok(h)
    }
    pub fn open(&self) -> RusticResult<Repository<OpenStatus>> {
        Repository::new(&Self::opts(), &self.backends())?.open(&Credentials::Masterkey(self.key.clone()))
    }
}

/// Run `f` on its own thread; `None` after `secs` seconds (the thread is left behind).
fn watchdog<T: Send + 'static>(secs: u64, f: impl FnOnce() -> T + Send + 'static) -> Option<T> {
    let (tx, rx) = std::sync::mpsc::channel();
    _ = std::thread::spawn(move || {
        let r = std::panic::catch_unwind(std::panic::AssertUnwindSafe(f));
        _ = tx.send(r);
    });
    match rx.recv_timeout(Duration::from_secs(secs)) {
        Ok(Ok(v)) => Some(v),
        Ok(Err(e)) => std::panic::resume_unwind(e),
        Err(_) => None,
    }
}

/// Which rayon pool the real commands of a run use (`par_iter`, `par_sort`, `par_bridge`, `rayon::spawn`).
#[derive(Clone, Copy, Debug, PartialEq, Eq)]
enum Pool {
    /// field missing or `0`: this process's default pool (one worker per CPU), caller outside the pool
    Default,
    /// `<n>`: in-process `ThreadPoolBuilder::num_threads(n)…install(..)` — the caller itself is one of the n workers
    Installed(usize),
    /// `g<n>`: a child `vh exec` with `RAYON_NUM_THREADS=n` — the global pool has n workers, the caller is outside it —
    /// and CPU affinity restricted to n CPUs (so `available_parallelism()` = n: pariter's `parallel_map` stages get n threads)
    Global(usize),
}

fn parse_pool(s: &str) -> Option<Pool> {
    let (g, num) = match s.strip_prefix('g') {
        Some(r) => (true, r),
        None => (false, s),
    };
    if num.is_empty() || !num.bytes().all(|b| b.is_ascii_digit()) {
        return None;
    }
    let n: usize = num.parse().ok().filter(|n| *n <= 64)?;
    match (g, n) {
        (false, 0) => Some(Pool::Default),
        (true, 0) => None,
        (false, n) => Some(Pool::Installed(n)),
        (true, n) => Some(Pool::Global(n)),
    }
}

/// Run `f` inside a dedicated rayon pool of `threads` workers (`0`: no pool switch).
fn in_pool<T: Send>(threads: usize, f: impl FnOnce() -> T + Send) -> T {
    if threads == 0 {
        return f();
    }
    rayon::ThreadPoolBuilder::new().num_threads(threads).build().unwrap().install(f)
}

/// Execute one op line in a child `vh exec` whose global rayon pool has `threads` workers.  `Err("timeout")` = no answer
/// within `secs` seconds (the child is killed); `Err("child-…")` = the child could not be run at all (harness trouble,
/// reported as such — never as a timeout).
fn in_child(threads: usize, secs: u64, line: &str) -> Result<String, String> {
    use std::io::{Read, Write};
    use std::process::{Command, Stdio};
    // the running image itself (survives a rebuild that replaces the file on disk)
    let exe = if std::path::Path::new("/proc/self/exe").exists() {
        PathBuf::from(format!("/proc/{}/exe", std::process::id()))
    } else {
        std::env::current_exe().map_err(|e| format!("child-no-exe:{:?}", e.kind()))?
    };
    // restrict the child to `threads` CPUs as well (when `taskset` exists and that many CPUs are there): the stages
    // sized by `std::thread::available_parallelism()` (pariter's `parallel_map` in the packer pipeline and the archiver)
    // then run with `threads` workers too
    let ncpu = std::thread::available_parallelism().map_or(1, std::num::NonZero::get);
    let cpus = (threads <= ncpu).then(|| {
        let off = line.len() % ncpu;
        (0..threads).map(|i| ((off + i) % ncpu).to_string()).collect::<Vec<_>>().join(",")
    });
    let spawn = |affinity: Option<&String>| {
        let mut cmd = match affinity {
            Some(list) => {
                let mut c = Command::new("taskset");
                _ = c.arg("-c").arg(list).arg(&exe);
                c
            }
            None => Command::new(&exe),
        };
        cmd.arg("exec").env("RAYON_NUM_THREADS", threads.to_string()).stdin(Stdio::piped()).stdout(Stdio::piped()).stderr(Stdio::null()).spawn()
    };
    let mut tries = 0;
    let mut affinity = cpus.as_ref();
    let mut child = loop {
        match spawn(affinity) {
            Ok(c) => break c,
            // no `taskset`: run without the CPU restriction
            Err(e) if affinity.is_some() && e.kind() == std::io::ErrorKind::NotFound => affinity = None,
            // EAGAIN under load: wait and retry
            Err(_) if tries < 20 => {
                tries += 1;
                std::thread::sleep(Duration::from_millis(100));
            }
            Err(e) => return Err(format!("child-spawn-failed:{:?}", e.kind())),
        }
    };
    {
        let mut stdin = child.stdin.take().ok_or("child-no-stdin")?;
        stdin.write_all(line.as_bytes()).and_then(|()| stdin.write_all(b"\n")).map_err(|e| format!("child-write-failed:{:?}", e.kind()))?;
    }
    let mut stdout = child.stdout.take().ok_or("child-no-stdout")?;
    let reader = std::thread::spawn(move || {
        let mut out = String::new();
        _ = stdout.read_to_string(&mut out);
        out
    });
    let t0 = std::time::Instant::now();
    loop {
        match child.try_wait() {
            Ok(Some(_)) => break,
            Ok(None) if t0.elapsed() < Duration::from_secs(secs) => std::thread::sleep(Duration::from_millis(3)),
            _ => {
                _ = child.kill();
                _ = child.wait();
                return Err("timeout".into());
            }
        }
    }
    let out = reader.join().map_err(|_| "child-reader-panicked".to_string())?;
    out.lines().next().map(ToString::to_string).ok_or_else(|| "child-no-output".to_string())
}

/// `<seed>` or `<seed>.<pool>`
/// `seed[.pool[.watchdog-seconds]]` (the watchdog defaults to 60 s; a shorter one keeps a witness of a hang cheap to replay)
fn parse_seed_pool(s: &str) -> Option<(u64, Pool, u64)> {
    let f: Vec<&str> = s.split('.').collect();
    match f.as_slice() {
        [a] => Some((a.parse().ok()?, Pool::Default, 60)),
        [a, b] => Some((a.parse().ok()?, parse_pool(b)?, 60)),
        [a, b, w] => Some((a.parse().ok()?, parse_pool(b)?, w.parse().ok().filter(|w| (1..=600).contains(w))?)),
        _ => None,
    }
}

macro_rules! tryk {
    ($e:expr) => {
        match $e {
            Ok(x) => x,
            Err(e) => return crate::util::errkind(&e),
        }
    };
}

// ------------------------------------------------------------------------------------------------
// stream

fn parse_forest(s: &str) -> Option<Vec<(u64, Vec<u64>)>> {
    if s == "-" {
        return Some(vec![]);
    }
    s.split(';')
        .map(|t| {
            let (id, cs) = t.split_once('=')?;
            let cs = if cs.is_empty() { Some(vec![]) } else { cs.split('.').map(|x| x.parse::<u64>().ok()).collect::<Option<Vec<_>>>() }?;
            Some((id.parse::<u64>().ok()?, cs))
        })
        .collect()
}

const TAG_TREE: u8 = 0x7E;

fn forest_tree(label: u64, children: &[u64]) -> Tree {
    let mut nodes = vec![Node::new_node(&OsString::from(format!("id{label}")), NodeType::File, Metadata::default())];
    for (i, c) in children.iter().enumerate() {
        let mut n = Node::new_node(&OsString::from(format!("n{i}")), NodeType::Dir, Metadata::default());
        n.subtree = Some(TreeId::from(fake_id(*c, TAG_TREE)));
        nodes.push(n);
    }
    Tree { nodes }
}

fn store_forest(h: &DH, forest: &[(u64, Vec<u64>)]) -> RusticResult<()> {
    let repo = h.open()?;
    let mut seen = BTreeSet::new();
    let mut blobs = vec![];
    for (id, cs) in forest {
        if !seen.insert(*id) {
            continue;
        }
        let (chunk, _) = forest_tree(*id, cs).serialize().unwrap();
        blobs.push((BlobType::Tree, chunk, BlobId::from(fake_id(*id, TAG_TREE))));
    }
    _ = rustic_core::verif::packer::pack_blobs(&repo, blobs)?;
    Ok(())
}

fn exec_stream(seed: &str, forest: &str, roots: &str) -> String {
    let (Some((seed, pool, wd_secs)), Some(forest_v)) = (parse_seed_pool(seed), parse_forest(forest)) else {
        return "bad-op".into();
    };
    let threads = match pool {
        Pool::Default => 0,
        Pool::Installed(n) => n,
        Pool::Global(n) => {
            if roots != "-" && roots.split(',').any(|x| x.parse::<u64>().is_err()) {
                return "bad-op".into();
            }
            return match in_child(n, 90, &format!("c13 stream {seed} {forest} {roots}")) {
                Ok(s) => s,
                Err(e) if e == "timeout" => "oracle-fail:timeout".into(),
                Err(e) => e,
            };
        }
    };
    let forest = forest_v;
    let roots: Vec<u64> = if roots == "-" {
        vec![]
    } else {
        match roots.split(',').map(|x| x.parse::<u64>().ok()).collect::<Option<Vec<_>>>() {
            Some(v) => v,
            None => return "bad-op".into(),
        }
    };
    let cfg = ConfigOptions::default().set_treepack_size(bytesize::ByteSize(1)).set_treepack_growfactor(0u32);
    let h = tryk!(DH::init(DelayBackend::new(seed, 0), &cfg));
    tryk!(store_forest(&h, &forest));
    let mut hd = h.clone();
    hd.be.max_us = if seed % 3 == 0 { 0 } else { 3000 };
    let ids: Vec<TreeId> = roots.iter().map(|l| TreeId::from(fake_id(*l, TAG_TREE))).collect();
    let res = watchdog(wd_secs, move || -> Result<Vec<String>, String> {
      in_pool(threads, move || {
        let repo = hd.open().and_then(|r| r.to_indexed_ids()).map_err(|e| crate::util::errkind(&e))?;
        let items = rustic_core::verif::tree::stream_once(&repo, ids).map_err(|e| crate::util::errkind(&e))?;
        let mut out = vec![];
        for it in items {
            match it {
                Ok((_, tree)) => out.push(tree.nodes.first().map(|n| n.name.clone()).unwrap_or_default()),
                Err(e) => return Err(crate::util::errkind(&e)),
            }
        }
        Ok(out)
      })
    });
    match res {
        None => "oracle-fail:timeout".into(),
        Some(Err(e)) => e,
        Some(Ok(names)) => {
            let mut labels: Vec<u64> = names.iter().filter_map(|n| n.strip_prefix("id").and_then(|x| x.parse().ok())).collect();
            let n = labels.len();
            labels.sort_unstable();
            labels.dedup();
            if labels.len() != n || n != names.len() {
                return "oracle-fail:tree-yielded-twice".into();
            }
            format!("ok {}", if labels.is_empty() { "-".into() } else { labels.iter().map(u64::to_string).collect::<Vec<_>>().join(",") })
        }
    }
}

// ------------------------------------------------------------------------------------------------
// run / hist

/// run token `seed.dpack.tpack[.pool]`; pool: missing/`0` default pool, `<n>` installed pool, `g<n>` child with global pool
fn parse_runs(s: &str) -> Option<Vec<(u64, u64, u64, Pool)>> {
    s.split(',')
        .map(|t| {
            let f: Vec<&str> = t.split('.').collect();
            let pool = match f.len() {
                3 => Pool::Default,
                4 => parse_pool(f[3])?,
                _ => return None,
            };
            Some((f[0].parse().ok()?, f[1].parse().ok()?, f[2].parse().ok()?, pool))
        })
        .collect()
}

fn run_cfg(dsize: u64, tsize: u64) -> ConfigOptions {
    fixed64_config()
        .set_datapack_size(bytesize::ByteSize(dsize))
        .set_treepack_size(bytesize::ByteSize(tsize))
        .set_datapack_growfactor(0u32)
        .set_treepack_growfactor(0u32)
}

/// (packs in storage, packs listed by the index files, keys listed)
fn storage_vs_index(h: &DH) -> RusticResult<(BTreeSet<Id>, BTreeSet<Id>, BTreeMap<(u8, Id), usize>)> {
    let repo = h.open()?;
    let mut packs = BTreeSet::new();
    let mut keys = BTreeMap::new();
    for f in repo.stream_files::<IndexFile>()? {
        let (_, f) = f?;
        for p in &f.packs {
            _ = packs.insert(*p.id);
            for b in &p.blobs {
                *keys.entry((u8::from(b.tpe == BlobType::Tree), *b.id)).or_insert(0) += 1;
            }
        }
        for p in &f.packs_to_delete {
            _ = packs.insert(*p.id);
        }
    }
    let stored: BTreeSet<Id> = h.be.inner.ids(FileType::Pack).into_iter().collect();
    Ok((stored, packs, keys))
}

/// every (type, id) a snapshot references
fn referenced<S: IndexedFull>(repo: &Repository<S>, root: TreeId) -> RusticResult<BTreeSet<(u8, Id)>> {
    let mut out = BTreeSet::new();
    let mut todo = vec![root];
    while let Some(t) = todo.pop() {
        if !out.insert((1u8, *t)) {
            continue;
        }
        for n in repo.get_tree(&t)?.nodes {
            if let Some(c) = &n.content {
                for d in c {
                    _ = out.insert((0u8, **d));
                }
            }
            if let Some(st) = n.subtree {
                todo.push(st);
            }
        }
    }
    Ok(out)
}

fn check_kinds(h: &DH) -> Option<Vec<String>> {
    let repo = h.open().ok()?;
    let res = repo.check(CheckOptions::default().read_data(true)).ok()?;
    let mut v: Vec<String> = res
        .0
        .iter()
        .filter(|(l, _)| format!("{l:?}") == "Error")
        .map(|(_, e)| format!("{e:?}").split(|c: char| !c.is_alphanumeric()).next().unwrap_or("?").to_string())
        .collect();
    v.sort();
    Some(v)
}

fn reads_back(h: &DH, snap: &SnapshotFile, src: &[SE]) -> Result<bool, String> {
    use crate::dispatch::c11::{K, ROOT_TIME};
    let repo = h.open().and_then(|r| r.to_indexed()).map_err(|e| crate::util::errkind(&e))?;
    let got = crate::repo::read_back(&repo, snap).map_err(|e| crate::util::errkind(&e))?;
    let mut exp: Vec<(Vec<u8>, String, Option<Vec<u8>>, Option<i64>)> = vec![(b"src".to_vec(), "dir".into(), None, Some(ROOT_TIME))];
    for e in src {
        let mut p = b"src".to_vec();
        for c in &e.path {
            p.push(b'/');
            p.extend_from_slice(c);
        }
        let (k, c) = match &e.kind {
            K::File => ("file", Some(e.bytes())),
            K::Dir => ("dir", None),
            K::Link(_) => ("symlink", None),
            K::Other(_) => ("other", None),
        };
        exp.push((p, k.into(), c, Some(e.mtime)));
    }
    let mut gotv: Vec<_> = got.into_iter().map(|r| (r.path, r.kind, r.content, r.mtime_s)).collect();
    gotv.sort();
    exp.sort();
    Ok(gotv == exp)
}

/// the per-run oracles on a finished repository state
fn state_oracles(h: &DH, snap: &SnapshotFile, src: &[SE], k: usize) -> Result<BTreeSet<(u8, Id)>, String> {
    let (stored, indexed, _) = storage_vs_index(h).map_err(|e| crate::util::errkind(&e))?;
    if stored != indexed {
        return Err(format!("oracle-fail:run{k}:packs-in-storage-vs-index:{}:{}", stored.len(), indexed.len()));
    }
    match check_kinds(h) {
        Some(v) if v.is_empty() => {}
        Some(v) => return Err(format!("oracle-fail:run{k}:check-errors:{}", v.join("+"))),
        None => return Err(format!("oracle-fail:run{k}:check-failed")),
    }
    match reads_back(h, snap, src) {
        Ok(true) => {}
        Ok(false) => return Err(format!("oracle-fail:run{k}:snapshot-differs-from-source")),
        Err(e) => return Err(format!("oracle-fail:run{k}:snapshot-unreadable:{e}")),
    }
    let repo = h.open().and_then(|r| r.to_indexed()).map_err(|e| crate::util::errkind(&e))?;
    referenced(&repo, snap.tree).map_err(|e| crate::util::errkind(&e))
}

type RunResult = Result<(Id, BTreeSet<(u8, Id)>), String>;

/// One run in this process: the commands and then the oracles, both inside a pool of `threads` workers (0: as is),
/// each under a watchdog.  `Ok((tree id, referenced (type, id) set))` or the observation to report.
fn one_run(sa: &[SE], sb: Option<&[SE]>, seed: u64, dsize: u64, tsize: u64, threads: usize, k: usize) -> RunResult {
    let (sa2, sb2) = (sa.to_vec(), sb.map(<[SE]>::to_vec));
    let res = watchdog(120, move || -> Result<(DH, SnapshotFile), String> {
        in_pool(threads, move || {
            let h = DH::init(DelayBackend::new(seed, if seed == 0 { 0 } else { 1500 }), &run_cfg(dsize, tsize)).map_err(|e| crate::util::errkind(&e))?;
            let force = BackupOptions::default().parent_opts(ParentOptions::default().force(true));
            let repo = h.open().and_then(|r| r.to_indexed_ids()).map_err(|e| crate::util::errkind(&e))?;
            let snap_a = repo
                .archive(&force, &LogSource::new(sa2.clone()), new_snap(), &[PathBuf::from(SRC_ROOT)])
                .map_err(|e| crate::util::errkind(&e))?;
            drop(repo);
            let Some(sb2) = sb2 else {
                return Ok((h, snap_a));
            };
            std::thread::sleep(Duration::from_millis(2));
            let repo = h.open().and_then(|r| r.to_indexed_ids()).map_err(|e| crate::util::errkind(&e))?;
            let snap_b = repo
                .archive(&BackupOptions::default(), &LogSource::new(sb2), new_snap(), &[PathBuf::from(SRC_ROOT)])
                .map_err(|e| crate::util::errkind(&e))?;
            drop(repo);
            // forget A, prune with repacking allowed and no grace periods
            let repo = h.open().map_err(|e| crate::util::errkind(&e))?;
            repo.delete_snapshots(&[snap_a.id]).map_err(|e| crate::util::errkind(&e))?;
            let popts = PruneOptions::default()
                .keep_pack(rustic_core::jiff::Span::new())
                .keep_delete(rustic_core::jiff::Span::new())
                .instant_delete(true);
            let repo = repo.to_indexed_ids().map_err(|e| crate::util::errkind(&e))?;
            let plan = repo.prune_plan(&popts).map_err(|e| crate::util::errkind(&e))?;
            repo.prune(&popts, plan).map_err(|e| crate::util::errkind(&e))?;
            Ok((h, snap_b))
        })
    });
    let (h, snap) = match res {
        None => return Err(format!("oracle-fail:run{k}:timeout")),
        Some(Err(e)) => return Err(format!("run{k}:{e}")),
        Some(Ok(x)) => x,
    };
    // the oracles (`check --read-data`, reading the snapshot back) are real commands too: same pool, own watchdog
    let src_final = sb.unwrap_or(sa).to_vec();
    let mut hq = h.clone();
    hq.be.max_us = 0;
    let snap2 = snap.clone();
    match watchdog(120, move || in_pool(threads, move || state_oracles(&hq, &snap2, &src_final, k))) {
        None => Err(format!("oracle-fail:run{k}:oracle-timeout")),
        Some(Ok(r)) => Ok((*snap.tree, r)),
        Some(Err(e)) => Err(e),
    }
}

fn enc_result(r: &RunResult) -> String {
    match r {
        Err(e) => e.clone(),
        Ok((t, refs)) => format!(
            "solo {} {}",
            t.to_hex().as_str(),
            refs.iter().map(|(ty, id)| format!("{ty}:{}", id.to_hex().as_str())).collect::<Vec<_>>().join(",")
        ),
    }
}

fn dec_result(s: &str) -> RunResult {
    let bad = || Err(format!("child:{s}"));
    let f: Vec<&str> = s.split(' ').collect();
    if f.len() != 3 || f[0] != "solo" {
        // the child's own observation (`oracle-fail:run<k>:…`, `run<k>:err:…`, `panic:…`)
        return Err(s.to_string());
    }
    let Ok(t) = f[1].parse::<Id>() else { return bad() };
    let mut refs = BTreeSet::new();
    for x in f[2].split(',') {
        let Some((ty, id)) = x.split_once(':') else { return bad() };
        let (Ok(ty), Ok(id)) = (ty.parse::<u8>(), id.parse::<Id>()) else { return bad() };
        _ = refs.insert((ty, id));
    }
    Ok((t, refs))
}

/// `c13 solo <k> <src A> <src B|~> <seed.dpack.tpack>`: one run in this process's default pool (the child side of `g<n>`)
fn exec_solo(k: &str, a: &str, b: &str, run: &str) -> String {
    let (Ok(k), Some(sa), Some(runs)) = (k.parse::<usize>(), parse_src(a), parse_runs(run)) else {
        return "bad-op".into();
    };
    let sb = if b == "~" { None } else { parse_src(b) };
    if (b != "~" && sb.is_none()) || runs.len() != 1 || runs[0].3 != Pool::Default {
        return "bad-op".into();
    }
    let (seed, dsize, tsize, _) = runs[0];
    enc_result(&one_run(&sa, sb.as_deref(), seed, dsize, tsize, 0, k))
}

fn exec_run(src: &str, runs: &str, src_b: Option<&str>) -> String {
    let (Some(sa), Some(runs)) = (parse_src(src), parse_runs(runs)) else {
        return "bad-op".into();
    };
    let sb = match src_b {
        None => None,
        Some(b) => match parse_src(b) {
            Some(v) => Some(v),
            None => return "bad-op".into(),
        },
    };
    let mut first: Option<(Id, BTreeSet<(u8, Id)>)> = None;
    for (k, (seed, dsize, tsize, pool)) in runs.iter().enumerate() {
        let res = match *pool {
            Pool::Default => one_run(&sa, sb.as_deref(), *seed, *dsize, *tsize, 0, k),
            Pool::Installed(n) => one_run(&sa, sb.as_deref(), *seed, *dsize, *tsize, n, k),
            Pool::Global(n) => {
                let line = format!("c13 solo {k} {src} {} {seed}.{dsize}.{tsize}", src_b.unwrap_or("~"));
                match in_child(n, 300, &line) {
                    Ok(s) => dec_result(&s),
                    Err(e) if e == "timeout" => Err(format!("oracle-fail:run{k}:timeout")),
                    Err(e) => Err(format!("run{k}:{e}")),
                }
            }
        };
        let (tree, refs) = match res {
            Ok(x) => x,
            Err(e) => return e,
        };
        match &first {
            None => first = Some((tree, refs)),
            Some((t0, r0)) => {
                if *t0 != tree {
                    return format!("oracle-fail:run{k}:tree-id-differs");
                }
                if *r0 != refs {
                    return format!("oracle-fail:run{k}:referenced-blobs-differ");
                }
            }
        }
    }
    let (_, refs) = first.unwrap();
    format!(
        "ok runs={} trees={} data={}",
        runs.len(),
        refs.iter().filter(|(t, _)| *t == 1).count(),
        refs.iter().filter(|(t, _)| *t == 0).count()
    )
}

// ------------------------------------------------------------------------------------------------
// chk: aborted tree stream + slow reads

fn exec_chk(delay_ms: &str) -> String {
    let Ok(delay_ms) = delay_ms.parse::<u64>() else {
        return "bad-op".into();
    };
    // a root with three sub-trees; the label 99 is referenced but not stored
    let forest: Vec<(u64, Vec<u64>)> = vec![(1, vec![2, 99, 3, 4]), (2, vec![5]), (3, vec![]), (4, vec![6]), (5, vec![]), (6, vec![])];
    let cfg = ConfigOptions::default().set_treepack_size(bytesize::ByteSize(1)).set_treepack_growfactor(0u32);
    let h = tryk!(DH::init(DelayBackend::new(7, 0), &cfg));
    tryk!(store_forest(&h, &forest));
    // a snapshot pointing at the root
    {
        let repo = tryk!(h.open());
        let mut snap = new_snap();
        snap.tree = TreeId::from(fake_id(1, TAG_TREE));
        tryk!(rustic_core::verif::repository::save_file(&repo, &snap));
    }
    let mut hd = h.clone();
    // constant delay: every read sleeps delay_ms
    hd.be = DelayBackend { inner: h.be.inner.clone(), seed: 0, max_us: 0, calls: h.be.calls.clone() };
    let slow = SlowReads { inner: hd.be.clone(), ms: delay_ms };
    let key = h.key.clone();
    let res = watchdog(60, move || -> Result<usize, String> {
        let backends = RepositoryBackends::new(Arc::new(slow), None);
        let repo = Repository::new(&DH::opts(), &backends)
            .and_then(|r| r.open(&Credentials::Masterkey(key)))
            .map_err(|e| crate::util::errkind(&e))?;
        let res = repo.check(CheckOptions::default().read_data(true)).map_err(|e| crate::util::errkind(&e))?;
        Ok(res.0.iter().filter(|(l, _)| format!("{l:?}") == "Error").count())
    });
    match res {
        None => "oracle-fail:timeout".into(),
        Some(Err(e)) => e,
        Some(Ok(0)) => "oracle-fail:missing-tree-not-reported".into(),
        Some(Ok(_)) => "ok errors>0".into(),
    }
}

/// pack reads sleep a fixed time (tree loads in flight outlive an early end of the stream)
#[derive(Clone, Debug)]
struct SlowReads {
    inner: DelayBackend,
    ms: u64,
}
impl ReadBackend for SlowReads {
    fn location(&self) -> String {
        "slow".into()
    }
    fn warmup_path(&self, tpe: FileType, id: &Id) -> String {
        self.inner.warmup_path(tpe, id)
    }
    fn list_with_size(&self, tpe: FileType) -> RusticResult<Vec<(Id, u32)>> {
        self.inner.list_with_size(tpe)
    }
    fn read_full(&self, tpe: FileType, id: &Id) -> RusticResult<Bytes> {
        if tpe == FileType::Pack {
            std::thread::sleep(Duration::from_millis(self.ms));
        }
        self.inner.read_full(tpe, id)
    }
    fn read_partial(&self, tpe: FileType, id: &Id, cacheable: bool, offset: u32, length: u32) -> RusticResult<Bytes> {
        if tpe == FileType::Pack {
            std::thread::sleep(Duration::from_millis(self.ms));
        }
        self.inner.read_partial(tpe, id, cacheable, offset, length)
    }
}
impl WriteBackend for SlowReads {
    fn create(&self) -> RusticResult<()> {
        Ok(())
    }
    fn write_bytes(&self, tpe: FileType, id: &Id, cacheable: bool, buf: BytesList) -> RusticResult<()> {
        self.inner.write_bytes(tpe, id, cacheable, buf)
    }
    fn remove(&self, tpe: FileType, id: &Id, cacheable: bool) -> RusticResult<()> {
        self.inner.remove(tpe, id, cacheable)
    }
}

// ------------------------------------------------------------------------------------------------
// generator

fn gen_stream(rng: &mut Rng, stats: &mut Stats) -> String {
    let n = 1 + rng.below(14);
    let mut forest: Vec<(u64, Vec<u64>)> = vec![];
    for id in 1..=n {
        // children have larger labels: a DAG (trees are content addressed, cycles cannot exist)
        let k = if id == n { 0 } else { rng.below(4) };
        let cs: Vec<u64> = (0..k).map(|_| rng.range(id + 1, n)).collect();
        forest.push((id, cs));
    }
    let n_roots = rng.below(4);
    let roots: Vec<u64> = (0..n_roots).map(|_| rng.range(1, n)).collect();
    stats.add("c13.stream.trees", n);
    stats.hit(format!("c13.stream.roots.{n_roots}"));
    let seed = rng.below(1000);
    // the streamer's four loaders are std threads; the pool governs the index loading of the op
    let threads = gen_pool(rng, stats);
    format!(
        "c13 stream {seed}.{threads} {} {}",
        forest.iter().map(|(i, cs)| format!("{i}={}", cs.iter().map(u64::to_string).collect::<Vec<_>>().join("."))).collect::<Vec<_>>().join(";"),
        if roots.is_empty() { "-".into() } else { roots.iter().map(u64::to_string).collect::<Vec<_>>().join(",") }
    )
}

/// rayon pool of one run, sizes 1..=16 with the extremes over-represented.  `g<n>`: child process with a global pool
/// of n workers (the caller is outside the pool, as in the `rustic` binary with `RAYON_NUM_THREADS=n`); `<n>`: the
/// commands run inside `ThreadPool::install` of an n-worker pool (the caller is one of the workers) — n ≥ 2 only:
/// with n = 1 the sole worker blocks in `stream_list`'s receiver and its `rayon::spawn`ed producer never starts.
fn gen_pool(rng: &mut Rng, stats: &mut Stats) -> String {
    let t = match rng.below(8) {
        0 | 1 => 1,
        2 => 2,
        3 => 16,
        _ => rng.range(1, 16),
    };
    let global = t == 1 || rng.chance(1, 3);
    stats.hit(format!("c13.pool.{}{t}", if global { "g" } else { "" }));
    format!("{}{t}", if global { "g" } else { "" })
}

fn gen_runs(rng: &mut Rng, n: usize, stats: &mut Stats) -> String {
    let sizes = [1u64, 1, 200, 5000, 4_000_000];
    // run 0: undelayed, default packs, default pool
    let mut v = vec![format!("0.{}.{}.0", sizes[4], sizes[4])];
    for _ in 1..n {
        v.push(format!("{}.{}.{}.{}", 1 + rng.below(10_000), rng.pick(&sizes), rng.pick(&sizes), gen_pool(rng, stats)));
    }
    v.join(",")
}

fn gen_src_pair(rng: &mut Rng, stats: &mut Stats) -> (Vec<SE>, Vec<SE>) {
    use crate::dispatch::c11::{flatten, gen_t, mutate_children, T};
    let mut inode = 10;
    let n = 1 + rng.below(4);
    let mut names: Vec<Vec<u8>> = [b"a".to_vec(), b"b".to_vec(), b"c".to_vec(), b"d".to_vec(), b"e".to_vec()].into_iter().take(n as usize + 1).collect();
    names.sort();
    let a: Vec<(Vec<u8>, T)> = names.into_iter().map(|nm| (nm, gen_t(rng, 2, &mut inode))).collect();
    let b = mutate_children(rng, &a, 2, &mut inode, true, stats);
    let (mut fa, mut fb) = (vec![], vec![]);
    flatten(&a, &[], &mut fa);
    flatten(&b, &[], &mut fb);
    (fa, fb)
}

pub fn generate(thorough: bool, rng: &mut Rng, ops: &mut Vec<String>, stats: &mut Stats) {
    use crate::dispatch::c11::enc_src;
    for _ in 0..(if thorough { 3000 } else { 250 }) {
        let mut r = rng.fork();
        ops.push(gen_stream(&mut r, stats));
    }
    for _ in 0..(if thorough { 300 } else { 25 }) {
        let mut r = rng.fork();
        let (a, _) = gen_src_pair(&mut r, stats);
        stats.hit("c13.run");
        ops.push(format!("c13 run {} {}", enc_src(&a), gen_runs(&mut r, if thorough { 5 } else { 3 }, stats)));
    }
    for _ in 0..(if thorough { 200 } else { 12 }) {
        let mut r = rng.fork();
        let (a, b) = gen_src_pair(&mut r, stats);
        stats.hit("c13.hist");
        ops.push(format!("c13 hist {} {} {}", enc_src(&a), enc_src(&b), gen_runs(&mut r, if thorough { 4 } else { 3 }, stats)));
    }
    ops.push("c13 chk 250".into());
}

pub fn exec(t: &[&str]) -> String {
    let t: Vec<String> = t.iter().map(|s| (*s).to_string()).collect();
    guarded(move || match t.iter().map(String::as_str).collect::<Vec<_>>().as_slice() {
        ["stream", seed, forest, roots] => exec_stream(seed, forest, roots),
        ["run", src, runs] => exec_run(src, runs, None),
        ["hist", a, b, runs] => exec_run(a, runs, Some(b)),
        ["solo", k, a, b, run] => exec_solo(k, a, b, run),
        ["chk", ms] => exec_chk(ms),
        _ => "bad-op".into(),
    })
}
