//! C18 — configurations: real `ConfigOptions::apply`, `check_rabin_params` (hook), `ConfigFile` getters,
//! `PackSizer::pack_size` (hook), `Repository::{init, apply_config}` sequences on an in-memory backend, and
//! panic-catching smoke runs (init → backup ×2 → check → restore → forget → prune_plan → prune → check → restore)
//! over boundary values, vs. the Lean model (`Model/Config.lean`).
//!
//!   c18 apply <cfg> <opts>      c18 rabin <size> <min> <max>      c18 getters <cfg>
//!   c18 packsize <cfg> <t|d> <cur>      c18 seq <opts>;<opts>;…      c18 smoke <opts>[;<opts>…] <mu> <mr> <r|-> <seed>
//!   c18 limits <mu> <mr> <flags a|u|-> <pack>,<pack>…     pack = <t|d><m|-><u|n><len>+<u|n><len>…
//! cfg/opts: comma list of key=value over v ck cs cmin cmax hot ao co ts tg tl ds dg dl minp maxp ev ("-" = none)
//! limits (mu = max_unused, mr = max_repack): u | s<bytes> | p<percent>
use crate::repo::{MemBackend, MemSource, RepoHandle, SRC_ROOT, SrcEntry, expected, read_back};
use crate::util::{Rng, Stats, errkind, guarded};
use bytesize::ByteSize;
use rustic_core::repofile::{BlobType, Chunker, ConfigFile, FileType, SnapshotFile};
use rustic_core::{BackupOptions, CheckOptions, ConfigOptions, LimitOption, PruneOptions, RusticResult};
use std::sync::Mutex;

const POLY: u64 = 0x003D_A335_8B4D_C173;

fn kv(s: &str) -> Option<Vec<(&str, &str)>> {
    if s == "-" {
        return Some(vec![]);
    }
    s.split(',').map(|t| t.split_once('=')).collect()
}
fn p_bool(s: &str) -> Option<bool> {
    match s {
        "1" => Some(true),
        "0" => Some(false),
        _ => None,
    }
}
fn p_chunker(s: &str) -> Option<Chunker> {
    match s {
        "r" => Some(Chunker::Rabin),
        "f" => Some(Chunker::FixedSize),
        _ => None,
    }
}

fn parse_cfg(s: &str) -> Option<ConfigFile> {
    let mut c = ConfigFile::new(0, Default::default(), POLY);
    for (k, v) in kv(s)? {
        match k {
            "v" => c.version = v.parse().ok()?,
            "ck" => c.chunker = Some(p_chunker(v)?),
            "cs" => c.chunk_size = Some(v.parse().ok()?),
            "cmin" => c.chunk_min_size = Some(v.parse().ok()?),
            "cmax" => c.chunk_max_size = Some(v.parse().ok()?),
            "hot" => c.is_hot = Some(p_bool(v)?),
            "ao" => c.append_only = Some(p_bool(v)?),
            "co" => c.compression = Some(v.parse().ok()?),
            "ts" => c.treepack_size = Some(v.parse().ok()?),
            "tg" => c.treepack_growfactor = Some(v.parse().ok()?),
            "tl" => c.treepack_size_limit = Some(v.parse().ok()?),
            "ds" => c.datapack_size = Some(v.parse().ok()?),
            "dg" => c.datapack_growfactor = Some(v.parse().ok()?),
            "dl" => c.datapack_size_limit = Some(v.parse().ok()?),
            "minp" => c.min_packsize_tolerate_percent = Some(v.parse().ok()?),
            "maxp" => c.max_packsize_tolerate_percent = Some(v.parse().ok()?),
            "ev" => c.extra_verify = Some(p_bool(v)?),
            _ => return None,
        }
    }
    Some(c)
}

fn parse_opts(s: &str) -> Option<ConfigOptions> {
    let mut o = ConfigOptions::default();
    for (k, v) in kv(s)? {
        let size = || v.parse::<u64>().ok().map(ByteSize);
        match k {
            "v" => o.set_version = Some(v.parse().ok()?),
            "ck" => o.set_chunker = Some(p_chunker(v)?),
            "cs" => o.set_chunk_size = Some(size()?),
            "cmin" => o.set_chunk_min_size = Some(size()?),
            "cmax" => o.set_chunk_max_size = Some(size()?),
            "ao" => o.set_append_only = Some(p_bool(v)?),
            "co" => o.set_compression = Some(v.parse().ok()?),
            "ts" => o.set_treepack_size = Some(size()?),
            "tg" => o.set_treepack_growfactor = Some(v.parse().ok()?),
            "tl" => o.set_treepack_size_limit = Some(size()?),
            "ds" => o.set_datapack_size = Some(size()?),
            "dg" => o.set_datapack_growfactor = Some(v.parse().ok()?),
            "dl" => o.set_datapack_size_limit = Some(size()?),
            "minp" => o.set_min_packsize_tolerate_percent = Some(v.parse().ok()?),
            "maxp" => o.set_max_packsize_tolerate_percent = Some(v.parse().ok()?),
            "ev" => o.set_extra_verify = Some(p_bool(v)?),
            _ => return None,
        }
    }
    Some(o)
}

fn s_bool(b: bool) -> &'static str {
    if b { "1" } else { "0" }
}
fn s_chunker(c: Chunker) -> &'static str {
    match c {
        Chunker::Rabin => "r",
        Chunker::FixedSize => "f",
    }
}

fn show_cfg(c: &ConfigFile) -> String {
    let mut v = vec![format!("v={}", c.version)];
    macro_rules! f {
        ($k:expr, $x:expr, $sh:expr) => {
            if let Some(x) = $x {
                v.push(format!("{}={}", $k, $sh(x)));
            }
        };
    }
    f!("ck", c.chunker, s_chunker);
    f!("cs", c.chunk_size, |x: usize| x.to_string());
    f!("cmin", c.chunk_min_size, |x: usize| x.to_string());
    f!("cmax", c.chunk_max_size, |x: usize| x.to_string());
    f!("hot", c.is_hot, s_bool);
    f!("ao", c.append_only, s_bool);
    f!("co", c.compression, |x: i32| x.to_string());
    f!("ts", c.treepack_size, |x: u32| x.to_string());
    f!("tg", c.treepack_growfactor, |x: u32| x.to_string());
    f!("tl", c.treepack_size_limit, |x: u32| x.to_string());
    f!("ds", c.datapack_size, |x: u32| x.to_string());
    f!("dg", c.datapack_growfactor, |x: u32| x.to_string());
    f!("dl", c.datapack_size_limit, |x: u32| x.to_string());
    f!("minp", c.min_packsize_tolerate_percent, |x: u32| x.to_string());
    f!("maxp", c.max_packsize_tolerate_percent, |x: u32| x.to_string());
    f!("ev", c.extra_verify, s_bool);
    v.join(",")
}

fn parse_limit(s: &str) -> Option<LimitOption> {
    if s == "u" {
        Some(LimitOption::Unlimited)
    } else if let Some(b) = s.strip_prefix('s') {
        Some(LimitOption::Size(ByteSize(b.parse().ok()?)))
    } else {
        Some(LimitOption::Percentage(s.strip_prefix('p')?.parse().ok()?))
    }
}

// ---------------------------------------------------------------------------------------------- smoke

static PANICS: Mutex<Vec<String>> = Mutex::new(Vec::new());

fn smoke_source(rng: &mut Rng, small: bool, second: bool) -> MemSource {
    let sizes: &[usize] = if small { &[0, 1, 63, 64, 65, 700, 3000] } else { &[0, 1, 4095, 4096, 4097, 70_000, 150_000] };
    let mut entries = vec![SrcEntry::dir(&[b"d"])];
    for (i, n) in sizes.iter().enumerate() {
        let mut data = if i % 2 == 0 { rng.bytes(*n) } else { (0..*n).map(|j| (j % 7) as u8).collect() };
        if second && i % 3 == 0 && !data.is_empty() {
            let k = data.len() / 2;
            data[k] ^= 0x55;
            data.extend_from_slice(b"more");
        }
        let name = format!("f{i}");
        if i % 2 == 0 {
            entries.push(SrcEntry::file(&[name.as_bytes()], &data));
        } else {
            entries.push(SrcEntry::file(&[b"d", name.as_bytes()], &data));
        }
    }
    MemSource::new(entries)
}

/// chunk a stream through the real chunker of `cfg`; a chunker that does not finish within len+2 chunks (or
/// yields an empty chunk) is reported instead of being run inside a backup (which would never return).
fn chunker_terminates(cfg: &ConfigFile, data: &[u8]) -> Result<(), String> {
    let it = rustic_core::verif::chunker::chunk_iter(cfg, std::io::Cursor::new(data.to_vec()), data.len()).map_err(|e| errkind(&e))?;
    let mut total = 0usize;
    let mut n = 0usize;
    for c in it {
        let c = c.map_err(|e| errkind(&e))?;
        if c.is_empty() {
            return Err("oracle-fail:chunker-yields-empty-chunks-forever".into());
        }
        total += c.len();
        n += 1;
        if n > data.len() + 2 {
            return Err("oracle-fail:chunker-nonterminating".into());
        }
    }
    if total != data.len() {
        return Err(format!("oracle-fail:chunker-lost-data-{total}-of-{}", data.len()));
    }
    Ok(())
}

fn strip_root(v: &[crate::repo::ReadBack]) -> Vec<crate::repo::ReadBack> {
    v.iter().filter(|e| e.path != b"src").cloned().collect()
}

/// `backup` / `check` on the single-config-file view of the store (the smoke runs change the config).
fn backup_oc(h: &RepoHandle, src: &MemSource, opts: &BackupOptions, snap: SnapshotFile) -> RusticResult<SnapshotFile> {
    let repo = h.open_oc()?.to_indexed_ids()?;
    repo.archive(opts, src, snap, &[std::path::PathBuf::from(SRC_ROOT)])
}
fn check_errors_oc(h: &RepoHandle, read_data: bool) -> Option<usize> {
    let repo = h.open_oc().ok()?;
    let res = repo.check(CheckOptions::default().read_data(read_data)).ok()?;
    Some(res.0.iter().filter(|(l, _)| format!("{l:?}") == "Error").count())
}

/// What the statement says about the limits `decide_repack` derives from the options, evaluated on the values the
/// real planner computed (hook `take_limits`): written from the option documentation (inequalities), not from the
/// code's formula.  The value-by-value tie to the Lean model is the `limits` channel.
fn limits_oracle(l: &rustic_core::verif::prune::RepackLimits, mu: &LimitOption, mr: &LimitOption, repack_all: bool) -> Result<(), String> {
    let (used, total) = (u128::from(l.used), u128::from(l.total));
    let (got_u, got_r) = (u128::from(l.max_unused), u128::from(l.max_repack));
    if total < used {
        return Err("oracle-fail:limits-total-below-used".into());
    }
    let ok_u = if repack_all {
        got_u == 0
    } else {
        match mu {
            LimitOption::Unlimited => l.max_unused == u64::MAX,
            LimitOption::Size(s) => l.max_unused == s.as_u64(),
            LimitOption::Percentage(p) if *p >= 100 => l.max_unused == u64::MAX,
            // largest x with x * (100 - p) <= p * used  (p * used saturating at u64::MAX)
            LimitOption::Percentage(p) => {
                let prod = (u128::from(*p) * used).min(u128::from(u64::MAX));
                let d = u128::from(100 - *p);
                got_u * d <= prod && prod < (got_u + 1) * d
            }
            _ => true,
        }
    };
    if !ok_u {
        return Err(format!("oracle-fail:max-unused-limit-{}-for-used-{}", l.max_unused, l.used));
    }
    let ok_r = match mr {
        LimitOption::Unlimited => l.max_repack == u64::MAX,
        LimitOption::Size(s) => l.max_repack == s.as_u64(),
        LimitOption::Percentage(p) => {
            let prod = (u128::from(*p) * total).min(u128::from(u64::MAX));
            got_r * 100 <= prod && prod < (got_r + 1) * 100
        }
        _ => true,
    };
    if !ok_r {
        return Err(format!("oracle-fail:max-repack-limit-{}-for-total-{}", l.max_repack, l.total));
    }
    Ok(())
}

fn smoke_inner(steps: Vec<ConfigOptions>, mu: LimitOption, mr: LimitOption, repack_all: bool, seed: u64) -> String {
    let mut rng = Rng::new(seed);
    let (h, repo) = match RepoHandle::init_oc(MemBackend::new(), None, &steps[0]) {
        Ok(x) => x,
        Err(e) => return errkind(&e),
    };
    drop(repo);
    // later steps: configuration changes; a refused one must leave the repository as it was (checked by `seq`),
    // an accepted one must leave a repository that works
    for o in &steps[1..] {
        let mut repo = match h.open_oc() {
            Ok(r) => r,
            Err(e) => return format!("{}@open-for-config", errkind(&e)),
        };
        _ = repo.apply_config(o);
    }
    let cfg = match h.open_oc() {
        Ok(r) => r.config().clone(),
        Err(e) => return format!("{}@reopen", errkind(&e)),
    };
    if let Err(e) = chunker_terminates(&cfg, &rng.bytes(5000)) {
        return format!("{e}@chunker");
    }
    let small = cfg.chunk_size() < 512 || cfg.chunk_min_size() < 64;
    // same random content in both versions (files that change also change their length, so that the
    // parent-based second backup re-reads them)
    let src1 = smoke_source(&mut rng.clone(), small, false);
    let src2 = smoke_source(&mut rng.clone(), small, true);
    let bo = BackupOptions::default();
    let s1 = match backup_oc(&h, &src1, &bo, SnapshotFile::default()) {
        Ok(s) => s,
        Err(e) => return format!("{}@backup1", errkind(&e)),
    };
    let s2 = match backup_oc(&h, &src2, &bo, SnapshotFile::default()) {
        Ok(s) => s,
        Err(e) => return format!("{}@backup2", errkind(&e)),
    };
    match check_errors_oc(&h, true) {
        Some(0) => {}
        Some(n) => return format!("oracle-fail:check-{n}-errors"),
        None => return "oracle-fail:check-failed".into(),
    }
    for (s, src, tag) in [(&s1, &src1, "1"), (&s2, &src2, "2")] {
        let r = h.open_oc().and_then(|r| r.to_indexed()).and_then(|r| read_back(&r, s));
        match r {
            Ok(got) if strip_root(&got) == expected(src) => {}
            Ok(got) => {
                let got = strip_root(&got);
                if std::env::var("VERIF_DEBUG").is_ok() {
                    let exp = expected(src);
                    eprintln!("got {} entries, expected {}", got.len(), exp.len());
                    for (g, e) in got.iter().zip(exp.iter()) {
                        if g != e {
                            eprintln!("got {:?} {} {:?} {:?} {:?}\nexp {:?} {} {:?} {:?} {:?}", String::from_utf8_lossy(&g.path), g.kind, g.content.as_ref().map(|c| c.len()), g.mode, g.mtime_s, String::from_utf8_lossy(&e.path), e.kind, e.content.as_ref().map(|c| c.len()), e.mode, e.mtime_s);
                            break;
                        }
                    }
                }
                return format!("oracle-fail:restore{tag}-differs");
            }
            Err(e) => return format!("{}@restore{tag}", errkind(&e)),
        }
    }
    // forget the first snapshot, prune with the given limits
    let repo = match h.open_oc() {
        Ok(r) => r,
        Err(e) => return format!("{}@open", errkind(&e)),
    };
    if let Err(e) = repo.delete_snapshots(&[s1.id]) {
        // an append-only repository refuses (C15); prune must refuse as well, everything else still has to work
        if cfg.append_only != Some(true) {
            return format!("{}@forget", errkind(&e));
        }
    }
    let mut po = PruneOptions::default();
    po.max_unused = mu;
    po.max_repack = mr;
    po.repack_all = repack_all;
    po.instant_delete = true;
    po.keep_delete = jiff::Span::new();
    let repo = match h.open_oc().and_then(|r| r.to_indexed_ids()) {
        Ok(r) => r,
        Err(e) => return format!("{}@open", errkind(&e)),
    };
    _ = rustic_core::verif::prune::take_limits();
    let plan = match repo.prune_plan(&po) {
        Ok(p) => p,
        Err(e) => return format!("{}@prune_plan", errkind(&e)),
    };
    match rustic_core::verif::prune::take_limits() {
        None => return "oracle-fail:no-limits-recorded".into(),
        Some(l) => {
            if let Err(e) = limits_oracle(&l, &mu, &mr, repack_all) {
                return e;
            }
        }
    }
    if let Err(e) = repo.prune(&po, plan) {
        if cfg.append_only != Some(true) {
            return format!("{}@prune", errkind(&e));
        }
    }
    match check_errors_oc(&h, true) {
        Some(0) => {}
        Some(n) => return format!("oracle-fail:check-after-prune-{n}-errors"),
        None => return "oracle-fail:check-after-prune-failed".into(),
    }
    for (s, src, tag) in [(&s1, &src1, "1"), (&s2, &src2, "2")] {
        if tag == "1" && cfg.append_only != Some(true) {
            continue; // forgotten
        }
        let r = h.open_oc().and_then(|r| r.to_indexed()).and_then(|r| read_back(&r, s));
        match r {
            Ok(got) if strip_root(&got) == expected(src) => {}
            Ok(_) => return format!("oracle-fail:restore{tag}-after-prune-differs"),
            Err(e) => return format!("{}@restore{tag}-after-prune", errkind(&e)),
        }
    }
    "ok".into()
}

fn exec_smoke(toks: &[&str]) -> String {
    let (Some(steps), Some(mu), Some(mr), Ok(seed)) =
        (toks[1].split(';').map(parse_opts).collect::<Option<Vec<_>>>(), parse_limit(toks[2]), parse_limit(toks[3]), toks[5].parse::<u64>())
    else {
        return "bad-op".into();
    };
    let repack_all = toks[4] == "r";
    // panics of worker threads are observations too: record them through the panic hook
    PANICS.lock().unwrap().clear();
    std::panic::set_hook(Box::new(|info| {
        let msg = if let Some(s) = info.payload().downcast_ref::<&str>() {
            (*s).to_string()
        } else if let Some(s) = info.payload().downcast_ref::<String>() {
            s.clone()
        } else {
            "?".to_string()
        };
        let loc = info.location().map(|l| format!("{}:{}", l.file().rsplit('/').next().unwrap_or(""), l.line())).unwrap_or_default();
        PANICS.lock().unwrap().push(format!("{}@{}", msg.replace(['\n', ' '], "_"), loc));
    }));
    let (tx, rx) = std::sync::mpsc::channel();
    let _ = std::thread::Builder::new().name("smoke".into()).spawn(move || {
        let r = std::panic::catch_unwind(move || smoke_inner(steps, mu, mr, repack_all, seed));
        let _ = tx.send(r.unwrap_or_else(|_| "panic".into()));
    });
    let res = rx.recv_timeout(std::time::Duration::from_secs(25 * crate::util::load_factor()));
    std::panic::set_hook(Box::new(|_| {}));
    let panics = PANICS.lock().unwrap().clone();
    if let Some(p) = panics.first() {
        return format!("panic:{p}");
    }
    match res {
        Ok(s) => s,
        Err(_) => "oracle-fail:timeout".into(),
    }
}

// --------------------------------------------------------------------------------------------- limits

/// `c18 limits <mu> <mr> <flags> <packs>`: run the real planner (`PrunePlan::new` → `count_used_blobs` → `decide_packs`
/// → `decide_repack`, hook `plan_from_parts`) on a crafted index whose used / unused blob sizes are given, and report
/// the limits `decide_repack` computed (hook `take_limits`) together with the sums they were computed from.
fn exec_limits(toks: &[&str]) -> String {
    use rustic_core::repofile::{IndexFile, IndexId, IndexPack, PackId};
    use rustic_core::verif::prune as hook;
    use rustic_core::{BlobId, Id};
    let (Some(mu), Some(mr)) = (parse_limit(toks[1]), parse_limit(toks[2])) else { return "bad-op".into() };
    let flags = toks[3];
    if flags != "-" && !flags.chars().all(|c| c == 'a' || c == 'u') {
        return "bad-op".into();
    }
    let mk_id = |kind: u8, n: u64| -> Id { format!("c1{kind:02x}{n:060x}").parse().unwrap() };
    let mut index = IndexFile::default();
    let mut used = Vec::new();
    let mut existing = Vec::new();
    let mut n_blob = 0u64;
    for (pn, p) in toks[4].split(',').enumerate() {
        let mut ch = p.chars();
        let (Some(t), Some(m)) = (ch.next(), ch.next()) else { return "bad-op".into() };
        let tpe = match t {
            't' => BlobType::Tree,
            'd' => BlobType::Data,
            _ => return "bad-op".into(),
        };
        if m != 'm' && m != '-' {
            return "bad-op".into();
        }
        let mut blobs = Vec::new();
        let mut offset = 0u64;
        for b in p[2..].split('+') {
            if b.len() < 2 {
                return "bad-op".into();
            }
            let (u, len) = b.split_at(1);
            let Ok(len) = len.parse::<u32>() else { return "bad-op".into() };
            let id = mk_id(2, n_blob);
            n_blob += 1;
            match u {
                "u" => used.push((tpe, BlobId::from(id))),
                "n" => {}
                _ => return "bad-op".into(),
            }
            blobs.push(serde_json::json!({"id": id.to_hex().as_str(), "type": if tpe == BlobType::Tree { "tree" } else { "data" },
                "offset": offset.min(u64::from(u32::MAX)), "length": len}));
            offset += u64::from(len);
        }
        let size = offset.min(u64::from(u32::MAX)) as u32;
        let pid = mk_id(1, pn as u64);
        let ip: IndexPack = match serde_json::from_value(serde_json::json!({"id": pid.to_hex().as_str(), "blobs": blobs, "size": size})) {
            Ok(x) => x,
            Err(_) => return "bad-op".into(),
        };
        if m == 'm' {
            index.packs_to_delete.push(ip);
        } else {
            index.packs.push(ip);
        }
        existing.push((PackId::from(pid), size));
    }
    let po = PruneOptions::default().max_unused(mu).max_repack(mr).repack_all(flags.contains('a')).repack_uncompressed(flags.contains('u'));
    let sizer = || rustic_core::verif::packer::pack_sizer(4 << 20, 32, u32::MAX, 0, 30, 0);
    let sizers = hook::pack_sizers(sizer(), sizer());
    _ = hook::take_limits();
    let now = jiff::Timestamp::from_second(1_700_000_000).unwrap().to_zoned(jiff::tz::TimeZone::UTC);
    // the plan itself may be refused later (e.g. a marked pack without time); the limits have been computed by then
    let res = hook::plan_from_parts(used, existing, vec![(IndexId::from(mk_id(3, 0)), index)], &po, now, false, &sizers);
    match hook::take_limits() {
        Some(l) => format!("ok {} {} {} {}", l.max_unused, l.max_repack, l.used, l.total),
        None => match res {
            Ok(_) => "oracle-fail:no-limits-recorded".into(),
            Err(e) => format!("{}@plan", errkind(&e)),
        },
    }
}

// ------------------------------------------------------------------------------------------------ seq

fn config_writes(be: &MemBackend) -> usize {
    be.log().iter().filter(|o| o.write && o.tpe == FileType::Config).count()
}

/// `seq`: the repository is re-opened before every `apply_config`; `seq1` (`one_handle`): every `apply_config` is issued on
/// ONE handle that stays open (its in-memory config is what the next call starts from).  Same expectation
/// (`Props/C18.handle_config_follows_store_seq`).  In both forms the handle's in-memory config (`repo.config()`) is observed
/// after every call: refused => as before the call; otherwise => equal to the stored config.
fn exec_seq(toks: &[&str], one_handle: bool) -> String {
    let Some(steps) = toks[1].split(';').map(parse_opts).collect::<Option<Vec<_>>>() else { return "bad-op".into() };
    let be = MemBackend::new();
    let (h, repo) = match RepoHandle::init_oc(be.clone(), None, &steps[0]) {
        Ok(x) => x,
        Err(e) => {
            if !be.log().is_empty() {
                return "oracle-fail:refused-init-touched-storage".into();
            }
            return errkind(&e);
        }
    };
    drop(repo);
    let mut res = Vec::new();
    let mut live = None;
    for o in &steps[1..] {
        let mut repo = match live.take() {
            Some(r) => r,
            None => match h.open_oc() {
                Ok(r) => r,
                Err(e) => return format!("{}@open", errkind(&e)),
            },
        };
        let before = repo.config().clone();
        let stored_before = match h.open_oc() {
            Ok(r) => r.config().clone(),
            Err(e) => return format!("{}@reopen", errkind(&e)),
        };
        if before != stored_before {
            return "oracle-fail:handle-config-differs-from-stored-before-call".into();
        }
        let writes_before = be.log().len();
        let r = repo.apply_config(o);
        let stored = match h.open_oc() {
            Ok(r) => r.config().clone(),
            Err(e) => return format!("{}@reopen", errkind(&e)),
        };
        match r {
            Ok(changed) => {
                if !changed && (stored != before || be.log().len() != writes_before) {
                    return "oracle-fail:unchanged-but-written".into();
                }
                if !changed && *repo.config() != before {
                    return "oracle-fail:unchanged-but-handle-config-altered".into();
                }
                if *repo.config() != stored {
                    return "oracle-fail:handle-config-differs-from-stored".into();
                }
                res.push(if changed { "changed".to_string() } else { "same".to_string() });
            }
            Err(e) => {
                if stored != before || be.log().len() != writes_before {
                    return "oracle-fail:refused-change-touched-stored-config".into();
                }
                // the in-memory copy of the handle (what every append-only guard reads) is untouched as well
                if *repo.config() != before {
                    return "oracle-fail:refused-change-altered-handle-config".into();
                }
                res.push(errkind(&e));
            }
        }
        if one_handle {
            live = Some(repo);
        }
    }
    let fin = match h.open_oc() {
        Ok(r) => r.config().clone(),
        Err(e) => return format!("{}@reopen", errkind(&e)),
    };
    format!("ok {} | {} | writes={}", if res.is_empty() { "-".to_string() } else { res.join(",") }, show_cfg(&fin), config_writes(&be))
}

pub fn exec(toks: &[&str]) -> String {
    if toks.first() == Some(&"smoke") && toks.len() == 6 {
        return exec_smoke(toks);
    }
    let owned: Vec<String> = toks.iter().map(|s| s.to_string()).collect();
    guarded(move || {
        let toks: Vec<&str> = owned.iter().map(String::as_str).collect();
        match (toks.first().copied(), toks.len()) {
            (Some("apply"), 3) => {
                let (Some(mut c), Some(o)) = (parse_cfg(toks[1]), parse_opts(toks[2])) else { return "bad-op".into() };
                // on `Err` the `&mut` target is left partly assigned: part of the observation (model `applyMut`)
                match o.apply(&mut c) {
                    Ok(()) => format!("ok {}", show_cfg(&c)),
                    Err(e) => format!("{} | {}", errkind(&e), show_cfg(&c)),
                }
            }
            (Some("rabin"), 4) => {
                let p: Vec<Option<usize>> = toks[1..].iter().map(|s| s.parse().ok()).collect();
                let (Some(a), Some(b), Some(c)) = (p[0], p[1], p[2]) else { return "bad-op".into() };
                match rustic_core::verif::chunker::check_rabin_params(a, b, c) {
                    Ok(()) => "ok".into(),
                    Err(e) => errkind(&e),
                }
            }
            (Some("getters"), 2) => {
                let Some(c) = parse_cfg(toks[1]) else { return "bad-op".into() };
                let z = match c.zstd() {
                    Ok(None) => "none".to_string(),
                    Ok(Some(l)) => l.to_string(),
                    Err(e) => errkind(&e),
                };
                let t = c.packsize(BlobType::Tree);
                let d = c.packsize(BlobType::Data);
                let p = c.packsize_ok_percents();
                format!(
                    "ok {} {} {} {} {} {z} {}/{}/{} {}/{}/{} {}/{}",
                    s_chunker(c.chunker()), c.chunk_size(), c.chunk_min_size(), c.chunk_max_size(), s_bool(c.extra_verify()),
                    t.0, t.1, t.2, d.0, d.1, d.2, p.0, p.1
                )
            }
            (Some("packsize"), 4) => {
                let (Some(c), Ok(cur)) = (parse_cfg(toks[1]), toks[3].parse::<u64>()) else { return "bad-op".into() };
                let bt = match toks[2] {
                    "t" => BlobType::Tree,
                    "d" => BlobType::Data,
                    _ => return "bad-op".into(),
                };
                format!("ok {}", rustic_core::verif::packer::pack_size(&c, bt, cur))
            }
            (Some("seq"), 2) => exec_seq(&toks, false),
            (Some("seq1"), 2) => exec_seq(&toks, true),
            (Some("limits"), 5) => exec_limits(&toks),
            _ => "bad-op".into(),
        }
    })
}

// ------------------------------------------------------------------------------------------ generator

fn size_val(rng: &mut Rng) -> u64 {
    match rng.below(20) {
        0 => 0,
        1 => 1,
        2 => 2,
        3 => 63,
        4 => 64,
        5 => 65,
        6 => 4095,
        7 => 4096,
        8 => 1 << 20,
        9 => u32::MAX as u64,
        10 => 1 << 32,
        11 => 1 << 63,
        12 => u64::MAX,
        13 => 1u64 << rng.below(64),
        14 => (1u64 << rng.range(1, 63)) + 1,
        15 => (1u64 << rng.range(1, 63)) - 1,
        16 => rng.below(1 << 20),
        17 => rng.below(u32::MAX as u64 + 1),
        _ => rng.next(),
    }
}
fn u32_val(rng: &mut Rng) -> u64 {
    match rng.below(10) {
        0 => 0,
        1 => 1,
        2 => 2,
        3 => 32,
        4 => u32::MAX as u64,
        5 => u32::MAX as u64 - 1,
        6 => 1 << rng.below(32),
        7 => 65536,
        _ => rng.below(u32::MAX as u64 + 1),
    }
}
fn pct_val(rng: &mut Rng) -> u64 {
    *rng.pick(&[0u64, 0, 1, 30, 50, 99, 100, 100, 101, 200, 1000, u32::MAX as u64])
}
fn comp_val(rng: &mut Rng) -> i64 {
    *rng.pick(&[-131_073i64, -131_072, -131_071, -100, -8, -7, -1, 0, 0, 1, 3, 19, 22, 23, 100, i32::MIN as i64, i32::MAX as i64])
}

/// consistent rabin parameters (accepted by the validation), so that later validation steps are reached
fn good_chunk(rng: &mut Rng, v: &mut Vec<String>, tiny: bool) {
    let bits = if tiny { rng.range(0, 12) } else { rng.range(0, 40) };
    let size = 1u64 << bits;
    let min = match rng.below(4) {
        0 => 1,
        1 => size,
        2 => (size / 2).max(1),
        _ => rng.range(1, size),
    };
    let max = match rng.below(4) {
        0 => size,
        1 => size + 1,
        2 => size * 8,
        _ => size + rng.below(size * 4 + 1),
    };
    v.push(format!("cs={size}"));
    if rng.chance(3, 4) {
        v.push(format!("cmin={min}"));
        if !rng.chance(3, 4) {
            return;
        }
    }
    v.push(format!("cmax={max}"));
}

fn gen_fields(rng: &mut Rng, is_cfg: bool, stats: &mut Stats, what: &str) -> String {
    let mut v: Vec<String> = Vec::new();
    let p = rng.range(2, 6);
    if is_cfg {
        v.push(format!("v={}", *rng.pick(&[1u32, 2, 2, 2, 0, 3])));
    } else if rng.chance(1, p) {
        v.push(format!("v={}", *rng.pick(&[0u64, 1, 2, 2, 3, u32::MAX as u64])));
    }
    if rng.chance(1, p) {
        v.push(format!("ck={}", rng.pick(&["r", "f"])));
    }
    match rng.below(6) {
        0 | 1 => {}
        2 | 3 => {
            good_chunk(rng, &mut v, false);
            stats.hit(format!("{what}.chunk-consistent"));
        }
        _ => {
            for k in ["cs", "cmin", "cmax"] {
                if rng.chance(1, 2) {
                    v.push(format!("{k}={}", size_val(rng)));
                }
            }
            stats.hit(format!("{what}.chunk-arbitrary"));
        }
    }
    if is_cfg && rng.chance(1, 8) {
        v.push(format!("hot={}", rng.below(2)));
    }
    if rng.chance(1, p + 2) {
        v.push(format!("ao={}", rng.below(2)));
    }
    if rng.chance(1, p) {
        v.push(format!("co={}", comp_val(rng)));
    }
    for k in ["ts", "tg", "tl", "ds", "dg", "dl"] {
        if rng.chance(1, p + 1) {
            let val = if k.ends_with('g') || is_cfg { u32_val(rng) } else if rng.chance(3, 4) { u32_val(rng) } else { size_val(rng) };
            v.push(format!("{k}={val}"));
        }
    }
    for k in ["minp", "maxp"] {
        if rng.chance(1, p) {
            v.push(format!("{k}={}", pct_val(rng)));
        }
    }
    if rng.chance(1, p) {
        v.push(format!("ev={}", rng.below(2)));
    }
    if v.is_empty() { "-".into() } else { v.join(",") }
}

fn gen_limit(rng: &mut Rng) -> String {
    match rng.below(16) {
        0 => "u".into(),
        1 => "s0".into(),
        2 => "s1".into(),
        3 => format!("s{}", u64::MAX),
        4 => format!("s{}", rng.below(200_000)),
        5 => "p0".into(),
        6 => "p5".into(),
        7 => "p99".into(),
        8 | 9 => "p100".into(),
        10 => "p101".into(),
        11 => "p150".into(),
        12 => format!("p{}", u64::MAX),
        13 => format!("p{}", u64::MAX / 1000),
        _ => format!("p{}", rng.below(120)),
    }
}

/// One option set of a smoke run.  `first` = the options of `init` (later ones go through `apply_config`).
fn gen_smoke_opts(heavy_ok: bool, first: bool, rng: &mut Rng, stats: &mut Stats) -> String {
    let mut v: Vec<String> = Vec::new();
    let v1 = first && rng.chance(1, 6);
    if v1 {
        v.push("v=1".into());
    } else if !first && rng.chance(1, 6) {
        v.push(format!("v={}", rng.pick(&[1u32, 2, 2])));
    }
    const MAXU: u64 = u64::MAX; // usize::MAX on the 64-bit targets the harness runs on
    match rng.below(12) {
        0 => {}
        1 => {
            // boundary chunk parameters, possibly refused
            for (k, vals) in [("cs", &[0u64, 1, 2, 64, 4096][..]), ("cmin", &[0u64, 1, 63, 64, 65][..]), ("cmax", &[0u64, 1, 64, 4096, 1 << 20][..])] {
                if rng.chance(2, 3) {
                    v.push(format!("{k}={}", rng.pick(vals)));
                }
            }
            stats.hit("smoke.chunk-boundary");
        }
        2 => {
            v.push("ck=f".into());
            v.push(format!("cs={}", *rng.pick(&[0u64, 1, 7, 64, 4096, 8000, 100_000])));
            stats.hit("smoke.fixed");
        }
        3 => {
            // fixed-size chunker with a huge chunk size: every file is one chunk
            v.push("ck=f".into());
            v.push(format!("cs={}", *rng.pick(&[1u64 << 32, 1 << 62, 1 << 63, (1 << 63) + 1, MAXU - 1, MAXU])));
            stats.hit("smoke.fixed-huge");
        }
        4 | 5 => {
            // huge accepted rabin parameters: size = 2^k up to 2^63, min up to size, max up to usize::MAX
            let k = *rng.pick(&[62u64, 63, 63, 40, 32, 0]);
            let k = if k == 0 { rng.range(21, 63) } else { k };
            let size = 1u64 << k;
            let min = match rng.below(6) {
                0 | 1 | 2 => size,
                3 => size / 2,
                4 => size - 1,
                _ => *rng.pick(&[1u64, 64, 4096, 1 << 20]),
            };
            let max = match rng.below(5) {
                0 => size,
                1 => MAXU,
                2 => size.saturating_add(1),
                3 => size.saturating_mul(2),
                _ => MAXU - rng.below(3),
            };
            if rng.chance(1, 8) {
                v.push("ck=r".into());
            }
            v.push(format!("cs={size}"));
            v.push(format!("cmin={min}"));
            v.push(format!("cmax={max}"));
            stats.hit("smoke.chunk-huge");
        }
        6 => {
            // only one of the three sizes named (the other two keep their stored / default values)
            let (k, vals) = *rng.pick(&[("cmax", &[8u64 << 20, (8 << 20) + 1, 1 << 40, 1 << 63, MAXU][..]), ("cmin", &[1u64, 4096, 512 << 10, 1 << 20][..]), ("cs", &[1u64 << 19, 1 << 20, 1 << 22, 1 << 23][..])]);
            v.push(format!("{k}={}", rng.pick(vals)));
            stats.hit("smoke.chunk-one-size");
        }
        7 => {
            // only the chunker kind is named: the stored sizes must suit the new chunker
            v.push(format!("ck={}", rng.pick(&["r", "f"])));
            stats.hit("smoke.chunker-only");
        }
        _ => {
            good_chunk(rng, &mut v, true);
            if rng.chance(1, 6) {
                v.push(format!("ck={}", rng.pick(&["r", "f"])));
            }
            stats.hit("smoke.chunk-tiny");
        }
    }
    if v1 {
        // version 1 + options: only compression 0 is acceptable
        if rng.chance(1, 3) {
            v.push(format!("co={}", rng.pick(&[0i64, 0, 1, -1])));
        }
    } else if rng.chance(1, 2) {
        // levels >= 19 cost seconds and gigabytes per blob: only in the thorough tier, only with the default chunker
        // (the same holds, less dramatically, for levels 10..18 on thousands of tiny chunks)
        let heavy = heavy_ok && rng.chance(1, 30) && !v.iter().any(|x| x.starts_with("cs=") || x.starts_with("ck=") || x.starts_with("cm"));
        v.push(format!("co={}", if heavy { *rng.pick(&[18i64, 19, 22]) } else { *rng.pick(&[-131_072i64, -131_071, -100, -7, -1, 0, 1, 3, 9]) }));
    }
    for k in ["ts", "ds"] {
        if rng.chance(1, 2) {
            v.push(format!("{k}={}", *rng.pick(&[0u64, 1, 2, 100, 5000, 65536, 1 << 31, u32::MAX as u64 - 1, u32::MAX as u64])));
        }
    }
    for k in ["tg", "dg"] {
        if rng.chance(1, 2) {
            v.push(format!("{k}={}", *rng.pick(&[0u64, 1, 32, 65536, 1 << 31, u32::MAX as u64])));
        }
    }
    for k in ["tl", "dl"] {
        if rng.chance(1, 3) {
            v.push(format!("{k}={}", *rng.pick(&[0u64, 1, 1000, 100_000, 1 << 31, u32::MAX as u64])));
        }
    }
    if rng.chance(1, 3) {
        v.push(format!("minp={}", *rng.pick(&[0u64, 1, 30, 99, 100])));
    }
    if rng.chance(1, 3) {
        v.push(format!("maxp={}", *rng.pick(&[0u64, 100, 101, 150, 1 << 31, u32::MAX as u64])));
    }
    if rng.chance(1, 4) {
        v.push(format!("ev={}", rng.below(2)));
    }
    if !first && rng.chance(1, 12) {
        v.push(format!("ao={}", rng.below(2)));
    }
    if v.is_empty() { "-".into() } else { v.join(",") }
}

/// init options followed (one run in three) by 1..3 configuration changes
fn gen_smoke_steps(thorough: bool, rng: &mut Rng, stats: &mut Stats) -> String {
    let multi = rng.chance(1, 3);
    let mut steps = vec![gen_smoke_opts(thorough && !multi, true, rng, stats)];
    if multi {
        for _ in 0..rng.range(1, 3) {
            steps.push(gen_smoke_opts(false, false, rng, stats));
        }
        stats.hit("smoke.with-config-changes");
    }
    steps.join(";")
}

/// packs with given used / unused blob sizes for the `limits` channel (per-pack sum within u32)
fn gen_limit_packs(rng: &mut Rng) -> String {
    let mut packs = Vec::new();
    for _ in 0..rng.range(1, 5) {
        let mut room = u32::MAX as u64;
        let mut blobs = Vec::new();
        for _ in 0..rng.range(1, 4) {
            let len = match rng.below(8) {
                0 => 0,
                1 => 1,
                2 => rng.below(1000),
                3 => rng.below(1 << 20),
                4 => room,
                5 => room / 2,
                _ => rng.below(1 << 32),
            }
            .min(room);
            room -= len;
            blobs.push(format!("{}{len}", if rng.chance(3, 5) { "u" } else { "n" }));
        }
        packs.push(format!("{}{}{}", rng.pick(&["t", "d", "d"]), if rng.chance(1, 6) { "m" } else { "-" }, blobs.join("+")));
    }
    packs.join(",")
}

fn gen_limit_any(rng: &mut Rng) -> String {
    match rng.below(6) {
        0 => format!("p{}", rng.range(1, 99)),
        1 => format!("p{}", size_val(rng)),
        2 => format!("s{}", size_val(rng)),
        _ => gen_limit(rng),
    }
}

pub fn generate(thorough: bool, rng: &mut Rng, ops: &mut Vec<String>, stats: &mut Stats) {
    let k = if thorough { 20 } else { 1 };
    for _ in 0..4000 * k {
        let cfg = gen_fields(rng, true, stats, "cfg");
        let opts = gen_fields(rng, false, stats, "opts");
        ops.push(format!("c18 apply {cfg} {opts}"));
        stats.hit("op.apply");
    }
    for _ in 0..600 * k {
        let (a, b, c) = if rng.chance(1, 2) {
            (size_val(rng), size_val(rng), size_val(rng))
        } else {
            let s = 1u64 << rng.below(64);
            (s, *rng.pick(&[0, 1, s / 2, s.saturating_sub(1), s, s.saturating_add(1)]), *rng.pick(&[0, s.saturating_sub(1), s, s.saturating_add(1), u64::MAX]))
        };
        ops.push(format!("c18 rabin {a} {b} {c}"));
        stats.hit("op.rabin");
    }
    for _ in 0..600 * k {
        let cfg = gen_fields(rng, true, stats, "cfg");
        ops.push(format!("c18 getters {cfg}"));
        stats.hit("op.getters");
        let cur = match rng.below(8) {
            0 => 0,
            1 => 1,
            2 => 3,
            3 => 4,
            4 => 1 << 32,
            5 => u64::MAX,
            6 => rng.below(1 << 40),
            _ => rng.next(),
        };
        ops.push(format!("c18 packsize {cfg} {} {cur}", rng.pick(&["t", "d"])));
        stats.hit("op.packsize");
    }
    for _ in 0..150 * k {
        let n = rng.range(2, 6);
        let mut steps: Vec<String> = Vec::new();
        for i in 0..n {
            // keep most steps acceptable so that sequences make progress; sprinkle refusals
            let s = if i == 0 && rng.chance(3, 4) {
                let mut v = Vec::new();
                if rng.chance(1, 3) {
                    good_chunk(rng, &mut v, false);
                }
                if rng.chance(1, 3) {
                    v.push(format!("ev={}", rng.below(2)));
                }
                if rng.chance(1, 4) {
                    v.push("v=1".into());
                }
                if v.is_empty() { "-".to_string() } else { v.join(",") }
            } else {
                gen_fields(rng, false, stats, "seq")
            };
            steps.push(s);
        }
        ops.push(format!("c18 seq {}", steps.join(";")));
        stats.hit("op.seq");
        // the same changes on ONE open handle
        ops.push(format!("c18 seq1 {}", steps.join(";")));
        stats.hit("op.seq1");
    }
    for _ in 0..600 * k {
        ops.push(format!("c18 limits {} {} {} {}", gen_limit_any(rng), gen_limit_any(rng), rng.pick(&["-", "-", "-", "a", "u", "au"]), gen_limit_packs(rng)));
        stats.hit("op.limits");
    }
    for _ in 0..(if thorough { 1000 } else { 120 }) {
        let opts = gen_smoke_steps(thorough, rng, stats);
        ops.push(format!("c18 smoke {opts} {} {} {} {}", gen_limit(rng), gen_limit(rng), if rng.chance(1, 6) { "r" } else { "-" }, rng.below(1 << 30)));
        stats.hit("op.smoke");
    }
}
