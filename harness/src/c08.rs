//! C08 — pack files, their headers and the index agree; the index is rebuildable.
//!
//! Op lines (channel `c08`):
//!  * `hdr <blobs>`                 blobs as in c17 (`id64.t|d.offset.length.ulen|-` joined by `+`, `-` = none):
//!       real `PackHeaderRef::to_binary / size / pack_size` and `PackHeader::from_binary(to_binary(..))`
//!       -> `ok bin=<hex> size=<n> psize=<n> parsed=<blobs>`
//!  * `parse <hex>`                 real `PackHeader::from_binary` on arbitrary bytes -> `ok <blobs>` | `err`
//!  * `pack <t|d> <adds> <reads>`   adds = `id64.len.ulen|-` joined by `+` (`-` = none); the real `BasicPacker` (hook newtype)
//!       gets one `add_raw` per add (data = `len` deterministic bytes), `header_bytes`, real `encrypt_data`,
//!       `write_header`, `take_data`; the file is stored in a `MemBackend` and the real `PackHeader::from_file` is
//!       called once per read = `hint|-:psize|-` (`-` = no hint / the true size) joined by `,`; psize may also name a MODIFIED
//!       file that is read with its own true size: `F<k>` k junk bytes in front, `E<k>` k junk bytes appended, `FB` a copy of the
//!       first blob in front, `FP` the pack twice (result `=` / `ne` / `e`; an empty extension is the true file).
//!       -> `ok blobs=<id8.t.off.len.ulen,…> len=<file length> ff=<r,…>`, r = `=` (Ok and equal to the index blobs),
//!          `ne` (Ok but different), `err:<Kind>` (true size), `e` (any error, wrong size).
//!       Harness-side oracles on the real pack: file length = `index.pack_size()`, every blob's byte range holds the
//!       data that was added, trailer = `u32 LE` length of the encrypted header, independent parse of the decrypted
//!       header = index blobs.
//!  * `rix <0|1> <packs> <files>`  correspondence for the `repair_index` MODEL (`Model/Index.lean repairIndex`): packs =
//!       `<label>:<t|d>:<adds>:<ok|trunc>` joined by `;` (built with the real `BasicPacker`, header encrypted with the
//!       repository key, stored under sha256; `trunc` = last byte cut off → unreadable), files = index files joined by `/`,
//!       file = `<packs>|<packs_to_delete>`, lists = `-` or entries joined by `,`, entry = `<label>` (exact listing),
//!       `<label>~` (listing without its last blob → size mismatch → header re-read), `?<k>` (a pack that does not exist).
//!       Real `repair_index(read_all)` runs; then all index files are read.
//!       -> `ok <label>:u<unmarked listings>m<marked listings><=|x>,… ?<listings of unknown packs>`
//!  * `repo <variant> <seed>`       oracle only (model prints `ok`): real repository on `MemBackend`; backups, then
//!       variant ∈ backup | prune-fast | prune-copy | prune-all | copy | merge | rewrite (snapshots rewritten with excluded files: new tree
//!       packs) | repair-snapshots (a data pack lost, `repair index`, `repair snapshots`: new tree packs); afterwards EVERY pack in the store is opened by the
//!       independent parser below with the master key and compared with the index.
//!  * `repair <variant> <seed>`     oracle only: as `repo`, then a seeded subset of index files (variant all|some|none +
//!       optional `-readall`) is deleted, `repair_index` runs, then `check` must be clean and every snapshot must read
//!       back identically.
//!       Variant grammar `[hc-][dry-]<all|some|none|badhint|lostpack>[-readall]`: `hc-` = on a hot/cold pair of `MemBackend`s (the hot part
//!       holds only what `HotColdBackend` puts there), `dry-` = `repair_index(opts, dry_run = true)` first, which must leave every file
//!       of every type in both parts byte-identical (`oracle-fail:dry-run-changed-storage:<part>-<type>`); `lostpack` = a data pack is
//!       removed from storage (then only packs = index is required afterwards).  Every run records the `cacheable` flag of the
//!       `read_partial` calls: header reads of data packs must be non-cacheable (`oracle-fail:data-pack-header-read-cacheable`).
//!  * `rixd <0|1> <packs> <files>`  as `rix`, but a DRY RUN comes first (storage must stay byte-identical), then the real run
//!       -> `ok chk=<ok|err> <listings after the dry run> / <listings after the real run>` (model: `repairIndexD true`, then
//!       `repairIndexD false`; `chk` = whether `to_indexed_checked` succeeds on the damaged store, model `checkedPacks`).
//!  * `cflags <seed>`               the `cacheable` flags of header reads and blob reads per pack type, observed on a repository
//!       (2/3 hot/cold) that lost all index files -> `ok hdr=t0d0 blob=t1d0` (model: `headerReadCacheable` / `blobReadCacheable`).
//!  * `pw <dlimit> <tlimit> <fail|-> <adds>`  correspondence for the pack-WRITER model (`Model/PackWriter.lean`): adds =
//!       `<t|d><len>[x<count>]` joined by `,` (count distinct blobs of `len` plaintext bytes, ids = running number); the real
//!       packer pipeline (hook `pack_blobs`: data `Packer` + tree `Packer` + shared `Indexer`) runs on a repository without
//!       compression, fixed pack size limits (grow factor 0); `fail` = position (in the backend's write log) of the one
//!       write that fails (only generated for single-lane cases, whose log positions are deterministic).
//!       -> `res=<ok|err> D=<pack writes of the data lane> T=<…tree lane> I=<index file writes> ordered=<bool>`, pack write =
//!          `<file length>/<first blob>+<#blobs>/<ok|f>` (lane cut after its first failed write), index write =
//!          `<t|d><first blob>+<#blobs>` of every listed pack, sorted, joined by `+`, `/ok` — or `?/f`; `ordered` = the
//!          predicate of theorem `index_only_after_write` evaluated on the recorded log.
//!  * `order <variant> <seed>`      oracle only: real commands (variant backup | prune | copy: histories on small packs;
//!       tiny: the packer pipeline on > 50,000 tiny blobs, so that the `Indexer` saves an index file on its own;
//!       tinyfail / backupfail: the same with one failing backend write; bigbackup (thorough): a real backup of one file of
//!       > 50,000 distinct 32-byte chunks, odd seeds with one failing write); the recorded `MemBackend` log must show, before
//!       every index file write, a successful write of every pack the file lists, with the listed size
//!       (`oracle-fail:index-before-pack`), and at the end every listed pack must exist (`oracle-fail:indexed-pack-missing`).
use std::collections::{BTreeMap, BTreeSet};
use std::num::NonZeroU32;
use std::sync::Arc;

use bytes::Bytes;
use sha2::{Digest, Sha256};

use crate::repo::{self, MemBackend, MemSource, RepoHandle, SrcEntry};
use crate::util::{Rng, Stats, errkind, guarded, hex, unhex};
use rustic_core::repofile::{BlobType, IndexBlob, IndexFile, IndexPack, PackId, SnapshotFile};
use rustic_core::verif::aespoly1305::{CryptoKey, Key};
use rustic_core::verif::blob::BlobLocation;
use rustic_core::verif::decrypt::{DecryptBackend, DecryptReadBackend, DecryptWriteBackend};
use rustic_core::verif::packer::{BasicPackerHook, PackSizer};
use rustic_core::verif::packfile as pf;
use rustic_core::{
    BackupOptions, BlobId, ConfigOptions, FileType, Id, LimitOption, PruneOptions,
    RepairIndexOptions, SnapshotOptions, WriteBackend,
};

// ------------------------------------------------------------------ small helpers

fn parse_id(s: &str) -> Option<Id> {
    if s.len() != 64 {
        return None;
    }
    let b = hex::decode(s).ok()?;
    let mut a = [0u8; 32];
    a.copy_from_slice(&b);
    Some(Id::new(a))
}

fn id_bytes(id: &Id) -> [u8; 32] {
    let mut a = [0u8; 32];
    a.copy_from_slice(&hex::decode(id.to_hex().as_str()).unwrap());
    a
}

fn parse_blob(s: &str) -> Option<IndexBlob> {
    let f: Vec<&str> = s.split('.').collect();
    if f.len() != 5 {
        return None;
    }
    let tpe = match f[1] {
        "t" => BlobType::Tree,
        "d" => BlobType::Data,
        _ => return None,
    };
    let uncompressed_length = if f[4] == "-" { None } else { Some(NonZeroU32::new(f[4].parse().ok()?)?) };
    Some(IndexBlob {
        id: BlobId::from(parse_id(f[0])?),
        tpe,
        location: BlobLocation { offset: f[2].parse().ok()?, length: f[3].parse().ok()?, uncompressed_length },
    })
}

fn t_str(t: BlobType) -> &'static str {
    match t {
        BlobType::Tree => "t",
        BlobType::Data => "d",
    }
}

fn ulen_str(u: Option<NonZeroU32>) -> String {
    u.map_or("-".to_string(), |n| n.get().to_string())
}

fn blob_str(b: &IndexBlob) -> String {
    format!("{}.{}.{}.{}.{}", b.id.to_hex().as_str(), t_str(b.tpe), b.location.offset, b.location.length, ulen_str(b.location.uncompressed_length))
}

fn blobs_str(bs: &[IndexBlob]) -> String {
    if bs.is_empty() { "-".to_string() } else { bs.iter().map(blob_str).collect::<Vec<_>>().join("+") }
}

fn same_blobs(a: &[IndexBlob], b: &[IndexBlob]) -> bool {
    a.len() == b.len() && a.iter().zip(b).all(|(x, y)| x.id == y.id && x.tpe == y.tpe && x.location == y.location)
}

/// Independent encoder (used only by the generator to build valid headers that are then mutated).
fn encode_entry(out: &mut Vec<u8>, tree: bool, len: u32, ulen: Option<u32>, id: &[u8; 32]) {
    match (ulen, tree) {
        (None, false) => out.push(0),
        (None, true) => out.push(1),
        (Some(_), false) => out.push(2),
        (Some(_), true) => out.push(3),
    }
    out.extend_from_slice(&len.to_le_bytes());
    if let Some(u) = ulen {
        out.extend_from_slice(&u.to_le_bytes());
    }
    out.extend_from_slice(id);
}

/// Independent header parser: (tree?, len, len_data, id) per entry; `None` if malformed.
fn parse_header_independent(h: &[u8]) -> Option<Vec<(bool, u32, Option<u32>, [u8; 32])>> {
    let mut out = Vec::new();
    let mut i = 0usize;
    while i < h.len() {
        let magic = h[i];
        let (tree, comp) = match magic {
            0 => (false, false),
            1 => (true, false),
            2 => (false, true),
            3 => (true, true),
            _ => return None,
        };
        let need = if comp { 41 } else { 37 };
        if i + need > h.len() {
            return None;
        }
        let len = u32::from_le_bytes(h[i + 1..i + 5].try_into().ok()?);
        let (ulen, idpos) = if comp { (Some(u32::from_le_bytes(h[i + 5..i + 9].try_into().ok()?)), i + 9) } else { (None, i + 5) };
        let mut id = [0u8; 32];
        id.copy_from_slice(&h[idpos..idpos + 32]);
        out.push((tree, len, ulen, id));
        i += need;
    }
    Some(out)
}

// ------------------------------------------------------------------ generator

fn rand_id(rng: &mut Rng) -> [u8; 32] {
    let mut id = [0u8; 32];
    match rng.below(8) {
        0 => id = [0; 32],
        1 => id = [0xff; 32],
        2 => {
            id[31] = rng.next() as u8;
        }
        3 => {
            id[0] = rng.next() as u8;
        }
        _ => id.copy_from_slice(&rng.bytes(32)),
    }
    id
}

fn rand_id_distinct(rng: &mut Rng) -> [u8; 32] {
    let mut id = [0u8; 32];
    id.copy_from_slice(&rng.bytes(32));
    id
}

fn rand_len(rng: &mut Rng, budget: &mut u64) -> u32 {
    let l = match rng.below(10) {
        0 => 0,
        1 => 1,
        2 => 32,
        3 => 255,
        4 => 256,
        5 => 65_536,
        6 => (1 << 24) + rng.below(1000),
        7 => (1u64 << 31) - 1,
        _ => rng.below(100_000),
    }
    .min(*budget);
    *budget -= l;
    l as u32
}

fn rand_ulen(rng: &mut Rng) -> Option<u32> {
    match rng.below(6) {
        0 | 1 | 2 => None,
        3 => Some(1),
        4 => Some(u32::MAX),
        _ => Some(1 + rng.below(1 << 20) as u32),
    }
}

/// One crafted store for the `repair_index` model correspondence (`rix` / `rixd`): `<read_all> <packs> <index files>`.
fn gen_rix_case(rng: &mut Rng, stats: &mut Stats) -> String {
    let np = rng.below(6) as usize;
    let labels: Vec<String> = (0..np).map(|i| ((b'a' + i as u8) as char).to_string()).collect();
    let mut packs = Vec::new();
    let mut nblobs = Vec::new();
    for l in &labels {
        let t = if rng.chance(1, 2) { 't' } else { 'd' };
        let n = rng.below(4);
        let mut adds = Vec::new();
        for _ in 0..n {
            let ul = rand_ulen(rng).map_or("-".to_string(), |u| u.to_string());
            adds.push(format!("{}.{}.{ul}", hex::encode(rand_id_distinct(rng)), rng.below(300)));
        }
        nblobs.push(n);
        let flag = if rng.chance(1, 6) { "trunc" } else { "ok" };
        stats.hit(format!("rix.pack.{flag}"));
        packs.push(format!("{l}:{t}:{}:{flag}", if adds.is_empty() { "-".to_string() } else { adds.join("+") }));
    }
    // listings: a label is either listed (un)marked in exactly one place, or several times but then always unmarked,
    // or not at all (index file lost) — results that depend on the streaming order of index files are not generated
    let nf = 1 + rng.below(3) as usize;
    let mut fl: Vec<(Vec<String>, Vec<String>)> = vec![(vec![], vec![]); nf];
    for (i, l) in labels.iter().enumerate() {
        let variant = |rng: &mut Rng| if nblobs[i] > 0 && rng.chance(1, 4) { format!("{l}~") } else { l.clone() };
        match rng.below(8) {
            0 | 1 => stats.hit("rix.unlisted"),
            2 => {
                stats.hit("rix.marked");
                let k = rng.below(nf as u64) as usize;
                let v = variant(rng);
                fl[k].1.push(v);
            }
            3 => {
                stats.hit("rix.listed-twice");
                for _ in 0..2 {
                    let k = rng.below(nf as u64) as usize;
                    let v = variant(rng);
                    fl[k].0.push(v);
                }
            }
            _ => {
                let k = rng.below(nf as u64) as usize;
                let v = variant(rng);
                fl[k].0.push(v);
            }
        }
    }
    if rng.chance(1, 3) {
        stats.hit("rix.nonexistent-pack");
        let k = rng.below(nf as u64) as usize;
        let e = format!("?{}", 1 + rng.below(3));
        if rng.chance(1, 2) { fl[k].0.push(e) } else { fl[k].1.push(e) }
    }
    let mut toks: Vec<String> = Vec::new();
    for (a, b) in fl {
        if a.is_empty() && b.is_empty() {
            continue;
        }
        let j = |v: Vec<String>| if v.is_empty() { "-".to_string() } else { v.join(",") };
        let t = format!("{}|{}", j(a), j(b));
        if !toks.contains(&t) {
            toks.push(t);
        }
    }
    let ra = u8::from(rng.chance(1, 4));
    format!(
        "{ra} {} {}",
        if packs.is_empty() { "-".to_string() } else { packs.join(";") },
        if toks.is_empty() { "-".to_string() } else { toks.join("/") }
    )
}

pub fn generate(thorough: bool, rng: &mut Rng, ops: &mut Vec<String>, stats: &mut Stats) {
    let k = if thorough { 10 } else { 1 };
    // --- hdr
    for _ in 0..400 * k {
        let n = match rng.below(6) {
            0 => 0,
            1 => 1,
            _ => 1 + rng.below(12),
        };
        let mut budget = (1u64 << 32) - 1 - 36 - 41 * n;
        let mut v = Vec::new();
        for _ in 0..n {
            let id = rand_id(rng);
            let t = if rng.chance(1, 2) { 't' } else { 'd' };
            let len = rand_len(rng, &mut budget);
            let off = if rng.chance(1, 2) { 0 } else { rng.below(1 << 32) };
            let ul = rand_ulen(rng).map_or("-".to_string(), |u| u.to_string());
            v.push(format!("{}.{t}.{off}.{len}.{ul}", hex::encode(id)));
        }
        stats.hit(format!("hdr.entries.{}", Stats::bucket(n as usize)));
        ops.push(format!("c08 hdr {}", if v.is_empty() { "-".to_string() } else { v.join("+") }));
    }
    // --- parse (valid headers, then mutated)
    for _ in 0..500 * k {
        let n = rng.below(6);
        let mut h = Vec::new();
        let mut budget = 1u64 << 31;
        for _ in 0..n {
            let id = rand_id(rng);
            let len = rand_len(rng, &mut budget);
            let ul = match rng.below(8) {
                0 => Some(0), // NonZeroU32::new(0) = None on the way in
                _ => rand_ulen(rng),
            };
            encode_entry(&mut h, rng.chance(1, 2), len, ul, &id);
        }
        let kind = rng.below(8);
        match kind {
            0 | 1 => stats.hit("parse.valid"),
            2 => {
                stats.hit("parse.truncated");
                let cut = rng.below(h.len() as u64 + 1) as usize;
                h.truncate(cut);
            }
            3 => {
                stats.hit("parse.bad-magic");
                if !h.is_empty() {
                    // the first byte of some entry is hard to find after mutation; overwrite entry 0's magic
                    h[0] = 4 + rng.below(252) as u8;
                }
            }
            4 => {
                stats.hit("parse.trailing-junk");
                let extra = 1 + rng.below(45) as usize;
                let mut j = rng.bytes(extra);
                j[0] = rng.below(6) as u8;
                // keep length fields of junk small so that offsets cannot overflow u32
                for b in j.iter_mut().skip(3) {
                    if rng.chance(1, 2) {
                        *b = 0;
                    }
                }
                if j.len() > 4 {
                    j[4] = 0;
                }
                h.extend_from_slice(&j);
            }
            5 => {
                // only within the same length class (0<->1, 2<->3): a 37/41 mix-up shifts all following length fields, whose
                // garbage values overflow the u32 offset sum (panic in checked builds, wrap in release) — outside the statement
                stats.hit("parse.magic-swapped");
                if !h.is_empty() {
                    h[0] ^= 1;
                }
            }
            6 => {
                stats.hit("parse.one-byte");
                h = vec![rng.below(6) as u8];
            }
            _ => {
                stats.hit("parse.cut-at-entry-border");
                let mut cut = 0usize;
                let mut i = 0usize;
                while i < h.len() {
                    let need = if h[i] >= 2 { 41 } else { 37 };
                    if rng.chance(1, 2) {
                        break;
                    }
                    i += need;
                    cut = i.min(h.len());
                }
                h.truncate(cut);
            }
        }
        ops.push(format!("c08 parse {}", hex(&h)));
    }
    // --- pack
    for _ in 0..250 * k {
        let t = if rng.chance(1, 2) { 't' } else { 'd' };
        let n = match rng.below(6) {
            0 => 0,
            1 => 1,
            _ => 1 + rng.below(10),
        };
        let mut ids: Vec<[u8; 32]> = Vec::new();
        let mut adds = Vec::new();
        let mut total = 36u64;
        let mut distinct = 0u64;
        for _ in 0..n {
            let id = if !ids.is_empty() && rng.chance(1, 5) {
                stats.hit("pack.duplicate-add");
                *rng.pick(&ids)
            } else {
                distinct += 1;
                rand_id(rng)
            };
            ids.push(id);
            let len = match rng.below(8) {
                0 => 0u64,
                1 => 1,
                2 => 32,
                3 => 33,
                4 => 4096,
                _ => rng.below(if thorough { 30_000 } else { 3_000 }),
            };
            total += len + 41;
            let ul = rand_ulen(rng).map_or("-".to_string(), |u| u.to_string());
            adds.push(format!("{}.{len}.{ul}", hex::encode(id)));
        }
        let _ = distinct;
        // reads: hints around 0, the true header size, the pack size; sizes: true and wrong ones
        let mut reads = vec!["-:-".to_string(), "0:-".to_string()];
        let hsz = 32 + 41 * n; // an upper bound of the header size; exact value unknown here (duplicates, 37 vs 41)
        for h in [1, 31, 32, 33, 36, 37, 41, hsz.saturating_sub(4), hsz, hsz + 1, hsz + 4, total.saturating_sub(5), total.saturating_sub(4), total.saturating_sub(3), total, total + 1, 1 << 20, u64::from(u32::MAX) - 4, u64::from(u32::MAX) - 3, u64::from(u32::MAX)] {
            if rng.chance(1, 3) {
                reads.push(format!("{h}:-"));
            }
        }
        for _ in 0..3 {
            reads.push(format!("{}:-", rng.below(total + 50)));
        }
        for ps in [0u64, 1, 3, 4, 5, 35, 36, 37, total.saturating_sub(1), total + 1, total + 1000] {
            if rng.chance(1, 4) {
                let h = if rng.chance(1, 2) { "-".to_string() } else { rng.below(total + 10).to_string() };
                reads.push(format!("{h}:{ps}"));
            }
        }
        // MODIFIED files read with their own (new) true size — what `repair index` / `to_indexed_checked` hand to `from_file`:
        // junk / a copy of the first blob / the whole pack in FRONT (the header at the end stays intact), junk at the END
        let rand_hint = |rng: &mut Rng| match rng.below(4) {
            0 => "-".to_string(),
            1 => hsz.to_string(),
            2 => rng.below(total + 50).to_string(),
            _ => "0".to_string(),
        };
        for _ in 0..(1 + rng.below(3)) {
            let k = *rng.pick(&[1u64, 2, 4, 16, 32, 36, 37, 41, 100, 4096]);
            let k = if rng.chance(1, 3) { 1 + rng.below(3000) } else { k };
            let spec = match rng.below(7) {
                0 | 1 => format!("F{k}"),
                2 => format!("E{k}"),
                3 | 4 => "FB".to_string(),
                _ => "FP".to_string(),
            };
            stats.hit(format!("pack.read.extended.{}", &spec[..spec.len().min(2)].trim_end_matches(char::is_numeric)));
            let h = rand_hint(rng);
            reads.push(format!("{h}:{spec}"));
        }
        stats.hit(format!("pack.adds.{}", Stats::bucket(n as usize)));
        stats.add("pack.reads", reads.len() as u64);
        ops.push(format!("c08 pack {t} {} {}", if adds.is_empty() { "-".to_string() } else { adds.join("+") }, reads.join(",")));
    }
    // --- packs with MANY blobs, up to the packer's count limit (`packn`): header of `MAX_COUNT` entries all compressed (41 bytes
    // each: the largest header the packer can produce), all uncompressed, mixed; counts just below the limit and in between;
    // `from_file` without hint, with hints 0 / exact / off by one / off by one entry / far too large, and a wrong pack size
    {
        let mut cases: Vec<(char, String, u64, char)> = vec![('d', "max".into(), 1, 'c'), ('t', "max".into(), 2, 'm'), ('d', "max".into(), 1, 'u'), ('t', "max".into(), 3, 'c')];
        for _ in 0..(if thorough { 30 } else { 3 }) {
            let n = match rng.below(3) {
                0 => "max".to_string(),
                1 => (9_990 + rng.below(10)).to_string(),
                _ => (5_000 + rng.below(5_000)).to_string(),
            };
            cases.push((if rng.chance(1, 2) { 't' } else { 'd' }, n, rng.below(5), *rng.pick(&['c', 'c', 'm', 'u'])));
        }
        for (t, n, len, mode) in cases {
            let mut reads = vec!["-:-".to_string(), "0:-".to_string(), "h0:-".to_string()];
            for r in ["h-1:-", "h1:-", "h-41:-", "h-37:-", "h41:-", "h-4:-", "4294967295:-", "h0:77", "-:1000"] {
                if rng.chance(1, 3) {
                    reads.push(r.to_string());
                }
            }
            reads.push(format!("{}:-", rng.below(500_000)));
            // one read of the pack extended at the front / duplicated / extended at the end, with its own true size
            reads.push(format!("{}:{}", rng.pick(&["-", "h0", "0"]), rng.pick(&["F1", "F41", "FB", "FP", "E4", "F1000"])));
            stats.hit("packn.read.extended");
            stats.hit(format!("packn.{mode}.{}", if n == "max" { "count-limit" } else { "below-limit" }));
            stats.add("pack.reads", reads.len() as u64);
            ops.push(format!("c08 packn {t} {n} {len} {mode} {}", reads.join(",")));
        }
        // `parse`: a header as long as the largest the packer writes (10,000 entries), all compressed / mixed, whole and cut
        for k in 0..(if thorough { 6 } else { 2 }) {
            let mut h = Vec::with_capacity(410_000);
            for i in 0..10_000u64 {
                let mut id = [0u8; 32];
                id[..8].copy_from_slice(&i.to_be_bytes());
                id[8..16].copy_from_slice(&rng.next().to_le_bytes());
                let ul = if k % 2 == 0 || i % 3 != 0 { Some(1 + rng.below(70_000) as u32) } else { None };
                encode_entry(&mut h, k % 2 == 1 && rng.chance(1, 2), 1 + rng.below(60_000) as u32, ul, &id);
            }
            if k >= 2 {
                let cut = rng.below(h.len() as u64) as usize;
                h.truncate(cut);
            }
            stats.hit("parse.count-limit-header");
            ops.push(format!("c08 parse {}", hex(&h)));
        }
    }
    // --- repair_index model correspondence
    for _ in 0..(if thorough { 600 } else { 60 }) {
        let c = gen_rix_case(rng, stats);
        ops.push(format!("c08 rix {c}"));
    }
    // --- repositories
    let variants = ["backup", "prune-fast", "prune-copy", "prune-all", "copy", "merge", "rewrite", "repair-snapshots"];
    let n_repo = if thorough { 96 } else { 16 };
    for i in 0..n_repo {
        let v = variants[i % variants.len()];
        stats.hit(format!("repo.{v}"));
        ops.push(format!("c08 repo {v} {}", rng.below(1 << 40)));
    }
    // --- pack writer model: adds over both lanes with small pack size limits; single-lane cases also with one failing write
    for i in 0..(if thorough { 400 } else { 60 }) {
        let single = rng.chance(1, 2);
        let groups = 1 + rng.below(6);
        let mut adds = Vec::new();
        let mut total = 0u64;
        for _ in 0..groups {
            let t = if single || rng.chance(2, 3) { 'd' } else { 't' };
            let len = match rng.below(5) {
                0 => 0,
                1 => 1,
                2 => rng.below(40),
                _ => rng.below(300),
            };
            let c = match rng.below(4) {
                0 => 1,
                1 => 1 + rng.below(4),
                _ => 1 + rng.below(if thorough { 120 } else { 40 }),
            };
            total += c;
            adds.push(if c == 1 && rng.chance(1, 2) { format!("{t}{len}") } else { format!("{t}{len}x{c}") });
        }
        let dl = *rng.pick(&[1u64, 100, 500, 1500, 5000, 1 << 20]);
        let tl = *rng.pick(&[1u64, 100, 500, 1 << 20]);
        let fail = if single && rng.chance(1, 2) {
            stats.hit("pw.with-failing-write");
            // anywhere from the first pack write to (sometimes) beyond the last operation
            rng.below(3 + total.min(12)).to_string()
        } else {
            "-".to_string()
        };
        stats.hit(if single { "pw.single-lane" } else { "pw.two-lanes" });
        stats.add("pw.blobs", total);
        if thorough && i == 0 {
            // more blobs than the indexer's MAX_COUNT in one lane: the index file auto-save is part of the model's answer
            stats.hit("pw.index-auto-save");
            ops.push(format!("c08 pw {} {} - d1x{}", 1u64 << 30, 1u64 << 30, 50_001 + rng.below(3000)));
        }
        ops.push(format!("c08 pw {dl} {tl} {fail} {}", adds.join(",")));
    }
    // --- order of pack and index writes in recorded logs of real commands
    let ov: &[(&str, usize, usize)] =
        &[("backup", 2, 10), ("prune", 2, 10), ("copy", 1, 5), ("tiny", 1, 4), ("tinyfail", 2, 14), ("backupfail", 4, 30), ("bigbackup", 2, 6)];
    for (v, q, t) in ov {
        for _ in 0..(if thorough { *t } else { *q }) {
            stats.hit(format!("order.{v}"));
            ops.push(format!("c08 order {v} {}", rng.below(1 << 40)));
        }
    }
    // a repository holding a data pack that was closed by the packer's blob-COUNT limit (tiny chunks, compression on), whose
    // index entry is lost: `repair index` must bring it back (quick: ≈ 2 s each)
    for v in ["fullpack", "fullpack-readall"] {
        for _ in 0..(if thorough { 4 } else { 1 }) {
            stats.hit(format!("repair.{v}"));
            ops.push(format!("c08 repair {v} {}", rng.below(1 << 40)));
        }
    }
    let rv = ["all", "some", "none", "all-readall", "some-readall", "none-readall", "badhint"];
    let n_rep = if thorough { 70 } else { 14 };
    for i in 0..n_rep {
        let v = rv[i % rv.len()];
        stats.hit(format!("repair.{v}"));
        ops.push(format!("c08 repair {v} {}", rng.below(1 << 40)));
    }
    // --- round 3: the same repair oracle on a hot/cold pair of stores (`hc-`), with a dry run first (`dry-`), with a data pack
    // lost from storage (`lostpack`); the dry-run variant of the model correspondence (`rixd`); the `cacheable` rule (`cflags`)
    let rv3 = [
        "hc-all", "hc-some", "hc-none-readall", "hc-all-readall", "hc-some-readall", "hc-badhint", "hc-lostpack", "hc-none",
        "dry-all", "dry-some", "dry-none", "dry-all-readall", "dry-none-readall", "dry-some-readall", "dry-lostpack", "dry-lostpack-readall", "dry-badhint",
        "hc-dry-all", "hc-dry-all-readall", "hc-dry-none-readall", "hc-dry-lostpack", "hc-dry-some", "hc-dry-badhint",
        "lostpack", "lostpack-readall",
    ];
    for _ in 0..(if thorough { 4 } else { 1 }) {
        for v in rv3 {
            stats.hit(format!("repair.{v}"));
            ops.push(format!("c08 repair {v} {}", rng.below(1 << 40)));
        }
    }
    for _ in 0..(if thorough { 400 } else { 50 }) {
        let c = gen_rix_case(rng, stats);
        stats.hit(if c.starts_with('1') { "rixd.read-all" } else { "rixd.default" });
        ops.push(format!("c08 rixd {c}"));
    }
    for _ in 0..(if thorough { 24 } else { 4 }) {
        stats.hit("cflags");
        ops.push(format!("c08 cflags {}", rng.below(1 << 40)));
    }
}

// ------------------------------------------------------------------ exec: format level

fn exec_hdr(blobs: &str) -> String {
    let bs: Option<Vec<IndexBlob>> = if blobs == "-" { Some(vec![]) } else { blobs.split('+').map(parse_blob).collect() };
    let Some(bs) = bs else { return "bad-op".into() };
    let bin = match pf::to_binary(&bs) {
        Ok(b) => b,
        Err(_) => return "err:to_binary".into(),
    };
    let parsed = match pf::from_binary(&bin) {
        Ok(p) => p,
        Err(_) => return "oracle-fail:own-header-unreadable".into(),
    };
    format!("ok bin={} size={} psize={} parsed={}", hex(&bin), pf::header_size(&bs), pf::pack_size(&bs), blobs_str(&parsed))
}

fn exec_parse(h: &str) -> String {
    let Some(bytes) = unhex(h) else { return "bad-op".into() };
    match pf::from_binary(&bytes) {
        Ok(p) => format!("ok {}", blobs_str(&p)),
        Err(_) => "err".into(),
    }
}

fn det_data(id: &Id, len: usize) -> Vec<u8> {
    let seed = id_bytes(id);
    (0..len).map(|i| seed[i % 32] ^ (i as u8).wrapping_mul(31) ^ ((i >> 8) as u8)).collect()
}

fn exec_pack(t: &str, adds: &str, reads: &str) -> String {
    let bt = match t {
        "t" => BlobType::Tree,
        "d" => BlobType::Data,
        _ => return "bad-op".into(),
    };
    let mut add_list: Vec<(Id, usize, Option<NonZeroU32>)> = Vec::new();
    if adds != "-" {
        for a in adds.split('+') {
            let f: Vec<&str> = a.split('.').collect();
            if f.len() != 3 {
                return "bad-op".into();
            }
            let (Some(id), Ok(len)) = (parse_id(f[0]), f[1].parse::<usize>()) else { return "bad-op".into() };
            let ul = if f[2] == "-" {
                None
            } else {
                match f[2].parse::<u32>().ok().and_then(NonZeroU32::new) {
                    Some(u) => Some(u),
                    None => return "bad-op".into(),
                }
            };
            add_list.push((id, len, ul));
        }
    }
    let mut read_list: Vec<(Option<Hint>, PsSpec)> = Vec::new();
    for r in reads.split(',') {
        let Some((h, p)) = r.split_once(':') else { return "bad-op".into() };
        let hh = if h == "-" { None } else { match h.parse::<u32>() { Ok(x) => Some(Hint::Abs(x)), Err(_) => return "bad-op".into() } };
        let Some(pp) = parse_ps(p) else { return "bad-op".into() };
        read_list.push((hh, pp));
    }
    pack_case(bt, &add_list, None, read_list, false)
}

/// `packn <t|d> <n|max> <len> <c|u|m> <reads>`: a pack with MANY blobs without a huge op line — `n` blobs (ids = running number,
/// `len` deterministic bytes each; `max` = blobs are added until the real `BasicPacker::should_save()` answers true under an
/// unlimited size limit, i.e. the pack is closed by the packer's COUNT limit `MAX_COUNT`; the model uses the regenerated
/// `PACKER_MAX_COUNT`), header entries all compressed (`c`: 41-byte entries), all uncompressed (`u`: 37 bytes) or mixed (`m`:
/// every third uncompressed); then the same oracles and `from_file` reads as `pack` (a hint `h<±k>` is relative to the true size
/// of the encrypted header).  -> `ok n=<#blobs> hsize=<header size> first=<blob> last=<blob> len=<file length> ff=<…>`
fn exec_packn(t: &str, n: &str, len: &str, mode: &str, reads: &str) -> String {
    let bt = match t {
        "t" => BlobType::Tree,
        "d" => BlobType::Data,
        _ => return "bad-op".into(),
    };
    let n: Option<usize> = if n == "max" { None } else { match n.parse::<usize>() { Ok(n) if n <= 20_000 => Some(n), _ => return "bad-op".into() } };
    let Ok(len) = len.parse::<usize>() else { return "bad-op".into() };
    if len > 64 || !["c", "u", "m"].contains(&mode) {
        return "bad-op".into();
    }
    let ulen = |k: usize| -> Option<NonZeroU32> {
        match mode {
            "c" => NonZeroU32::new(len as u32 + 7),
            "u" => None,
            _ => if k % 3 == 0 { None } else { NonZeroU32::new(len as u32 + 7) },
        }
    };
    let add_list: Vec<(Id, usize, Option<NonZeroU32>)> = (0..n.unwrap_or(20_000)).map(|k| (label_id(k as u64), len, ulen(k))).collect();
    let mut read_list: Vec<(Option<Hint>, PsSpec)> = Vec::new();
    for r in reads.split(',') {
        let Some((h, p)) = r.split_once(':') else { return "bad-op".into() };
        let hh = if h == "-" {
            None
        } else if let Some(rel) = h.strip_prefix('h') {
            match rel.parse::<i64>() { Ok(x) if x.abs() < 1 << 20 => Some(Hint::Rel(x)), _ => return "bad-op".into() }
        } else {
            match h.parse::<u32>() { Ok(x) => Some(Hint::Abs(x)), Err(_) => return "bad-op".into() }
        };
        let Some(pp) = parse_ps(p) else { return "bad-op".into() };
        read_list.push((hh, pp));
    }
    pack_case(bt, &add_list, Some(n.is_none()), read_list, true)
}

/// size hint of a `from_file` read: absolute, or relative to the true size of the encrypted header
#[derive(Clone, Copy)]
enum Hint {
    Abs(u32),
    Rel(i64),
}

/// the pack-size part of a `from_file` read: `-` the stored file with its true size, `<n>` the stored file with a WRONG size
/// argument, or a MODIFIED stored file read with ITS true size (what `repair index` / `to_indexed_checked` do after listing the
/// packs): `F<k>` = k junk bytes put in FRONT of the pack, `E<k>` = k junk bytes appended, `FB` = a copy of the first blob in
/// front, `FP` = the whole pack twice.  The header at the end of a front-extended pack is intact.
#[derive(Clone, Copy)]
enum PsSpec {
    True,
    Abs(u32),
    Front(u32),
    End(u32),
    FrontBlob,
    Dup,
}

fn parse_ps(p: &str) -> Option<PsSpec> {
    Some(match p {
        "-" => PsSpec::True,
        "FB" => PsSpec::FrontBlob,
        "FP" => PsSpec::Dup,
        _ => {
            if let Some(k) = p.strip_prefix('F') {
                PsSpec::Front(k.parse::<u32>().ok().filter(|k| *k <= 1 << 20)?)
            } else if let Some(k) = p.strip_prefix('E') {
                PsSpec::End(k.parse::<u32>().ok().filter(|k| *k <= 1 << 20)?)
            } else {
                PsSpec::Abs(p.parse::<u32>().ok()?)
            }
        }
    })
}

/// the junk of `F<k>` / `E<k>` (the same bytes in the Lean driver)
fn junk(k: u32) -> Vec<u8> {
    (0..k).map(|i| (i.wrapping_mul(37).wrapping_add(11)) as u8).collect()
}

/// Shared body of `pack` / `packn`.  `until_full`: `Some(true)` = stop adding as soon as the real packer says `should_save()`.
fn pack_case(bt: BlobType, add_list: &[(Id, usize, Option<NonZeroU32>)], until_full: Option<bool>, read_list: Vec<(Option<Hint>, PsSpec)>, compact: bool) -> String {
    let key = Key::new();
    let mut packer = BasicPackerHook::new(bt, PackSizer::fixed(u32::MAX));
    let mut first_data: BTreeMap<Id, Vec<u8>> = BTreeMap::new();
    for (id, len, ul) in add_list {
        if until_full == Some(true) && packer.should_save() {
            break;
        }
        let data = det_data(id, *len);
        _ = first_data.entry(*id).or_insert_with(|| data.clone());
        if let Err(e) = packer.add_raw(Bytes::from(data), &BlobId::from(*id), *len as u64, *ul) {
            return errkind(&e);
        }
    }
    let header = match packer.header_bytes() {
        Ok(h) => h,
        Err(e) => return errkind(&e),
    };
    let enc = match key.encrypt_data(&header) {
        Ok(e) => e,
        Err(e) => return errkind(&e),
    };
    if let Err(e) = packer.write_header(Bytes::from(enc.clone())) {
        return errkind(&e);
    }
    let (file, index) = packer.take_data();
    let mut bytes = Vec::new();
    for b in file.slice() {
        bytes.extend_from_slice(b);
    }
    // ---- oracles on the real pack
    if bytes.len() as u64 != u64::from(index.pack_size()) {
        return "oracle-fail:pack-size".into();
    }
    if index.size.is_some() {
        return "oracle-fail:size-field-set".into();
    }
    for b in &index.blobs {
        let (o, l) = (b.location.offset as usize, b.location.length as usize);
        let want = &first_data[&Id::from(*b.id)];
        if o + l > bytes.len() || &bytes[o..o + l] != want.as_slice() || b.tpe != bt {
            return "oracle-fail:blob-bytes".into();
        }
    }
    if bytes.len() < 4 {
        return "oracle-fail:trailer".into();
    }
    let hl = u32::from_le_bytes(bytes[bytes.len() - 4..].try_into().unwrap()) as usize;
    if hl != enc.len() || bytes.len() < 4 + hl || bytes[bytes.len() - 4 - hl..bytes.len() - 4] != enc[..] {
        return "oracle-fail:trailer".into();
    }
    let plain = match key.decrypt_data(&bytes[bytes.len() - 4 - hl..bytes.len() - 4]) {
        Ok(p) => p,
        Err(_) => return "oracle-fail:trailer-decrypt".into(),
    };
    let Some(own) = parse_header_independent(&plain) else { return "oracle-fail:header-unparsable".into() };
    let mut off = 0u32;
    if own.len() != index.blobs.len() {
        return "oracle-fail:header-vs-index".into();
    }
    for (e, b) in own.iter().zip(&index.blobs) {
        let ok = e.0 == (b.tpe == BlobType::Tree)
            && e.1 == b.location.length
            && e.2 == b.location.uncompressed_length.map(NonZeroU32::get)
            && e.3 == id_bytes(&b.id)
            && off == b.location.offset;
        if !ok {
            return "oracle-fail:header-vs-index".into();
        }
        off += e.1;
    }
    // ---- real from_file for every (hint, pack size)
    let be = MemBackend::new();
    let pid = Id::new(Sha256::digest(&bytes).into());
    be.put_raw(FileType::Pack, pid, Bytes::from(bytes.clone()));
    let dbe = DecryptBackend::new(Arc::new(be.clone()) as Arc<dyn WriteBackend>, key);
    let mut ff = Vec::new();
    for (hint, ps) in read_list {
        let hint: Option<u32> = hint.map(|x| match x {
            Hint::Abs(a) => a,
            Hint::Rel(r) => (hl as i64 + r).max(0) as u32,
        });
        // the file that is read and the pack size handed to `from_file`
        let first_blob = index.blobs.first().map_or(0, |b| b.location.length as usize);
        let modified: Option<Vec<u8>> = match ps {
            PsSpec::True | PsSpec::Abs(_) => None,
            PsSpec::Front(k) => Some([junk(k), bytes.clone()].concat()),
            PsSpec::End(k) => Some([bytes.clone(), junk(k)].concat()),
            PsSpec::FrontBlob => Some([bytes[..first_blob].to_vec(), bytes.clone()].concat()),
            PsSpec::Dup => Some([bytes.clone(), bytes.clone()].concat()),
        };
        let (rid, size_arg) = match (&modified, ps) {
            (Some(m), _) => {
                let mid = Id::new(Sha256::digest(m).into());
                be.put_raw(FileType::Pack, mid, Bytes::from(m.clone()));
                (mid, m.len() as u32)
            }
            (None, PsSpec::Abs(v)) => (pid, v),
            (None, _) => (pid, bytes.len() as u32),
        };
        let true_size = size_arg == bytes.len() as u32;
        let r = guarded(std::panic::AssertUnwindSafe(|| match pf::from_file(&dbe, PackId::from(rid), hint, size_arg) {
            Ok(bl) => {
                if same_blobs(&bl, &index.blobs) {
                    "=".to_string()
                } else {
                    "ne".to_string()
                }
            }
            Err(e) => {
                if true_size {
                    errkind(&e)
                } else {
                    "e".to_string()
                }
            }
        }));
        ff.push(r);
    }
    let bl: Vec<String> = index
        .blobs
        .iter()
        .map(|b| format!("{}.{}.{}.{}.{}", &b.id.to_hex().as_str()[..8], t_str(b.tpe), b.location.offset, b.location.length, ulen_str(b.location.uncompressed_length)))
        .collect();
    if compact {
        return format!(
            "ok n={} hsize={} first={} last={} len={} ff={}",
            bl.len(),
            hl,
            bl.first().map_or("-", |s| s.as_str()),
            bl.last().map_or("-", |s| s.as_str()),
            bytes.len(),
            ff.join(",")
        );
    }
    format!("ok blobs={} len={} ff={}", if bl.is_empty() { "-".to_string() } else { bl.join(",") }, bytes.len(), ff.join(","))
}

// ------------------------------------------------------------------ exec: repository level

fn gen_source(rng: &mut Rng, n_files: usize, max_len: usize) -> MemSource {
    let mut entries = Vec::new();
    for i in 0..n_files {
        let len = match rng.below(6) {
            0 => 0,
            1 => 1,
            2 => rng.below(100) as usize,
            _ => rng.below(max_len as u64) as usize,
        };
        let content = match rng.below(4) {
            0 => vec![b'a'; len],
            1 => {
                // compressible text
                let words: [&[u8]; 4] = [b"alpha ", b"beta ", b"gamma\n", b"0123456789"];
                let mut v = Vec::new();
                while v.len() < len {
                    let w: &[u8] = words[rng.below(4) as usize];
                    v.extend_from_slice(w);
                }
                v.truncate(len);
                v
            }
            _ => rng.bytes(len),
        };
        let name = format!("f{i:03}");
        if rng.chance(1, 3) {
            let d = format!("d{}", rng.below(3));
            entries.push(SrcEntry::file(&[d.as_bytes(), name.as_bytes()], &content));
        } else {
            entries.push(SrcEntry::file(&[name.as_bytes()], &content));
        }
    }
    MemSource::new(entries)
}

fn mutate_source(rng: &mut Rng, src: &MemSource, max_len: usize, round: u64) -> MemSource {
    let mut entries: Vec<SrcEntry> = Vec::new();
    for e in &src.entries {
        match (&e.kind, rng.below(4)) {
            (repo::SrcKind::File(_), 0) => {} // deleted
            (repo::SrcKind::File(c), 1) => {
                let mut c = c.clone();
                if c.is_empty() {
                    c = rng.bytes(50);
                } else {
                    let p = rng.below(c.len() as u64) as usize;
                    c[p] ^= 0x55;
                    let extra = rng.below(300) as usize;
                    c.extend_from_slice(&rng.bytes(extra));
                }
                let mut e2 = e.clone();
                e2.kind = repo::SrcKind::File(c);
                e2.mtime_s += 10;
                entries.push(e2);
            }
            (repo::SrcKind::Dir, _) => {}
            _ => entries.push(e.clone()),
        }
    }
    let extra = gen_source(rng, 3, max_len);
    for mut e in extra.entries {
        if let repo::SrcKind::File(_) = e.kind {
            if let Some(last) = e.path.last_mut() {
                last.extend_from_slice(format!("-new{round}").as_bytes());
            }
            entries.push(e);
        }
    }
    MemSource::new(entries)
}

/// Open every pack of the store with the master key, independently of `packfile.rs`, and compare with the index.
fn verify_packs(h: &RepoHandle) -> Result<usize, String> {
    let repo = h.open_nocache().map_err(|e| errkind(&e))?;
    let dbe = rustic_core::verif::repository::dbe(&repo);
    let key = rustic_core::verif::keyfile::master_key_to_key(&h.key);
    // the index: all packs listed anywhere (marked or not)
    let mut listed: BTreeMap<Id, Vec<IndexPack>> = BTreeMap::new();
    for id in h.be.ids(FileType::Index) {
        let f: IndexFile = dbe.get_file(&rustic_core::repofile::IndexId::from(id)).map_err(|_| "oracle-fail:index-unreadable".to_string())?;
        for p in f.packs.into_iter().chain(f.packs_to_delete) {
            listed.entry(Id::from(*p.id)).or_default().push(p);
        }
    }
    let packs = h.be.ids(FileType::Pack);
    for pid in &packs {
        let bytes = h.be.get(FileType::Pack, pid).unwrap();
        if Id::new(Sha256::digest(&bytes).into()) != *pid {
            return Err("oracle-fail:pack-name-not-sha256".into());
        }
        let Some(entries) = listed.get(pid) else { return Err("oracle-fail:pack-not-in-index".into()) };
        if bytes.len() < 4 {
            return Err("oracle-fail:pack-too-short".into());
        }
        let n = bytes.len();
        let hl = u32::from_le_bytes(bytes[n - 4..].try_into().unwrap()) as usize;
        if hl + 4 > n {
            return Err("oracle-fail:header-length-field".into());
        }
        let plain = key.decrypt_data(&bytes[n - 4 - hl..n - 4]).map_err(|_| "oracle-fail:header-mac".to_string())?;
        let own = parse_header_independent(&plain).ok_or_else(|| "oracle-fail:header-unparsable".to_string())?;
        for p in entries {
            if u64::from(p.pack_size()) != n as u64 {
                return Err("oracle-fail:index-size-vs-file".into());
            }
            if let Some(s) = p.size {
                if s as usize != n {
                    return Err("oracle-fail:index-size-field".into());
                }
            }
            if own.len() != p.blobs.len() {
                return Err("oracle-fail:header-count-vs-index".into());
            }
            let mut off = 0u32;
            let pack_type = p.blobs.first().map(|b| b.tpe);
            for (e, b) in own.iter().zip(&p.blobs) {
                if e.0 != (b.tpe == BlobType::Tree) || Some(b.tpe) != pack_type {
                    return Err("oracle-fail:blob-type".into());
                }
                if e.3 != id_bytes(&b.id) {
                    return Err("oracle-fail:blob-id-or-order".into());
                }
                if e.1 != b.location.length || off != b.location.offset {
                    return Err("oracle-fail:blob-offset-or-length".into());
                }
                if e.2.and_then(NonZeroU32::new) != b.location.uncompressed_length {
                    return Err("oracle-fail:blob-uncompressed-length".into());
                }
                off += e.1;
            }
            if off as usize + hl + 4 != n {
                return Err("oracle-fail:data-area-vs-header".into());
            }
        }
        // contents: every blob decrypts (+ decompresses to the recorded length) to bytes whose SHA-256 is its id
        let mut off = 0usize;
        for e in &own {
            let ct = &bytes[off..off + e.1 as usize];
            let pt = dbe
                .read_encrypted_from_partial(ct, e.2.and_then(NonZeroU32::new))
                .map_err(|_| "oracle-fail:blob-unreadable".to_string())?;
            if <[u8; 32]>::from(Sha256::digest(&pt)) != e.3 {
                return Err("oracle-fail:blob-hash".into());
            }
            off += e.1 as usize;
        }
    }
    // every unmarked index entry must have its pack
    for id in h.be.ids(FileType::Index) {
        let f: IndexFile = dbe.get_file(&rustic_core::repofile::IndexId::from(id)).map_err(|_| "oracle-fail:index-unreadable".to_string())?;
        for p in &f.packs {
            if !packs.contains(&Id::from(*p.id)) {
                return Err("oracle-fail:indexed-pack-missing".into());
            }
        }
    }
    Ok(packs.len())
}

/// `repo::expected` lists the entries below the snapshot root; `repo::read_back` also yields the root directory `src`.
fn expected_with_root(src: &MemSource) -> Vec<repo::ReadBack> {
    let mut v = vec![repo::ReadBack { path: b"src".to_vec(), kind: "dir".into(), content: None, link: None, mode: Some(0o755), mtime_s: Some(1_600_000_000) }];
    v.extend(repo::expected(src));
    v
}

struct Scenario {
    h: RepoHandle,
    /// snapshot -> expected read-back
    snaps: Vec<(SnapshotFile, Vec<repo::ReadBack>)>,
}

fn config_for(rng: &mut Rng) -> ConfigOptions {
    let mut c = ConfigOptions::default();
    match rng.below(4) {
        0 => c.set_compression = Some(-(rng.range(1, 7) as i32)),
        1 => c.set_compression = Some(0),
        2 => c.set_compression = Some(rng.range(1, 19) as i32),
        _ => {}
    }
    // small packs, so that a backup writes several of them and prune has something to repack
    if rng.chance(3, 4) {
        c.set_datapack_size = Some(bytesize::ByteSize::kib(rng.range(4, 64)));
        c.set_treepack_size = Some(bytesize::ByteSize::kib(rng.range(1, 8)));
    }
    c
}

fn build(rng: &mut Rng, variant: &str) -> Result<Scenario, String> {
    build_on(MemBackend::new(), MemBackend::new(), rng, variant)
}

/// `be2` is the backend of the target repository of the `copy` variant.
fn build_on(be: MemBackend, be2: MemBackend, rng: &mut Rng, variant: &str) -> Result<Scenario, String> {
    build_hc(be, None, be2, rng, variant)
}

/// As `build_on`; with `hot = Some(..)` the repository is a hot/cold pair (`be` = cold part): the hot part receives only what
/// `HotColdBackend` puts there (tree packs, index, snapshot and key files, the hot config).
fn build_hc(be: MemBackend, hot: Option<MemBackend>, be2: MemBackend, rng: &mut Rng, variant: &str) -> Result<Scenario, String> {
    let cfg = config_for(rng);
    let (h, _repo) = RepoHandle::init_nocache(be, hot, &cfg).map_err(|e| errkind(&e))?;
    let max_len = 60_000;
    let mut snaps = Vec::new();
    let n_files = 4 + rng.below(8) as usize;
    let mut src = gen_source(rng, n_files, max_len);
    let n_backups = 2 + rng.below(2);
    for i in 0..n_backups {
        let snap = SnapshotOptions::default().to_snapshot().map_err(|e| errkind(&e))?;
        let s = repo::backup_nocache(&h, &src, &BackupOptions::default(), snap).map_err(|e| errkind(&e))?;
        snaps.push((s, expected_with_root(&src)));
        if i + 1 < n_backups {
            src = mutate_source(rng, &src, max_len, i);
        }
    }
    let prune = |opts: PruneOptions, forget_first: bool, snaps: &mut Vec<(SnapshotFile, Vec<repo::ReadBack>)>| -> Result<(), String> {
        if forget_first {
            let repo = h.open_nocache().map_err(|e| errkind(&e))?;
            let (s, _) = snaps.remove(0);
            repo.delete_snapshots(&[s.id]).map_err(|e| errkind(&e))?;
        }
        let repo = h.open_nocache().map_err(|e| errkind(&e))?;
        let plan = repo.prune_plan(&opts).map_err(|e| errkind(&e))?;
        repo.prune(&opts, plan).map_err(|e| errkind(&e))?;
        Ok(())
    };
    let mut base = PruneOptions::default();
    base.keep_pack = rustic_core::jiff::Span::new();
    base.keep_delete = rustic_core::jiff::Span::new();
    base.max_unused = LimitOption::Percentage(0);
    base.max_repack = LimitOption::Unlimited;
    base.instant_delete = rng.chance(1, 2);
    match variant {
        "backup" => {}
        "prune-fast" => {
            base.fast_repack = true;
            prune(base, true, &mut snaps)?;
        }
        "prune-copy" => {
            if rng.chance(1, 2) {
                base.repack_uncompressed = true;
            }
            prune(base, true, &mut snaps)?;
        }
        "prune-all" => {
            base.repack_all = true;
            let forget = rng.chance(1, 2);
            prune(base, forget, &mut snaps)?;
        }
        "merge" => {
            // merge all snapshots into a new one (writes new tree packs); the old snapshots stay and must read back
            let repo = h.open_nocache().map_err(|e| errkind(&e))?.to_indexed_ids().map_err(|e| errkind(&e))?;
            let all: Vec<SnapshotFile> = snaps.iter().map(|(s, _)| s.clone()).collect();
            let snap = SnapshotOptions::default().to_snapshot().map_err(|e| errkind(&e))?;
            let merged = repo
                .merge_snapshots(&all, &|a: &rustic_core::repofile::Node, b: &rustic_core::repofile::Node| a.meta.mtime.cmp(&b.meta.mtime), snap)
                .map_err(|e| errkind(&e))?;
            // the merged snapshot must be readable as a whole (content = some union; only readability is required here)
            let r2 = h.open_nocache().map_err(|e| errkind(&e))?.to_indexed().map_err(|e| errkind(&e))?;
            _ = repo::read_back(&r2, &merged).map_err(|_| "oracle-fail:merged-snapshot-unreadable".to_string())?;
        }
        "rewrite" => {
            // rewrite all snapshots with some files excluded: new trees are written (tree packs); the old snapshots stay
            // (RewriteOptions::default keeps them) and must read back, the rewritten ones must be readable as a whole
            let repo = h.open_nocache().map_err(|e| errkind(&e))?.to_indexed().map_err(|e| errkind(&e))?;
            let all: Vec<SnapshotFile> = snaps.iter().map(|(s, _)| s.clone()).collect();
            let glob = format!("!**/f00{}*", rng.below(8));
            let topts = rustic_core::RewriteTreesOptions::default().excludes(rustic_core::Excludes::default().globs(vec![glob, "!**/d1/*".to_string()]));
            let new = repo.rewrite_snapshots_and_trees(all, &rustic_core::RewriteOptions::default(), &topts).map_err(|e| errkind(&e))?;
            let r2 = h.open_nocache().map_err(|e| errkind(&e))?.to_indexed().map_err(|e| errkind(&e))?;
            if std::env::var("C08_DEBUG").is_ok() {
                eprintln!("rewrite: {} new snapshots, {} with a new tree", new.len(), new.iter().filter(|n| snaps.iter().all(|(s, _)| s.tree != n.tree)).count());
            }
            for s in &new {
                _ = repo::read_back(&r2, s).map_err(|_| "oracle-fail:rewritten-snapshot-unreadable".to_string())?;
            }
        }
        "repair-snapshots" => {
            // lose one data pack (file and index entry stay consistent: the pack is removed from storage and `repair index`
            // drops it), then `repair snapshots` writes new trees without the damaged files; every pack that exists afterwards
            // must still describe itself.  The original snapshots are replaced — only pack / index agreement is checked.
            let packs = h.be.ids(FileType::Pack);
            let repo = h.open_nocache().map_err(|e| errkind(&e))?.to_indexed().map_err(|e| errkind(&e))?;
            let data_packs: Vec<Id> = {
                let mut v = vec![];
                for id in &h.be.ids(FileType::Index) {
                    let f = rustic_core::verif::repository::dbe(&repo).get_file::<IndexFile>(&rustic_core::repofile::IndexId::from(*id)).map_err(|e| errkind(&e))?;
                    v.extend(f.packs.iter().filter(|p| p.blob_type() == BlobType::Data && !p.blobs.is_empty()).map(|p| Id::from(*p.id)));
                }
                v.sort();
                v
            };
            drop(repo);
            if let Some(victim) = data_packs.get(rng.below(data_packs.len().max(1) as u64) as usize) {
                if packs.contains(victim) {
                    h.be.del_raw(FileType::Pack, victim);
                }
                let repo = h.open_nocache().map_err(|e| errkind(&e))?;
                repo.repair_index(&RepairIndexOptions::default(), false).map_err(|e| errkind(&e))?;
                let repo = h.open_nocache().map_err(|e| errkind(&e))?.to_indexed().map_err(|e| errkind(&e))?;
                let all: Vec<SnapshotFile> = snaps.iter().map(|(s, _)| s.clone()).collect();
                repo.repair_snapshots(&rustic_core::RepairSnapshotsOptions::default(), all, false).map_err(|e| errkind(&e))?;
                drop(repo);
                // what is left: the repaired snapshots (the damaged originals stay, tagged or not — they are not read here)
                let repo = h.open_nocache().map_err(|e| errkind(&e))?;
                let now = repo.get_all_snapshots().map_err(|e| errkind(&e))?;
                let r2 = h.open_nocache().map_err(|e| errkind(&e))?.to_indexed().map_err(|e| errkind(&e))?;
                let originals: BTreeSet<Id> = snaps.iter().map(|(s, _)| Id::from(*s.id)).collect();
                for s in now.iter().filter(|s| !originals.contains(&Id::from(*s.id))) {
                    _ = repo::read_back(&r2, s).map_err(|_| "oracle-fail:repaired-snapshot-unreadable".to_string())?;
                }
                _ = verify_packs(&h)?;
                return Ok(Scenario { h, snaps: vec![] });
            }
        }
        "copy" => {
            let cfg2 = config_for(rng);
            let (h2, _r2) = RepoHandle::init_nocache(be2, None, &cfg2).map_err(|e| errkind(&e))?;
            {
                let src_repo = h.open_nocache().map_err(|e| errkind(&e))?.to_indexed().map_err(|e| errkind(&e))?;
                let dst = h2.open_nocache().map_err(|e| errkind(&e))?.to_indexed_ids().map_err(|e| errkind(&e))?;
                let all: Vec<SnapshotFile> = snaps.iter().map(|(s, _)| s.clone()).collect();
                let rel = dst.relevant_copy_snapshots(|_| true, &all).map_err(|e| errkind(&e))?;
                let to_copy: Vec<&SnapshotFile> = rel.iter().filter(|c| c.relevant).map(|c| &c.sn).collect();
                src_repo.copy(&dst, to_copy).map_err(|e| errkind(&e))?;
            }
            // the target's snapshots have new ids; read them back by listing
            let dst = h2.open_nocache().map_err(|e| errkind(&e))?;
            let mut got = dst.get_all_snapshots().map_err(|e| errkind(&e))?;
            got.sort_by_key(|s| s.time.clone());
            let mut olds: Vec<(SnapshotFile, Vec<repo::ReadBack>)> = snaps.clone();
            olds.sort_by_key(|(s, _)| s.time.clone());
            if got.len() != olds.len() {
                return Err("oracle-fail:copy-snapshot-count".into());
            }
            // the source repository must verify too
            _ = verify_packs(&h)?;
            let snaps2 = got.into_iter().zip(olds).map(|(g, (_, e))| (g, e)).collect();
            return Ok(Scenario { h: h2, snaps: snaps2 });
        }
        _ => return Err("bad-op".into()),
    }
    Ok(Scenario { h, snaps })
}

fn read_all(sc: &Scenario) -> Result<(), String> {
    let repo = sc.h.open_nocache().map_err(|e| errkind(&e))?.to_indexed().map_err(|e| errkind(&e))?;
    for (s, want) in &sc.snaps {
        let got = repo::read_back(&repo, s).map_err(|_| "oracle-fail:snapshot-unreadable".to_string())?;
        if &got != want {
            if std::env::var("C08_DEBUG").is_ok() {
                for (g, w) in got.iter().zip(want.iter()) {
                    if g != w {
                        eprintln!("GOT  {:?} {} {:?} {:?} {:?} clen={:?}\nWANT {:?} {} {:?} {:?} {:?} clen={:?}", String::from_utf8_lossy(&g.path), g.kind, g.link, g.mode, g.mtime_s, g.content.as_ref().map(Vec::len), String::from_utf8_lossy(&w.path), w.kind, w.link, w.mode, w.mtime_s, w.content.as_ref().map(Vec::len));
                        break;
                    }
                }
                eprintln!("lens {} {}", got.len(), want.len());
            }
            return Err("oracle-fail:snapshot-content".into());
        }
    }
    Ok(())
}

/// As `read_all`, but through `to_indexed_checked()`: the index is compared with the pack files while it is loaded, packs that are
/// not (or wrongly) listed get their header read (`index_checked_from_collector`) — the in-memory form of "rebuild the index from
/// the packs".  A pure read: nothing may be written.
fn read_all_checked(sc: &Scenario) -> Result<(), String> {
    let repo = sc.h.open_nocache().map_err(|e| errkind(&e))?.to_indexed_checked().map_err(|_| "oracle-fail:to-indexed-checked-fails".to_string())?;
    for (s, want) in &sc.snaps {
        let got = repo::read_back(&repo, s).map_err(|_| "oracle-fail:snapshot-unreadable-with-checked-index".to_string())?;
        if &got != want {
            return Err("oracle-fail:snapshot-content-with-checked-index".into());
        }
    }
    Ok(())
}

fn exec_repo(variant: &str, seed: u64) -> String {
    let mut rng = Rng::new(seed);
    let sc = match build(&mut rng, variant) {
        Ok(s) => s,
        Err(e) => return e,
    };
    match verify_packs(&sc.h) {
        Err(e) => return e,
        Ok(n) => {
            if std::env::var("C08_DEBUG").is_ok() {
                let log = sc.h.be.log();
                eprintln!(
                    "{variant}: packs now {n}, index files {}, pack writes {}, pack removes {}",
                    sc.h.be.ids(FileType::Index).len(),
                    log.iter().filter(|o| o.write && o.tpe == FileType::Pack).count(),
                    log.iter().filter(|o| !o.write && o.tpe == FileType::Pack).count()
                );
            }
        }
    }
    if let Err(e) = read_all(&sc) {
        return e;
    }
    "ok".into()
}

/// How many blobs the real packer lets into one pack when the size limit does not matter (`BasicPacker::should_save` with an
/// unlimited `PackSizer`): its blob-count limit (`blob/packer.rs constants::MAX_COUNT`), measured, not copied.
fn packer_count_limit() -> usize {
    let mut packer = BasicPackerHook::new(BlobType::Data, PackSizer::fixed(u32::MAX));
    let mut k = 0u64;
    while !packer.should_save() && k < 1_000_000 {
        if packer.add_raw(Bytes::from_static(b"x"), &BlobId::from(label_id(k)), 1, None).is_err() {
            break;
        }
        k += 1;
    }
    k as usize
}

/// `repair fullpack[-readall] <seed>`: a repository (compression on: default or a seeded zstd level) with the fixed-size chunker and
/// chunks of 4..16 bytes; a small backup, then a backup of one file of (count limit + 500..3000) pairwise different chunks — the
/// data packer closes a pack BY COUNT (10,000 compressed blobs: the largest header there is) — then another small backup.  The
/// index files listing the full pack (or all index files) are removed, `repair_index` runs; afterwards every stored pack must be
/// indexed again with all its blobs, `check --read-data` must be clean, every snapshot must read back, all packs must verify.
fn exec_repair_fullpack(rng: &mut Rng, readall: bool) -> String {
    let limit = packer_count_limit();
    let chunk = *rng.pick(&[4u64, 8, 8, 12, 16]);
    let mut cfg = ConfigOptions::default().set_chunker(rustic_core::repofile::Chunker::FixedSize).set_chunk_size(bytesize::ByteSize(chunk));
    if rng.chance(1, 2) {
        cfg = cfg.set_compression(rng.range(1, 9) as i32);
    }
    let (h, _repo) = match RepoHandle::init_nocache(MemBackend::new(), None, &cfg) {
        Ok(x) => x,
        Err(e) => return errkind(&e),
    };
    let mut sc = Scenario { h, snaps: vec![] };
    let salt = rng.next() as u32;
    let n = limit as u64 + 500 + rng.below(2_500);
    let mut content = Vec::with_capacity((n * chunk) as usize);
    for k in 0..n {
        let mut block = vec![0u8; chunk as usize];
        block[..4].copy_from_slice(&(k as u32).to_le_bytes());
        if chunk >= 8 {
            block[4..8].copy_from_slice(&salt.to_le_bytes());
        }
        content.extend_from_slice(&block);
    }
    let small = |tag: &[u8]| MemSource::new(vec![SrcEntry::file(&[b"d", tag], &[tag, b" some other content"].concat()), SrcEntry::file(&[tag], tag)]);
    let sources = [small(b"first"), MemSource::new(vec![SrcEntry::file(&[b"many-chunks"], &content), SrcEntry::file(&[b"small"], b"x")]), small(b"last")];
    for src in &sources {
        let snap = match SnapshotOptions::default().to_snapshot() {
            Ok(s) => s,
            Err(e) => return errkind(&e),
        };
        match repo::backup_nocache(&sc.h, src, &BackupOptions::default(), snap) {
            Ok(s) => sc.snaps.push((s, expected_with_root(src))),
            Err(e) => return errkind(&e),
        }
    }
    // the listing before: pack -> number of blobs, and which index files list the count-limited pack(s)
    let listing = |h: &RepoHandle| -> Result<(BTreeMap<Id, usize>, BTreeMap<Id, Vec<Id>>), String> {
        let repo = h.open_nocache().map_err(|e| errkind(&e))?;
        let dbe = rustic_core::verif::repository::dbe(&repo);
        let mut blobs = BTreeMap::new();
        let mut by_file: BTreeMap<Id, Vec<Id>> = BTreeMap::new();
        for id in h.be.ids(FileType::Index) {
            let f = dbe.get_file::<IndexFile>(&rustic_core::repofile::IndexId::from(id)).map_err(|e| errkind(&e))?;
            for p in f.packs.iter() {
                *blobs.entry(Id::from(*p.id)).or_insert(0) += p.blobs.len();
                by_file.entry(id).or_default().push(Id::from(*p.id));
            }
        }
        Ok((blobs, by_file))
    };
    let (before, by_file) = match listing(&sc.h) {
        Ok(x) => x,
        Err(e) => return e,
    };
    let full: BTreeSet<Id> = before.iter().filter(|(_, n)| **n >= limit).map(|(p, _)| *p).collect();
    if full.is_empty() {
        return format!("oracle-fail:setup-no-count-limited-pack:{}", before.values().max().copied().unwrap_or(0));
    }
    let all = rng.chance(1, 2);
    let victims: Vec<Id> = by_file.iter().filter(|(_, ps)| all || ps.iter().any(|p| full.contains(p)) || rng.chance(1, 3)).map(|(f, _)| *f).collect();
    for v in &victims {
        sc.h.be.del_raw(FileType::Index, v);
    }
    {
        let repo = match sc.h.open_nocache() {
            Ok(r) => r,
            Err(e) => return errkind(&e),
        };
        if let Err(e) = repo.repair_index(&RepairIndexOptions::default().read_all(readall), false) {
            return errkind(&e);
        }
    }
    let after = match listing(&sc.h) {
        Ok(x) => x.0,
        Err(e) => return e,
    };
    if after != before {
        let lost = before.keys().filter(|p| !after.contains_key(*p)).count();
        return format!("oracle-fail:repair-index-lost-packs:{lost}-of-{}", before.len());
    }
    match repo::check_errors_nocache(&sc.h, true) {
        Some(0) => {}
        Some(_) => return "oracle-fail:check-after-repair".into(),
        None => return "oracle-fail:check-failed-to-run".into(),
    }
    if let Err(e) = read_all(&sc) {
        return e;
    }
    if let Err(e) = verify_packs(&sc.h) {
        return e;
    }
    "ok".into()
}

/// pack id -> "is a tree pack" (type of the first blob), over `packs` and `packs_to_delete` of every index file
fn pack_types(h: &RepoHandle) -> Result<BTreeMap<Id, bool>, String> {
    let repo = h.open_nocache().map_err(|e| errkind(&e))?;
    let dbe = rustic_core::verif::repository::dbe(&repo);
    let mut m = BTreeMap::new();
    for id in h.be.ids(FileType::Index) {
        let f: IndexFile = dbe.get_file(&rustic_core::repofile::IndexId::from(id)).map_err(|e| errkind(&e))?;
        for p in f.packs.iter().chain(f.packs_to_delete.iter()) {
            _ = m.insert(Id::from(*p.id), p.blob_type() == BlobType::Tree);
        }
    }
    Ok(m)
}

/// the recorded `read_partial` calls of both parts since the last call (hot part first)
fn take_pack_reads(h: &RepoHandle) -> Vec<repo::PRead> {
    let mut v = h.hot.as_ref().map_or_else(Vec::new, MemBackend::take_preads);
    v.extend(h.be.take_preads());
    v.retain(|r| r.tpe == FileType::Pack);
    v
}

/// Rule of `Model/Pack.lean headerReadCacheable`: the ranged reads of `PackHeader::from_file` (all pack reads `repair_index`
/// makes) pass `cacheable = false` — for a DATA pack anything else sends the read to the hot part of a hot/cold repository,
/// which holds no data pack (property failure); for a tree pack it is only a deviation from the model (`differs:`).
fn header_reads_rule(reads: &[repo::PRead], types: &BTreeMap<Id, bool>) -> Result<(), String> {
    // a pack the intact index does not know counts as a data pack
    if reads.iter().any(|r| r.cacheable && types.get(&r.id) != Some(&true)) {
        return Err("oracle-fail:data-pack-header-read-cacheable".into());
    }
    if reads.iter().any(|r| r.cacheable) {
        return Err("differs:tree-pack-header-read-cacheable".into());
    }
    Ok(())
}

/// Rule of `Model/Pack.lean blobReadCacheable`: blob reads pass `cacheable = BlobType::is_cacheable()` = "is a tree blob".
fn blob_reads_rule(reads: &[repo::PRead], types: &BTreeMap<Id, bool>) -> Result<(), String> {
    for r in reads {
        match types.get(&r.id) {
            Some(false) if r.cacheable => return Err("oracle-fail:data-blob-read-cacheable".into()),
            Some(true) if !r.cacheable => return Err("differs:tree-blob-read-not-cacheable".into()),
            _ => {}
        }
    }
    Ok(())
}

/// the complete content of the store(s): cold part, hot part
fn stores_of(h: &RepoHandle) -> (repo::Store, Option<repo::Store>) {
    (h.be.store(), h.hot.as_ref().map(MemBackend::store))
}

/// `None` if both snapshots hold byte-identical file sets of every file type, else `<part>-<file type>` of the first difference
fn stores_diff(a: &(repo::Store, Option<repo::Store>), b: &(repo::Store, Option<repo::Store>)) -> Option<String> {
    let part = |x: &repo::Store, y: &repo::Store, name: &str| -> Option<String> {
        for t in repo::FILE_TYPES {
            let k = repo::ft_idx(t);
            let fx: Vec<_> = x.iter().filter(|((u, _), _)| *u == k).collect();
            let fy: Vec<_> = y.iter().filter(|((u, _), _)| *u == k).collect();
            if fx != fy {
                return Some(format!("{name}-{}", repo::ft_name(t)));
            }
        }
        None
    };
    if let Some(d) = part(&a.0, &b.0, if a.1.is_some() { "cold" } else { "store" }) {
        return Some(d);
    }
    match (&a.1, &b.1) {
        (Some(x), Some(y)) => part(x, y, "hot"),
        (None, None) => None,
        _ => Some("hot-part".into()),
    }
}

/// "packs = index": the pack files in the (cold) store are exactly the packs the index files list (marked or not); on a hot/cold
/// pair both parts hold the same index files.
fn packs_eq_index(h: &RepoHandle) -> Result<(), String> {
    let listed: BTreeSet<Id> = pack_types(h)?.keys().copied().collect();
    let stored: BTreeSet<Id> = h.be.ids(FileType::Pack).into_iter().collect();
    if let Some(hot) = &h.hot {
        if hot.ids(FileType::Index) != h.be.ids(FileType::Index) {
            return Err("oracle-fail:hot-and-cold-index-files-differ".into());
        }
    }
    if stored.iter().any(|p| !listed.contains(p)) {
        return Err("oracle-fail:stored-pack-not-listed".into());
    }
    if listed.iter().any(|p| !stored.contains(p)) {
        return Err("oracle-fail:listed-pack-not-stored".into());
    }
    Ok(())
}

fn del_index(h: &RepoHandle, id: &Id) {
    h.be.del_raw(FileType::Index, id);
    if let Some(hot) = &h.hot {
        hot.del_raw(FileType::Index, id);
    }
}

/// `repair [hc-][dry-]<which>[-readall] <seed>`: `hc-` = the repository is a hot/cold pair of `MemBackend`s, `dry-` = a dry run of
/// `repair_index` comes first and must leave every file of every type, in both parts, byte-identical; which = all | some | none
/// (index files removed) | badhint | lostpack (a data pack removed from storage: afterwards only packs = index is required).
fn exec_repair(variant: &str, seed: u64) -> String {
    let mut rng = Rng::new(seed);
    let (v1, hc) = match variant.strip_prefix("hc-") {
        Some(v) => (v, true),
        None => (variant, false),
    };
    let (v2, dry) = match v1.strip_prefix("dry-") {
        Some(v) => (v, true),
        None => (v1, false),
    };
    let (which, readall) = match v2.strip_suffix("-readall") {
        Some(w) => (w, true),
        None => (v2, false),
    };
    if which == "fullpack" {
        if hc || dry {
            return "bad-op".into();
        }
        return exec_repair_fullpack(&mut rng, readall);
    }
    let scen = *rng.pick(&["backup", "prune-fast", "prune-copy", "prune-all"]);
    let hot = if hc { Some(MemBackend::named("hot")) } else { None };
    let sc = match build_hc(MemBackend::named(if hc { "cold" } else { "mem" }), hot, MemBackend::new(), &mut rng, scen) {
        Ok(s) => s,
        Err(e) => return e,
    };
    let mut sc = sc;
    // "all subsets of index files": make sure there are several index files to choose from (a prune leaves a single one)
    let mut round = 10u64;
    while sc.h.be.ids(FileType::Index).len() < 3 && which != "badhint" {
        // other files than before: new names and times (equal name + size + mtime would be taken from the parent snapshot)
        let mut entries = Vec::new();
        for mut e in gen_source(&mut rng, 3, 20_000).entries {
            if let repo::SrcKind::File(_) = e.kind {
                if let Some(last) = e.path.last_mut() {
                    last.extend_from_slice(format!("-r{round}").as_bytes());
                }
                e.mtime_s += round as i64 * 100;
                entries.push(e);
            }
        }
        let src = MemSource::new(entries);
        let snap = match SnapshotOptions::default().to_snapshot() {
            Ok(s) => s,
            Err(e) => return errkind(&e),
        };
        match repo::backup_nocache(&sc.h, &src, &BackupOptions::default(), snap) {
            Ok(s) => sc.snaps.push((s, expected_with_root(&src))),
            Err(e) => return errkind(&e),
        }
        round += 1;
        if round > 16 {
            break;
        }
    }
    if hc {
        // the set-up itself: data packs live in the cold part only (nothing is copied into the hot part by the harness)
        let types = match pack_types(&sc.h) {
            Ok(t) => t,
            Err(e) => return e,
        };
        let hot_packs: BTreeSet<Id> = sc.h.hot.as_ref().map(|b| b.ids(FileType::Pack).into_iter().collect()).unwrap_or_default();
        if hot_packs.iter().any(|p| types.get(p) == Some(&false)) {
            return "oracle-fail:setup-hot-part-holds-data-packs".into();
        }
    }
    let idx = sc.h.be.ids(FileType::Index);
    if which == "badhint" {
        // One index file listing every pack; the entry of the smallest pack is inflated with repeated blobs so that the
        // header size the index suggests (the size hint of repair_index) exceeds the pack itself.
        let repo = match sc.h.open_nocache() {
            Ok(r) => r,
            Err(e) => return errkind(&e),
        };
        let dbe = rustic_core::verif::repository::dbe(&repo);
        let mut all = IndexFile::default();
        for id in &idx {
            match dbe.get_file::<IndexFile>(&rustic_core::repofile::IndexId::from(*id)) {
                Ok(f) => {
                    all.packs.extend(f.packs);
                    all.packs_to_delete.extend(f.packs_to_delete);
                }
                Err(e) => return errkind(&e),
            }
        }
        let size_of = |p: &IndexPack| sc.h.be.get(FileType::Pack, &Id::from(*p.id)).map_or(usize::MAX, |b| b.len());
        let Some(k) = (0..all.packs.len()).filter(|i| !all.packs[*i].blobs.is_empty()).min_by_key(|i| size_of(&all.packs[*i])) else {
            return "ok".into();
        };
        let file_len = size_of(&all.packs[k]);
        let orig = all.packs[k].blobs.clone();
        while 32 + 37 * all.packs[k].blobs.len() < file_len + 8 {
            all.packs[k].blobs.extend(orig.iter().copied());
        }
        all.packs[k].size = None;
        for v in &idx {
            del_index(&sc.h, v);
        }
        if let Err(e) = dbe.save_file(&all) {
            return errkind(&e);
        }
    }
    // pack types as the intact index has them (before the damage)
    let types = match pack_types(&sc.h) {
        Ok(t) => t,
        Err(e) => return e,
    };
    let victims: BTreeSet<Id> = match which {
        "badhint" | "none" | "lostpack" => BTreeSet::new(),
        "all" => idx.iter().copied().collect(),
        "some" => idx.iter().copied().filter(|_| rng.chance(1, 2)).collect(),
        _ => return "bad-op".into(),
    };
    for v in &victims {
        del_index(&sc.h, v);
    }
    if which == "lostpack" {
        // a data pack disappears from storage (its index entry stays): the repair must drop the entry
        let data: Vec<Id> = sc.h.be.ids(FileType::Pack).into_iter().filter(|p| types.get(p) == Some(&false)).collect();
        if data.is_empty() {
            return "ok".into(); // only empty files were backed up: nothing to lose
        }
        let victim = *rng.pick(&data);
        sc.h.be.del_raw(FileType::Pack, &victim);
        if let Some(hot) = &sc.h.hot {
            hot.del_raw(FileType::Pack, &victim);
        }
    }
    // before any repair: the damaged index is healed in memory by `to_indexed_checked` (headers of unlisted / wrongly listed packs are
    // read) — every snapshot reads back through it, the reads obey the header rule, and nothing is written
    if which != "lostpack" {
        let before = stores_of(&sc.h);
        _ = take_pack_reads(&sc.h);
        let res = read_all_checked(&sc);
        // blob reads are in the record too: the header rule is evaluated on the reads of the pack TRAILER only
        let reads: Vec<repo::PRead> = take_pack_reads(&sc.h)
            .into_iter()
            .filter(|r| sc.h.be.get(FileType::Pack, &r.id).is_some_and(|b| u64::from(r.offset) + u64::from(r.length) + 4 >= b.len() as u64 && types.get(&r.id) == Some(&false)))
            .collect();
        if let Err(e) = header_reads_rule(&reads, &types) {
            return e;
        }
        if let Err(e) = res {
            return e;
        }
        if let Some(d) = stores_diff(&before, &stores_of(&sc.h)) {
            return format!("oracle-fail:checked-index-load-changed-storage:{d}");
        }
    }
    let opts = RepairIndexOptions::default().read_all(readall);
    let mut dry_reads: Option<BTreeSet<Id>> = None;
    if dry {
        // a dry run first: it reads (index files, pack headers) but must not change a single file of any type in any part
        let before = stores_of(&sc.h);
        _ = take_pack_reads(&sc.h);
        {
            let repo = match sc.h.open_nocache() {
                Ok(r) => r,
                Err(e) => return errkind(&e),
            };
            if let Err(e) = repo.repair_index(&opts, true) {
                return errkind(&e);
            }
        }
        let reads = take_pack_reads(&sc.h);
        if let Err(e) = header_reads_rule(&reads, &types) {
            return e;
        }
        if let Some(d) = stores_diff(&before, &stores_of(&sc.h)) {
            return format!("oracle-fail:dry-run-changed-storage:{d}");
        }
        dry_reads = Some(reads.iter().map(|r| r.id).collect());
    }
    _ = take_pack_reads(&sc.h);
    {
        let repo = match sc.h.open_nocache() {
            Ok(r) => r,
            Err(e) => return errkind(&e),
        };
        if let Err(e) = repo.repair_index(&opts, false) {
            return errkind(&e);
        }
    }
    let reads = take_pack_reads(&sc.h);
    if let Err(e) = header_reads_rule(&reads, &types) {
        return e;
    }
    // theorem `dry_run_reads_same_headers`: the dry run read the headers of exactly the packs the real run reads
    if dry_reads.is_some_and(|d| d != reads.iter().map(|r| r.id).collect::<BTreeSet<Id>>()) {
        return "differs:dry-run-read-other-pack-headers".into();
    }
    // packs = index: every stored pack is listed (again), nothing else is
    if let Err(e) = packs_eq_index(&sc.h) {
        return e;
    }
    if which == "lostpack" {
        // snapshots using the lost pack are damaged for good; what must hold is pack / index agreement
        if let Err(e) = verify_packs(&sc.h) {
            return e;
        }
        return "ok".into();
    }
    // `check --read-data` reads whole packs with `read_full`, which a hot/cold backend always sends to the hot part (open known
    // finding of C16, DESIGN §7 #15): on a hot/cold pair the check runs without it; every blob is read by the read-back below
    match repo::check_errors_nocache(&sc.h, !hc) {
        Some(0) => {}
        Some(_) => return "oracle-fail:check-after-repair".into(),
        None => return "oracle-fail:check-failed-to-run".into(),
    }
    _ = take_pack_reads(&sc.h);
    if let Err(e) = read_all(&sc) {
        return e;
    }
    let types_after = match pack_types(&sc.h) {
        Ok(t) => t,
        Err(e) => return e,
    };
    if let Err(e) = blob_reads_rule(&take_pack_reads(&sc.h), &types_after) {
        return e;
    }
    if let Err(e) = verify_packs(&sc.h) {
        return e;
    }
    "ok".into()
}

/// `cflags <seed>`: correspondence for the `cacheable` rule of ranged pack reads (`Model/Pack.lean headerReadCacheable` /
/// `blobReadCacheable`).  A repository (hot/cold pair or single store, seeded) with tree and data packs loses all index files;
/// `repair_index` reads every pack header, then every snapshot is read back (every blob).  Observation: the set of `cacheable`
/// flags seen per pack type -> `ok hdr=t<flags>d<flags> blob=t<flags>d<flags>` (flags = the distinct values `0`/`1`, sorted).
fn exec_cflags(seed: u64) -> String {
    let mut rng = Rng::new(seed);
    let hc = rng.chance(2, 3);
    let hot = if hc { Some(MemBackend::named("hot")) } else { None };
    let cfg = config_for(&mut rng);
    let (h, _repo) = match RepoHandle::init_nocache(MemBackend::named("cold"), hot, &cfg) {
        Ok(x) => x,
        Err(e) => return errkind(&e),
    };
    let mut sc = Scenario { h, snaps: vec![] };
    let nf = 2 + rng.below(4) as usize;
    let mut src = gen_source(&mut rng, nf, 30_000);
    src = MemSource::new(src.entries.into_iter().chain([SrcEntry::file(&[b"d9", b"never-empty"], &rng.bytes(5_000))]).collect());
    for i in 0..1 + rng.below(2) {
        let snap = match SnapshotOptions::default().to_snapshot() {
            Ok(s) => s,
            Err(e) => return errkind(&e),
        };
        match repo::backup_nocache(&sc.h, &src, &BackupOptions::default(), snap) {
            Ok(s) => sc.snaps.push((s, expected_with_root(&src))),
            Err(e) => return errkind(&e),
        }
        src = mutate_source(&mut rng, &src, 30_000, i);
    }
    let types = match pack_types(&sc.h) {
        Ok(t) => t,
        Err(e) => return e,
    };
    for id in sc.h.be.ids(FileType::Index) {
        del_index(&sc.h, &id);
    }
    _ = take_pack_reads(&sc.h);
    {
        let repo = match sc.h.open_nocache() {
            Ok(r) => r,
            Err(e) => return errkind(&e),
        };
        if let Err(e) = repo.repair_index(&RepairIndexOptions::default().read_all(rng.chance(1, 2)), false) {
            return errkind(&e);
        }
    }
    let flags = |reads: &[repo::PRead], tree: bool| -> String {
        let s: BTreeSet<&str> = reads.iter().filter(|r| types.get(&r.id) == Some(&tree)).map(|r| if r.cacheable { "1" } else { "0" }).collect();
        s.into_iter().collect::<Vec<_>>().join("")
    };
    let hdr = take_pack_reads(&sc.h);
    let (ht, hd) = (flags(&hdr, true), flags(&hdr, false));
    if hd.contains('1') {
        return "oracle-fail:data-pack-header-read-cacheable".into();
    }
    if let Err(e) = packs_eq_index(&sc.h) {
        return e;
    }
    _ = take_pack_reads(&sc.h);
    if let Err(e) = read_all(&sc) {
        return e;
    }
    let blob = take_pack_reads(&sc.h);
    format!("ok hdr=t{ht}d{hd} blob=t{}d{}", flags(&blob, true), flags(&blob, false))
}

fn exec_rix(read_all: bool, packs: &str, files: &str, dry_first: bool) -> String {
    let (h, repo) = match RepoHandle::init_nocache(MemBackend::new(), None, &ConfigOptions::default()) {
        Ok(x) => x,
        Err(e) => return errkind(&e),
    };
    let dbe = rustic_core::verif::repository::dbe(&repo);
    let key = rustic_core::verif::keyfile::master_key_to_key(&h.key);
    // build and store the packs
    struct P {
        label: String,
        id: Id,
        blobs: Vec<IndexBlob>,
    }
    let mut ps: Vec<P> = Vec::new();
    if packs != "-" {
        for (k, tok) in packs.split(';').enumerate() {
            let f: Vec<&str> = tok.split(':').collect();
            if f.len() != 4 || ps.iter().any(|p| p.label == f[0]) || f[0].is_empty() || !f[0].chars().all(|c| c.is_ascii_lowercase()) {
                return "bad-op".into();
            }
            let bt = match f[1] {
                "t" => BlobType::Tree,
                "d" => BlobType::Data,
                _ => return "bad-op".into(),
            };
            let mut packer = BasicPackerHook::new(bt, PackSizer::fixed(u32::MAX));
            if f[2] != "-" {
                for a in f[2].split('+') {
                    let g: Vec<&str> = a.split('.').collect();
                    if g.len() != 3 {
                        return "bad-op".into();
                    }
                    let (Some(id), Ok(len)) = (parse_id(g[0]), g[1].parse::<usize>()) else { return "bad-op".into() };
                    let ul = if g[2] == "-" {
                        None
                    } else {
                        match g[2].parse::<u32>().ok().and_then(NonZeroU32::new) {
                            Some(u) => Some(u),
                            None => return "bad-op".into(),
                        }
                    };
                    // the pack number goes into the data so that equal add lists still give different files
                    let mut data = det_data(&id, len);
                    if let Some(b) = data.first_mut() {
                        *b ^= k as u8;
                    }
                    if let Err(e) = packer.add_raw(Bytes::from(data), &BlobId::from(id), len as u64, ul) {
                        return errkind(&e);
                    }
                }
            }
            let header = match packer.header_bytes() {
                Ok(x) => x,
                Err(e) => return errkind(&e),
            };
            let enc = match key.encrypt_data(&header) {
                Ok(x) => x,
                Err(e) => return errkind(&e),
            };
            if let Err(e) = packer.write_header(Bytes::from(enc)) {
                return errkind(&e);
            }
            let (file, index) = packer.take_data();
            let mut bytes = Vec::new();
            for b in file.slice() {
                bytes.extend_from_slice(b);
            }
            match f[3] {
                "ok" => {}
                "trunc" => {
                    _ = bytes.pop();
                }
                _ => return "bad-op".into(),
            }
            let id = Id::new(Sha256::digest(&bytes).into());
            h.be.put_raw(FileType::Pack, id, Bytes::from(bytes));
            ps.push(P { label: f[0].to_string(), id, blobs: index.blobs });
        }
    }
    // the index files
    let mut seen_tokens: Vec<&str> = Vec::new();
    let entry = |e: &str| -> Option<IndexPack> {
        if let Some(k) = e.strip_prefix('?') {
            let k: u8 = k.parse().ok()?;
            return Some(IndexPack { id: PackId::from(Id::new([k; 32])), blobs: vec![], time: None, size: None });
        }
        let (label, cut) = match e.strip_suffix('~') {
            Some(l) => (l, true),
            None => (e, false),
        };
        let p = ps.iter().find(|p| p.label == label)?;
        let mut blobs = p.blobs.clone();
        if cut {
            blobs.pop()?;
        }
        Some(IndexPack { id: PackId::from(p.id), blobs, time: None, size: None })
    };
    if files != "-" {
        for tok in files.split('/') {
            if seen_tokens.contains(&tok) {
                return "bad-op".into();
            }
            seen_tokens.push(tok);
            let Some((a, b)) = tok.split_once('|') else { return "bad-op".into() };
            let list = |s: &str| -> Option<Vec<IndexPack>> { if s == "-" { Some(vec![]) } else { s.split(',').map(&entry).collect() } };
            let (Some(packs), Some(dels)) = (list(a), list(b)) else { return "bad-op".into() };
            if packs.is_empty() && dels.is_empty() {
                return "bad-op".into();
            }
            let f = IndexFile { supersedes: None, packs, packs_to_delete: dels };
            if let Err(e) = dbe.save_file(&f) {
                return errkind(&e);
            }
        }
    }
    drop(repo);
    // the listings of every label in the index files as they are now
    let observe = |h: &RepoHandle| -> Result<String, String> {
        let repo = h.open_nocache().map_err(|e| errkind(&e))?;
        let dbe = rustic_core::verif::repository::dbe(&repo);
        let mut counts: Vec<(usize, usize, bool)> = vec![(0, 0, true); ps.len()];
        let mut unknown = 0usize;
        for id in h.be.ids(FileType::Index) {
            let f: IndexFile = dbe.get_file(&rustic_core::repofile::IndexId::from(id)).map_err(|e| errkind(&e))?;
            for (p, marked) in f.packs.iter().map(|p| (p, false)).chain(f.packs_to_delete.iter().map(|p| (p, true))) {
                match ps.iter().position(|q| q.id == Id::from(*p.id)) {
                    None => unknown += 1,
                    Some(k) => {
                        if marked {
                            counts[k].1 += 1;
                        } else {
                            counts[k].0 += 1;
                        }
                        counts[k].2 &= same_blobs(&p.blobs, &ps[k].blobs);
                    }
                }
            }
        }
        let v: Vec<String> = ps.iter().zip(&counts).map(|(p, c)| format!("{}:u{}m{}{}", p.label, c.0, c.1, if c.2 { "=" } else { "x" })).collect();
        Ok(format!("{} ?{unknown}", if v.is_empty() { "-".to_string() } else { v.join(",") }))
    };
    let mut out = String::from("ok ");
    let mut dry_reads: Option<BTreeSet<Id>> = None;
    if dry_first {
        // `rixd`: a dry run first — no file of any type may change; its observation is the index as it is afterwards
        let before = stores_of(&h);
        // `chk`: the in-memory rebuild `to_indexed_checked` (model `checkedPacks`): fails iff a header it needs is unreadable; a pure read
        let chk = match h.open_nocache() {
            Ok(r) => r.to_indexed_checked().is_ok(),
            Err(e) => return errkind(&e),
        };
        out.push_str(if chk { "chk=ok " } else { "chk=err " });
        _ = take_pack_reads(&h);
        {
            let repo = match h.open_nocache() {
                Ok(r) => r,
                Err(e) => return errkind(&e),
            };
            if let Err(e) = repo.repair_index(&RepairIndexOptions::default().read_all(read_all), true) {
                return errkind(&e);
            }
        }
        if let Some(d) = stores_diff(&before, &stores_of(&h)) {
            return format!("oracle-fail:dry-run-changed-storage:{d}");
        }
        dry_reads = Some(take_pack_reads(&h).iter().map(|r| r.id).collect());
        match observe(&h) {
            Ok(o) => out.push_str(&format!("{o} / ")),
            Err(e) => return e,
        }
    }
    _ = take_pack_reads(&h);
    {
        let repo = match h.open_nocache() {
            Ok(r) => r,
            Err(e) => return errkind(&e),
        };
        if let Err(e) = repo.repair_index(&RepairIndexOptions::default().read_all(read_all), false) {
            return errkind(&e);
        }
    }
    // theorem `dry_run_reads_same_headers` — for a fixed order of the index files; the code streams them in no fixed order, and for a
    // pack listed in two files (`a~|-/a|-`) it depends on the order whether its header is read: compared only without such packs
    let mut labels: Vec<&str> = files.split(['/', '|', ',']).map(|e| e.trim_end_matches('~')).filter(|e| *e != "-" && !e.starts_with('?')).collect();
    labels.sort_unstable();
    let listed_twice = labels.windows(2).any(|w| w[0] == w[1]);
    if !listed_twice && dry_reads.is_some_and(|d| d != take_pack_reads(&h).iter().map(|r| r.id).collect::<BTreeSet<Id>>()) {
        return "differs:dry-run-read-other-pack-headers".into();
    }
    match observe(&h) {
        Ok(o) => out.push_str(&o),
        Err(e) => return e,
    }
    out
}


// ------------------------------------------------------------------ pack writer: order of pack and index writes

type Removed = Arc<std::sync::Mutex<BTreeMap<Id, Bytes>>>;

/// Keep the content of every index file at the moment it is removed (prune), so that the log can be decoded afterwards.
fn capture_removed_index(be: &MemBackend) -> Removed {
    let removed: Removed = Arc::new(std::sync::Mutex::new(BTreeMap::new()));
    let (r2, b2) = (removed.clone(), be.clone());
    be.set_gate(Some(Arc::new(move |_k, op: &repo::LogOp| {
        if !op.write && op.tpe == FileType::Index {
            if let Some(c) = b2.get(FileType::Index, &op.id) {
                _ = r2.lock().unwrap().insert(op.id, c);
            }
        }
    })));
    removed
}

/// The index files written according to the log, decoded: position in the log -> packs listed (unmarked).
fn decode_index_writes(h: &RepoHandle, removed: Option<&Removed>) -> Result<Vec<(usize, bool, Option<IndexFile>)>, String> {
    let key = rustic_core::verif::keyfile::master_key_to_key(&h.key);
    let scratch = MemBackend::new();
    let dbe = DecryptBackend::new(Arc::new(scratch.clone()) as Arc<dyn WriteBackend>, key);
    let mut out = Vec::new();
    for (k, op) in h.be.log().iter().enumerate() {
        if !(op.write && op.tpe == FileType::Index) {
            continue;
        }
        if !op.applied {
            out.push((k, false, None));
            continue;
        }
        let raw = h.be.get(FileType::Index, &op.id).or_else(|| removed.and_then(|r| r.lock().unwrap().get(&op.id).cloned()));
        let Some(raw) = raw else { return Err("oracle-fail:index-content-lost".into()) };
        scratch.put_raw(FileType::Index, op.id, raw);
        let f: IndexFile = dbe.get_file(&rustic_core::repofile::IndexId::from(op.id)).map_err(|_| "oracle-fail:index-unreadable".to_string())?;
        out.push((k, true, Some(f)));
    }
    Ok(out)
}

/// `Ordered` of `Model/PackWriter.lean` on the recorded log: every applied index file write is preceded by an applied
/// write of every pack it lists (unmarked), of the listed size.  Returns (#index writes checked, #pack listings checked).
fn order_check(h: &RepoHandle, removed: Option<&Removed>) -> Result<(usize, usize), String> {
    let idx = decode_index_writes(h, removed)?;
    let log = h.be.log();
    let mut written: BTreeMap<Id, usize> = BTreeMap::new();
    let mut next = 0usize;
    let (mut n_idx, mut n_packs) = (0, 0);
    for (k, op) in log.iter().enumerate() {
        if op.tpe == FileType::Pack && op.applied {
            if op.write {
                _ = written.insert(op.id, op.len);
            } else {
                _ = written.remove(&op.id);
            }
        }
        while next < idx.len() && idx[next].0 < k {
            next += 1;
        }
        if next < idx.len() && idx[next].0 == k {
            if let Some(f) = &idx[next].2 {
                n_idx += 1;
                for p in &f.packs {
                    n_packs += 1;
                    match written.get(&Id::from(*p.id)) {
                        None => return Err("oracle-fail:index-before-pack".into()),
                        Some(l) if *l as u64 != u64::from(p.pack_size()) => return Err("oracle-fail:index-size-vs-written".into()),
                        _ => {}
                    }
                }
            }
        }
    }
    Ok((n_idx, n_packs))
}

/// Final state: every index file in the store lists (unmarked) only packs that exist with the listed size.
fn listed_packs_exist(h: &RepoHandle) -> Result<(), String> {
    let key = rustic_core::verif::keyfile::master_key_to_key(&h.key);
    let dbe = DecryptBackend::new(Arc::new(h.be.clone()) as Arc<dyn WriteBackend>, key);
    for id in h.be.ids(FileType::Index) {
        let f: IndexFile = dbe.get_file(&rustic_core::repofile::IndexId::from(id)).map_err(|_| "oracle-fail:index-unreadable".to_string())?;
        for p in &f.packs {
            match h.be.get(FileType::Pack, &Id::from(*p.id)) {
                None => return Err("oracle-fail:indexed-pack-missing".into()),
                Some(b) if b.len() as u64 != u64::from(p.pack_size()) => return Err("oracle-fail:index-size-vs-file".into()),
                _ => {}
            }
        }
    }
    Ok(())
}

fn label_id(k: u64) -> Id {
    let mut b = [0u8; 32];
    b[..8].copy_from_slice(&k.to_be_bytes());
    b[31] = 0xC8;
    Id::new(b)
}

fn id_label(id: &[u8; 32]) -> u64 {
    u64::from_be_bytes(id[..8].try_into().unwrap())
}

fn pw_config(dl: u64, tl: u64) -> ConfigOptions {
    ConfigOptions::default()
        .set_compression(0)
        .set_datapack_size(bytesize::ByteSize(dl))
        .set_treepack_size(bytesize::ByteSize(tl))
        .set_datapack_growfactor(0u32)
        .set_treepack_growfactor(0u32)
}

fn parse_pw_adds(adds: &str) -> Option<Vec<(BlobType, usize, usize)>> {
    let mut v = Vec::new();
    if adds == "-" {
        return Some(v);
    }
    for a in adds.split(',') {
        let t = match a.as_bytes().first()? {
            b't' => BlobType::Tree,
            b'd' => BlobType::Data,
            _ => return None,
        };
        let rest = &a[1..];
        let (l, c) = match rest.split_once('x') {
            Some((l, c)) => (l.parse().ok()?, c.parse().ok()?),
            None => (rest.parse().ok()?, 1usize),
        };
        v.push((t, l, c));
    }
    Some(v)
}

fn exec_pw(dl: u64, tl: u64, fail: Option<usize>, adds: &str) -> String {
    let Some(adds) = parse_pw_adds(adds) else { return "bad-op".into() };
    let (h, repo) = match RepoHandle::init_nocache(MemBackend::new(), None, &pw_config(dl, tl)) {
        Ok(x) => x,
        Err(e) => return errkind(&e),
    };
    let mut blobs = Vec::new();
    let mut k = 0u64;
    for (t, len, c) in adds {
        for _ in 0..c {
            let data: Vec<u8> = (0..len).map(|i| (k as u8).wrapping_add((i as u8).wrapping_mul(7))).collect();
            blobs.push((t, data, BlobId::from(label_id(k))));
            k += 1;
        }
    }
    h.be.clear_log();
    h.be.set_fail_only(fail);
    let res = rustic_core::verif::packer::pack_blobs(&repo, blobs);
    h.be.set_fail_only(None);
    drop(repo);
    let key = rustic_core::verif::keyfile::master_key_to_key(&h.key);
    let mut lanes: [Vec<String>; 2] = [vec![], vec![]];
    let mut cut = [false, false];
    for op in h.be.log() {
        if !(op.write && op.tpe == FileType::Pack) {
            continue;
        }
        let lane = usize::from(op.cacheable);
        if cut[lane] {
            continue;
        }
        if !op.applied {
            lanes[lane].push(format!("{}/?/f", op.len));
            cut[lane] = true;
            continue;
        }
        let Some(bytes) = h.be.get(FileType::Pack, &op.id) else { return "oracle-fail:written-pack-missing".into() };
        let n = bytes.len();
        if n < 4 {
            return "oracle-fail:pack-too-short".into();
        }
        let hl = u32::from_le_bytes(bytes[n - 4..].try_into().unwrap()) as usize;
        if hl + 4 > n {
            return "oracle-fail:header-length-field".into();
        }
        let Ok(plain) = key.decrypt_data(&bytes[n - 4 - hl..n - 4]) else { return "oracle-fail:header-mac".into() };
        let Some(own) = parse_header_independent(&plain) else { return "oracle-fail:header-unparsable".into() };
        if own.iter().any(|e| e.0 != op.cacheable) {
            return "oracle-fail:blob-type-vs-lane".into();
        }
        let first = own.first().map_or(0, |e| id_label(&e.3));
        lanes[lane].push(format!("{n}/{first}+{}/ok", own.len()));
    }
    let idx = match decode_index_writes(&h, None) {
        Ok(i) => i,
        Err(e) => return e,
    };
    let mut iw = Vec::new();
    for (_, applied, f) in &idx {
        match (applied, f) {
            (true, Some(f)) => {
                let mut names: Vec<String> = f
                    .packs
                    .iter()
                    .map(|p| p.blobs.first().map_or("e".to_string(), |b| format!("{}{}+{}", t_str(b.tpe), id_label(&id_bytes(&b.id)), p.blobs.len())))
                    .collect();
                names.sort();
                iw.push(format!("{}/ok", names.join("+")));
            }
            _ => iw.push("?/f".to_string()),
        }
    }
    let ordered = match order_check(&h, None) {
        Ok(_) => true,
        Err(e) if e == "oracle-fail:index-before-pack" || e == "oracle-fail:index-size-vs-written" => false,
        Err(e) => return e,
    };
    if let Err(e) = listed_packs_exist(&h) {
        return e;
    }
    let j = |v: &Vec<String>| if v.is_empty() { "-".to_string() } else { v.join(",") };
    format!("res={} D={} T={} I={} ordered={ordered}", if res.is_ok() { "ok" } else { "err" }, j(&lanes[0]), j(&lanes[1]), j(&iw))
}

fn exec_order(variant: &str, seed: u64) -> String {
    let mut rng = Rng::new(seed);
    match variant {
        "backup" | "prune" | "copy" => {
            let (be, be2) = (MemBackend::new(), MemBackend::new());
            let removed = capture_removed_index(&be);
            let removed2 = capture_removed_index(&be2);
            let scen = match variant {
                "prune" => *rng.pick(&["prune-fast", "prune-copy", "prune-all"]),
                v => v,
            };
            let sc = match build_on(be.clone(), be2.clone(), &mut rng, scen) {
                Ok(s) => s,
                Err(e) => return e,
            };
            be.set_gate(None);
            be2.set_gate(None);
            let rm = if variant == "copy" { &removed2 } else { &removed };
            match order_check(&sc.h, Some(rm)) {
                Ok((_, n)) if n == 0 => return "oracle-fail:no-pack-listed".into(),
                Ok(_) => {}
                Err(e) => return e,
            }
            if let Err(e) = listed_packs_exist(&sc.h) {
                return e;
            }
            "ok".into()
        }
        "tiny" | "tinyfail" => {
            // more blobs than `indexer::constants::MAX_COUNT`: the indexer saves an index file while packs are still being written
            let (h, repo) = match RepoHandle::init_nocache(MemBackend::new(), None, &pw_config(1 << 30, 1 << 30)) {
                Ok(x) => x,
                Err(e) => return errkind(&e),
            };
            let n = 50_001 + rng.below(12_000);
            let tree_every = if rng.chance(1, 2) { 0 } else { 50 + rng.below(400) };
            let mut blobs = Vec::with_capacity(n as usize);
            for k in 0..n {
                let t = if tree_every > 0 && k % tree_every == 0 { BlobType::Tree } else { BlobType::Data };
                let len = 1 + (k % 3) as usize;
                blobs.push((t, vec![k as u8; len], BlobId::from(label_id(k))));
            }
            h.be.clear_log();
            // ≥ 5 data packs, the tree pack, ≥ 2 index files
            let fail = if variant == "tinyfail" { Some(rng.below(7) as usize) } else { None };
            h.be.set_fail_only(fail);
            let res = rustic_core::verif::packer::pack_blobs(&repo, blobs);
            h.be.set_fail_only(None);
            drop(repo);
            let failed = h.be.log().iter().any(|o| !o.applied);
            if failed && res.is_ok() {
                return "oracle-fail:failed-write-not-reported".into();
            }
            if !failed && res.is_err() {
                return "oracle-fail:error-without-fault".into();
            }
            let (n_idx, n_packs) = match order_check(&h, None) {
                Ok(x) => x,
                Err(e) => return e,
            };
            if let Err(e) = listed_packs_exist(&h) {
                return e;
            }
            if !failed {
                // fault-free: the indexer saved on its own at least once, and every stored pack is listed
                let packs = h.be.ids(FileType::Pack).len();
                if n_idx < 2 {
                    return "oracle-fail:no-index-auto-save".into();
                }
                if n_packs != packs {
                    return "oracle-fail:packs-written-vs-indexed".into();
                }
            }
            "ok".into()
        }
        "bigbackup" => {
            // a real backup whose data packer hands more than `indexer::constants::MAX_COUNT` blobs to the indexer: one file of
            // > 50,000 distinct 32-byte chunks (fixed-size chunker); odd seeds: one backend write fails
            let cfg = ConfigOptions::default()
                .set_chunker(rustic_core::repofile::Chunker::FixedSize)
                .set_chunk_size(bytesize::ByteSize(32))
                .set_compression(0);
            let (h, _repo) = match RepoHandle::init_nocache(MemBackend::new(), None, &cfg) {
                Ok(x) => x,
                Err(e) => return errkind(&e),
            };
            let n = 50_100 + rng.below(4_000);
            let mut content = Vec::with_capacity(n as usize * 32);
            for k in 0..n {
                let mut block = [0u8; 32];
                block[..8].copy_from_slice(&k.to_le_bytes());
                block[8..16].copy_from_slice(&seed.to_le_bytes());
                content.extend_from_slice(&block);
            }
            let src = MemSource::new(vec![SrcEntry::file(&[b"big"], &content), SrcEntry::file(&[b"small"], b"x")]);
            let before = h.be.log().len();
            let fail = if seed % 2 == 1 { Some(before + rng.below(8) as usize) } else { None };
            h.be.set_fail_only(fail);
            let snap = match SnapshotOptions::default().to_snapshot() {
                Ok(s) => s,
                Err(e) => return errkind(&e),
            };
            let res = repo::backup_nocache(&h, &src, &BackupOptions::default(), snap);
            h.be.set_fail_only(None);
            let failed = h.be.log().iter().any(|o| !o.applied);
            if failed && res.is_ok() {
                return "oracle-fail:failed-write-not-reported".into();
            }
            if !failed && res.is_err() {
                return "oracle-fail:error-without-fault".into();
            }
            let (n_idx, _) = match order_check(&h, None) {
                Ok(x) => x,
                Err(e) => return e,
            };
            if let Err(e) = listed_packs_exist(&h) {
                return e;
            }
            if let Ok(s) = res {
                if n_idx < 2 {
                    return "oracle-fail:no-index-auto-save".into();
                }
                let sc = Scenario { h, snaps: vec![(s, expected_with_root(&src))] };
                if let Err(e) = read_all(&sc) {
                    return e;
                }
                if let Err(e) = verify_packs(&sc.h) {
                    return e;
                }
            }
            "ok".into()
        }
        "backupfail" => {
            // one backup, then a second one during which one backend write fails
            let cfg = config_for(&mut rng);
            let (h, _repo) = match RepoHandle::init_nocache(MemBackend::new(), None, &cfg) {
                Ok(x) => x,
                Err(e) => return errkind(&e),
            };
            let nf = 6 + rng.below(6) as usize;
            let src = gen_source(&mut rng, nf, 60_000);
            let snap = match SnapshotOptions::default().to_snapshot() {
                Ok(s) => s,
                Err(e) => return errkind(&e),
            };
            let s1 = match repo::backup_nocache(&h, &src, &BackupOptions::default(), snap) {
                Ok(s) => s,
                Err(e) => return errkind(&e),
            };
            let src2 = mutate_source(&mut rng, &src, 60_000, 1);
            let before = h.be.log().len();
            let k = before + rng.below(8) as usize;
            h.be.set_fail_only(Some(k));
            let snap = match SnapshotOptions::default().to_snapshot() {
                Ok(s) => s,
                Err(e) => return errkind(&e),
            };
            let res = repo::backup_nocache(&h, &src2, &BackupOptions::default(), snap);
            h.be.set_fail_only(None);
            let failed = h.be.log().iter().any(|o| !o.applied);
            if failed && res.is_ok() {
                return "oracle-fail:failed-write-not-reported".into();
            }
            if let Err(e) = order_check(&h, None) {
                return e;
            }
            if let Err(e) = listed_packs_exist(&h) {
                return e;
            }
            // the first snapshot still reads back
            let sc = Scenario { h, snaps: vec![(s1, expected_with_root(&src))] };
            if let Err(e) = read_all(&sc) {
                return e;
            }
            "ok".into()
        }
        _ => "bad-op".into(),
    }
}

pub fn exec(t: &[&str]) -> String {
    let t: Vec<String> = t.iter().map(|s| (*s).to_string()).collect();
    guarded(move || match t.iter().map(String::as_str).collect::<Vec<_>>().as_slice() {
        ["hdr", blobs] => exec_hdr(blobs),
        ["parse", h] => exec_parse(h),
        ["pack", t, adds, reads] => exec_pack(t, adds, reads),
        ["packn", t, n, len, mode, reads] => exec_packn(t, n, len, mode, reads),
        ["rix", ra, packs, files] if *ra == "0" || *ra == "1" => exec_rix(*ra == "1", packs, files, false),
        ["rixd", ra, packs, files] if *ra == "0" || *ra == "1" => exec_rix(*ra == "1", packs, files, true),
        ["cflags", seed] => match seed.parse::<u64>() {
            Ok(s) => exec_cflags(s),
            _ => "bad-op".into(),
        },
        ["pw", dl, tl, fail, adds] => {
            let f = if *fail == "-" { Some(None) } else { fail.parse::<usize>().ok().map(Some) };
            match (dl.parse::<u64>(), tl.parse::<u64>(), f) {
                (Ok(dl), Ok(tl), Some(f)) => exec_pw(dl, tl, f, adds),
                _ => "bad-op".into(),
            }
        }
        ["order", variant, seed] => match seed.parse::<u64>() {
            Ok(s) if ["backup", "prune", "copy", "tiny", "tinyfail", "backupfail", "bigbackup"].contains(variant) => exec_order(variant, s),
            _ => "bad-op".into(),
        },
        ["repo", variant, seed] => match seed.parse::<u64>() {
            Ok(s) if ["backup", "prune-fast", "prune-copy", "prune-all", "copy", "merge", "rewrite", "repair-snapshots"].contains(variant) => exec_repo(variant, s),
            _ => "bad-op".into(),
        },
        ["repair", variant, seed] => match seed.parse::<u64>() {
            Ok(s) => {
                let v1 = variant.strip_prefix("hc-").unwrap_or(variant);
                let v2 = v1.strip_prefix("dry-").unwrap_or(v1);
                let plain = ["all", "some", "none", "all-readall", "some-readall", "none-readall", "badhint", "lostpack", "lostpack-readall"];
                if plain.contains(&v2) || (v2 == *variant && ["fullpack", "fullpack-readall"].contains(variant)) {
                    exec_repair(variant, s)
                } else {
                    "bad-op".into()
                }
            }
            _ => "bad-op".into(),
        },
        _ => "bad-op".into(),
    })
}
