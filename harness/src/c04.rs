//! C04 — stored data is authenticated ciphertext; tampering is always detected; only a right password opens.
//!
//! Op lines (channel `c04`):
//!  * `msg <n> <seed>`      message of `n` seeded bytes under a fresh real `Key`: `encrypt_data` / `decrypt_data`; then
//!       EVERY single-bit flip, EVERY proper prefix, every suffix (dropping 1..=min(40,len) leading bytes), 1..=8 byte
//!       extensions (appended zero / random bytes, one prepended byte) must be rejected; prefixes shorter than 32 bytes are
//!       classified by error (`<16`: "too short", no code; `16..31`: MAC failure `C001`); a second encryption of the same
//!       message must use another nonce.
//!       -> `ok len=<n+32> rt=1 flips=<rejected>/<total> trunc=<r>/<t> ext=<r>/<t> short=<no-code>,<C001> fresh=1`
//!  * `file <z|-> <hex>`    `hash_write_full` + `read_encrypted_full` on a real `DecryptBackend` (zstd level 3 if `z`)
//!       -> `ok rt=<same|diff|err:Kind> ovh=<stored-n | z>`; oracles: id = sha256(stored), plaintext not visible, tampered
//!          stored bytes are refused.
//!  * `blob <z|-> <hex>`    `process_data` + `read_encrypted_from_partial`
//!       -> `ok ulen=<n|-> dlen=<n> rt=<same|diff|err:Kind> mis=<err:Kind|na>` (`mis`: recorded length off by one)
//!  * `keys <script>`       script = ops joined by `,`: `a<p>` plant a low-cost key file for password p (real `kdf_key` +
//!       `encrypt_data` of the real master key), `A<p>` real `add_key`, `r<i>` `delete_key` of the i-th added key, `x0|xf`
//!       plant an unparsable key file under id 00…/ff… (listed first / last), `y0|yf` a key file whose `data` is 5 bytes,
//!       `o<p>` open with password p, `m` open with the master key.  -> `ok <result per o/m>` (`ok` | `err:Kind`)
//!       Password numbers: 0..9 = `pw<n>`; 10.. = a table of passwords with leading / trailing / only white space, empty, inner blank,
//!       non-ASCII (pairwise distinct strings, several trim to another table entry) — see `password`; 100..999 = `pw<n>` (the
//!       many-key scripts: 21–40 key files, every added password must open whatever its key file's place in the listing).
//!  * `initpw <p> <q,…>`    real `Repository::init` with password p, then open with each q -> `ok <result per q>`
//!  * `scan <seed>`         oracle only (model: `ok`): backups + prune history with planted needles (names, contents, json
//!       field names); no stored non-key file may contain a needle; all nonces (files, blobs, pack headers) pairwise distinct.
//!  * `hist <seed>`         oracle only: a seeded command history (backup / merge / forget+prune / prune --repack-all / repair
//!       index --read-all / config change / key add) with needles in file names, directory names, symlink targets, contents,
//!       host, label, tags, description and command line; after EVERY command every stored file of every non-key type — and
//!       every file a command removed, captured at the moment of its removal — is scanned for the needles and for JSON
//!       field names; key files must never contain the master key's secret strings; all four non-key file types must have
//!       been seen.  -> `ok` | `oracle-fail:plaintext-in-<type>-after-<cmd>` | …
//!       `hist` (command `copy`, and the end of every 2nd history) and every `scan` also COPY the snapshots into a fresh repository with
//!       ANOTHER master key and (mostly) the source's chunker parameters — fixed-size chunker (odd `hist` seeds) or the same Rabin
//!       polynomial —, then examine the destination with its own key: storage scan, every blob decodes with the destination's key and
//!       not with the source's, every file reads back, `check --read-data` clean (`copy_and_verify`).
//!  * `sites`               the `write_bytes` call sites of the CURRENT source (tools/c04_write_sites.py on <repo>/crates/core/src)
//!       vs the model's table `Model/WriteSites.lean` (theorem `every_non_key_write_is_encrypted`) -> `ok <lines joined by ;>`
//!  * `tamper <seed>`       oracle only: every stored non-key file × {bit flips at first/last/middle/random positions,
//!       truncation, extension}: the affected read fails or returns the original content, never other content.
//!  * `tamper front <seed>` oracle only: pack files extended at the FRONT (junk, copy of the first blob, equal-length distance, whole
//!       pack) in a repository with equal-length blobs, then `check`, `to_indexed_checked`, `repair_index` and a file-by-file read:
//!       every read fails or returns the original content (see `exec_tamper_front`).
//!  * `swap index|pack|key <seed>` exchange the stored bytes of two files of that type, then read everything: every read fails or
//!       returns what it returned before -> `ok`;  `swap packtwin <seed>`: two data packs with identical layout exchanged -> the read
//!       returns the OTHER file's content (`oracle-fail:substitution-undetected`, known finding: blob ids are not verified on read)
//!  * `swap snapshot <seed>` exchange the stored bytes of two snapshot files and read the first id: returns the second
//!       snapshot without error -> `oracle-fail:substitution-undetected` (known finding, DESIGN §7 #12).
use std::collections::BTreeSet;
use std::sync::Arc;

use bytes::Bytes;
use sha2::{Digest, Sha256};

use crate::repo::{self, MemBackend, MemSource, RepoHandle, SrcEntry};
use crate::util::{Rng, Stats, errkind, guarded, hex, unhex};
use rustic_core::repofile::{IndexFile, KeyFile, SnapshotFile};
use rustic_core::verif::aespoly1305::{CryptoKey, Key};
use rustic_core::verif::decrypt::{DecryptBackend, DecryptReadBackend, DecryptWriteBackend};
use rustic_core::{
    BackupOptions, ConfigOptions, Credentials, FileType, Id, KeyOptions, LimitOption, PruneOptions, Repository,
    SnapshotOptions, WriteBackend,
};

// ------------------------------------------------------------------ generator

/// passwords for the random key scripts: the plain ones, or (1 in 3) one of the white-space / unicode table or what it trims to
fn pick_pw(rng: &mut Rng, plain: u64) -> u64 {
    if rng.chance(1, 3) {
        let (w, t) = *rng.pick(&WS_TRIMS);
        if rng.chance(1, 3) { t.unwrap_or(w) } else { w }
    } else {
        rng.below(plain)
    }
}

fn shuffle<T>(rng: &mut Rng, v: &mut [T]) {
    for i in (1..v.len()).rev() {
        v.swap(i, rng.below(i as u64 + 1) as usize);
    }
}

pub fn generate(thorough: bool, rng: &mut Rng, ops: &mut Vec<String>, stats: &mut Stats) {
    // messages of ALL lengths 0..=N, plus a few long ones
    let n_max = if thorough { 600 } else { 96 };
    for n in 0..=n_max {
        ops.push(format!("c04 msg {n} {}", rng.below(1 << 40)));
        stats.hit("msg");
        stats.add("msg.bitflips", (n + 32) * 8);
    }
    for _ in 0..(if thorough { 12 } else { 3 }) {
        let n = rng.range(1000, if thorough { 20_000 } else { 3000 });
        ops.push(format!("c04 msg {n} {}", rng.below(1 << 40)));
        stats.add("msg.bitflips", (n + 32) * 8);
    }
    // file / blob codec
    let k = if thorough { 20 } else { 1 };
    for _ in 0..150 * k {
        let z = if rng.chance(1, 2) { "z" } else { "-" };
        let n = match rng.below(6) {
            0 => 0,
            1 => 1,
            2 => 2,
            _ => rng.below(600) as usize,
        };
        let mut d = match rng.below(3) {
            0 => vec![b'x'; n],
            _ => rng.bytes(n),
        };
        if !d.is_empty() {
            match rng.below(6) {
                0 | 1 | 2 => d[0] = b'{',
                3 => d[0] = b'[',
                4 => d[0] = 2,
                _ => {}
            }
        }
        stats.hit(format!("file.{z}.first.{}", d.first().map_or("none".to_string(), |b| if *b == b'{' || *b == b'[' { "json".into() } else if *b == 2 { "2".into() } else { "other".into() })));
        ops.push(format!("c04 file {z} {}", hex(&d)));
    }
    for _ in 0..150 * k {
        let z = if rng.chance(1, 2) { "z" } else { "-" };
        let n = match rng.below(6) {
            0 => 0,
            1 => 1,
            _ => rng.below(2000) as usize,
        };
        let d = if rng.chance(1, 2) { vec![7u8; n] } else { rng.bytes(n) };
        stats.hit(format!("blob.{z}.{}", Stats::bucket(n)));
        ops.push(format!("c04 blob {z} {}", hex(&d)));
    }
    // key scripts
    for i in 0..(if thorough { 150 } else { 10 }) {
        let len = 3 + rng.below(8);
        let mut s = Vec::new();
        let mut added = 0u64;
        for _ in 0..len {
            match rng.below(12) {
                0 | 1 | 2 => {
                    s.push(format!("a{}", pick_pw(rng, 4)));
                    added += 1;
                }
                3 if i % 5 == 0 => {
                    s.push(format!("A{}", pick_pw(rng, 4)));
                    added += 1;
                    stats.hit("keys.real-add");
                }
                4 if added > 0 => s.push(format!("r{}", rng.below(added))),
                5 if rng.chance(1, 3) => s.push(rng.pick(&["x0", "xf", "y0", "yf"]).to_string()),
                6 => s.push("m".into()),
                _ => s.push(format!("o{}", pick_pw(rng, 5))),
            }
        }
        s.push(format!("o{}", pick_pw(rng, 4)));
        s.push("m".into());
        stats.hit("keys.script");
        ops.push(format!("c04 keys {}", s.join(",")));
    }
    // open attempts around key removal: right / wrong / removed passwords, the same password under two key files,
    // removal of the first / last / only added key, master key throughout
    for _ in 0..(if thorough { 40 } else { 6 }) {
        let (p, q, w) = (rng.below(4), rng.below(4), 4 + rng.below(3));
        let shape = match rng.below(4) {
            0 => format!("a{p},a{q},o{p},o{q},o{w},r0,o{p},o{q},o{w},m,r1,o{p},o{q},m"),
            1 => format!("a{p},a{p},o{p},r0,o{p},r1,o{p},o{w},m"),
            2 => format!("a{p},o{p},r0,o{p},m,a{q},o{q},o{p},r1,o{q},m"),
            _ => format!("a{p},a{q},a{w},r1,o{q},o{p},o{w},r2,o{w},o{p},r0,o{p},m"),
        };
        stats.hit("keys.removal-script");
        ops.push(format!("c04 keys {shape}"));
    }
    // MANY key files (more than any plausible "try at most N keys" bound): 21..=40 planted low-cost key files with pairwise distinct
    // passwords; EVERY added password is tried (so also the one whose key file is listed last — listing order = order of the
    // random key ids), then a few are removed and all are tried again, plus wrong passwords and the master key.
    for j in 0..(if thorough { 30 } else { 4 }) {
        let n = if j == 0 { 21 } else { 21 + rng.below(20) };
        let base = 100 + rng.below(800);
        let mut s: Vec<String> = (0..n).map(|i| format!("a{}", base + i)).collect();
        if rng.chance(1, 3) {
            // one of the passwords a second time (two key files for it) and one white-space password among them
            s.push(format!("a{}", base + rng.below(n)));
            s.push(format!("a{}", rng.pick(&WS_TRIMS).0));
        }
        let mut order: Vec<u64> = (0..n).collect();
        shuffle(rng, &mut order);
        s.extend(order.iter().map(|i| format!("o{}", base + i)));
        s.push(format!("o{}", base + n));
        s.push("m".into());
        let removed = rng.below(4);
        for _ in 0..removed {
            s.push(format!("r{}", rng.below(n)));
        }
        if removed > 0 {
            shuffle(rng, &mut order);
            s.extend(order.iter().map(|i| format!("o{}", base + i)));
        }
        s.push(format!("o{}", pick_pw(rng, 4)));
        stats.hit("keys.many-keys");
        stats.add("keys.many-keys.files", n);
        ops.push(format!("c04 keys {}", s.join(",")));
    }
    // thorough: REAL `add_key` beyond 20 key files (default scrypt cost: every open tries the key files in listing order until one fits)
    if thorough {
        for _ in 0..2 {
            let base = 100 + rng.below(800);
            let n = 21 + rng.below(3);
            let mut s: Vec<String> = (0..n).map(|i| format!("A{}", base + i)).collect();
            let mut order: Vec<u64> = (0..n).collect();
            shuffle(rng, &mut order);
            s.extend(order.iter().map(|i| format!("o{}", base + i)));
            s.push(format!("o{}", base + n));
            s.push("m".into());
            stats.hit("keys.many-keys-real");
            ops.push(format!("c04 keys {}", s.join(",")));
        }
    }
    // a real `add_key` on top of 20..=30 planted ones, opened with its password (quick: one derivation per listed real key)
    for _ in 0..(if thorough { 6 } else { 1 }) {
        let base = 100 + rng.below(800);
        let n = 20 + rng.below(11);
        let mut s: Vec<String> = (0..n).map(|i| format!("a{}", base + i)).collect();
        s.push(format!("A{}", base + n));
        s.push(format!("o{}", base + n));
        s.push(format!("o{}", base + rng.below(n)));
        s.push(format!("o{}", base + n + 1));
        stats.hit("keys.many-keys-one-real");
        ops.push(format!("c04 keys {}", s.join(",")));
    }
    // REAL `add_key` / `init` (default scrypt cost, ≈ 0.4 s per derivation) with passwords that carry white space / are empty /
    // non-ASCII: exactly the added passwords open; what they trim to, and other paddings of it, do not (unless added too)
    for _ in 0..(if thorough { 30 } else { 5 }) {
        let (w, t) = *rng.pick(&WS_TRIMS);
        let t = t.unwrap_or(1);
        let (w2, _) = *rng.pick(&WS_TRIMS);
        let shape = match rng.below(4) {
            0 => format!("A{w},o{w},o{t},o{w2},m"),
            1 => format!("A{t},o{w},o{t},A{w},o{w},o{w2},m"),
            2 => format!("A{w},A{w2},o{t},o{w},r0,o{w},o{w2}"),
            _ => format!("a{t},A{w},r0,o{t},o{w},m"),
        };
        stats.hit("keys.real-add-whitespace");
        ops.push(format!("c04 keys {shape}"));
    }
    for _ in 0..(if thorough { 12 } else { 2 }) {
        let (w, t) = *rng.pick(&WS_TRIMS);
        let t = t.unwrap_or(1);
        let (w2, _) = *rng.pick(&WS_TRIMS);
        stats.hit("initpw");
        ops.push(format!("c04 initpw {w} {w},{t},{w2}"));
    }
    for _ in 0..(if thorough { 40 } else { 3 }) {
        ops.push(format!("c04 scan {}", rng.below(1 << 40)));
        stats.hit("scan");
    }
    for _ in 0..(if thorough { 300 } else { 24 }) {
        ops.push(format!("c04 hist {}", rng.below(1 << 40)));
        stats.hit("hist");
    }
    for _ in 0..(if thorough { 25 } else { 2 }) {
        ops.push(format!("c04 tamper {}", rng.below(1 << 40)));
        stats.hit("tamper");
    }
    // pack files extended at the FRONT (the header at the end stays intact), then the header re-read paths and a read of every file
    for _ in 0..(if thorough { 40 } else { 4 }) {
        ops.push(format!("c04 tamper front {}", rng.below(1 << 40)));
        stats.hit("tamper.front");
    }
    ops.push(format!("c04 swap snapshot {}", rng.below(1 << 40)));
    // exchange two stored files of the same type, for every type: index / pack / key files (reads fail or are unchanged), and
    // the border case of two data packs with identical layout
    for kind in ["index", "pack", "pack", "key", "packtwin"] {
        for _ in 0..(if thorough { 8 } else { 1 }) {
            ops.push(format!("c04 swap {kind} {}", rng.below(1 << 40)));
            stats.hit(format!("swap.{kind}"));
        }
    }
    ops.push("c04 sites".to_string());
    stats.hit("sites");
}


// ------------------------------------------------------------------ nonce independence (statistical)

/// Nonces of independently drawn 16 random bytes are, with overwhelming probability, far apart: read as 128-bit integers in
/// either byte order no two differ by less than 2^64 (this also means: no common prefix or suffix of 8 bytes or more).
/// A counter / timestamp / per-process sequence fails this although all values are distinct.  Statistical test, not a
/// proof: for n nonces the false-alarm probability is about n^2 * 2^-63.
fn nonces_related(nonces: &[[u8; 16]]) -> bool {
    let distinct: BTreeSet<[u8; 16]> = nonces.iter().copied().collect();
    for le in [false, true] {
        let mut v: Vec<u128> = distinct.iter().map(|b| if le { u128::from_le_bytes(*b) } else { u128::from_be_bytes(*b) }).collect();
        v.sort_unstable();
        if v.windows(2).any(|w| w[1] - w[0] < (1u128 << 64)) {
            return true;
        }
        if v.len() > 1 && v[0].wrapping_sub(v[v.len() - 1]) < (1u128 << 64) {
            return true;
        }
    }
    false
}

fn nonce_of(b: &[u8]) -> Option<[u8; 16]> {
    if b.len() >= 16 {
        let mut n = [0u8; 16];
        n.copy_from_slice(&b[..16]);
        Some(n)
    } else {
        None
    }
}

// ------------------------------------------------------------------ msg

fn exec_msg(n: usize, seed: u64) -> String {
    let mut rng = Rng::new(seed);
    let msg = rng.bytes(n);
    let key = Key::new();
    let ct = match key.encrypt_data(&msg) {
        Ok(c) => c,
        Err(e) => return errkind(&e),
    };
    let rt = key.decrypt_data(&ct).map(|m| m == msg).unwrap_or(false);
    if !rt {
        return "oracle-fail:roundtrip".into();
    }
    // every single-bit flip
    let (mut frej, mut ftot) = (0usize, 0usize);
    let mut t = ct.clone();
    for i in 0..ct.len() {
        for b in 0..8 {
            t[i] ^= 1 << b;
            ftot += 1;
            if key.decrypt_data(&t).is_err() {
                frej += 1;
            }
            t[i] ^= 1 << b;
        }
    }
    // every proper prefix; suffixes
    let (mut trej, mut ttot) = (0usize, 0usize);
    let (mut nocode, mut c001) = (0usize, 0usize);
    for l in 0..ct.len() {
        ttot += 1;
        match key.decrypt_data(&ct[..l]) {
            Err(e) => {
                trej += 1;
                if l < 32 {
                    if e.is_code("C001") {
                        c001 += 1;
                    } else {
                        nocode += 1;
                    }
                }
            }
            Ok(_) => {}
        }
    }
    for d in 1..=ct.len().min(40) {
        ttot += 1;
        if key.decrypt_data(&ct[d..]).is_err() {
            trej += 1;
        }
    }
    // extensions
    let (mut erej, mut etot) = (0usize, 0usize);
    for k in 1..=8usize {
        for fill in 0..2 {
            let mut x = ct.clone();
            if fill == 0 {
                x.extend(std::iter::repeat(0u8).take(k));
            } else {
                x.extend(rng.bytes(k));
            }
            etot += 1;
            if key.decrypt_data(&x).is_err() {
                erej += 1;
            }
        }
    }
    let mut x = vec![rng.next() as u8];
    x.extend_from_slice(&ct);
    etot += 1;
    if key.decrypt_data(&x).is_err() {
        erej += 1;
    }
    // freshness
    let ct2 = key.encrypt_data(&msg).unwrap_or_default();
    let fresh = ct2.len() == ct.len() && ct2[..16] != ct[..16] && key.decrypt_data(&ct2).map(|m| m == msg).unwrap_or(false);
    // … and the nonces of a few more messages of this process are unrelated (not a counter, not a shared half)
    let mut nonces: Vec<[u8; 16]> = vec![nonce_of(&ct).unwrap_or_default(), nonce_of(&ct2).unwrap_or_default()];
    for _ in 0..3 {
        nonces.push(nonce_of(&Key::new().encrypt_data(&msg).unwrap_or_default()).unwrap_or_default());
    }
    if fresh && nonces_related(&nonces) {
        return "oracle-fail:nonces-related".into();
    }
    // a different key must not open it
    if Key::new().decrypt_data(&ct).is_ok() {
        return "oracle-fail:other-key-accepts".into();
    }
    format!(
        "ok len={} rt=1 flips={frej}/{ftot} trunc={trej}/{ttot} ext={erej}/{etot} short={nocode},{c001} fresh={}",
        ct.len(),
        u8::from(fresh)
    )
}

// ------------------------------------------------------------------ file / blob codec

fn contains(hay: &[u8], needle: &[u8]) -> bool {
    !needle.is_empty() && hay.windows(needle.len()).any(|w| w == needle)
}

fn exec_file(z: bool, data: &[u8]) -> String {
    let be = MemBackend::new();
    let key = Key::new();
    let mut dbe = DecryptBackend::new(Arc::new(be.clone()) as Arc<dyn WriteBackend>, key);
    dbe.set_zstd(if z { Some(3) } else { None });
    let id = match dbe.hash_write_full(FileType::Snapshot, data) {
        Ok(id) => id,
        Err(e) => return errkind(&e),
    };
    let Some(stored) = be.get(FileType::Snapshot, &id) else { return "oracle-fail:not-stored-under-id".into() };
    if Id::new(Sha256::digest(&stored).into()) != id {
        return "oracle-fail:id-not-hash-of-stored".into();
    }
    if data.len() >= 8 && contains(&stored, data) {
        return "oracle-fail:plaintext-visible".into();
    }
    let rt = match dbe.read_encrypted_full(FileType::Snapshot, &id) {
        Ok(d) => {
            if d[..] == data[..] {
                "same".to_string()
            } else {
                "diff".to_string()
            }
        }
        Err(e) => errkind(&e),
    };
    // An uncompressed plaintext that starts with the zstd marker byte 2 is (mis)read as a compressed file: what comes back is
    // whatever zstd makes of the rest — an error or other bytes.  The model's zstd is abstract, so both outcomes are one
    // observation (`file_codec_needs_json_start` is the theorem about this corner; repository files always start with `{`/`[`).
    let rt = if !z && data.first() == Some(&2) && rt != "same" { "marker-collision".to_string() } else { rt };
    // tampered stored bytes are refused
    let mut rng = Rng::new(stored.len() as u64 ^ 0x5eed);
    let mut variants: Vec<Vec<u8>> = Vec::new();
    for _ in 0..6 {
        let mut v = stored.to_vec();
        let p = rng.below(v.len() as u64) as usize;
        v[p] ^= 1 << rng.below(8);
        variants.push(v);
    }
    variants.push(stored[..stored.len() - 1].to_vec());
    let mut v = stored.to_vec();
    v.push(0);
    variants.push(v);
    for v in variants {
        be.put_raw(FileType::Snapshot, id, Bytes::from(v));
        if dbe.read_encrypted_full(FileType::Snapshot, &id).is_ok() {
            return "oracle-fail:tampered-file-accepted".into();
        }
    }
    let ovh = if z { "z".to_string() } else { (stored.len() - data.len()).to_string() };
    format!("ok rt={rt} ovh={ovh}")
}

fn exec_blob(z: bool, data: &[u8]) -> String {
    let be = MemBackend::new();
    let key = Key::new();
    let mut dbe = DecryptBackend::new(Arc::new(be) as Arc<dyn WriteBackend>, key);
    dbe.set_zstd(if z { Some(3) } else { None });
    let (ct, dlen, ulen) = match dbe.process_data(data) {
        Ok(x) => x,
        Err(e) => return errkind(&e),
    };
    if !z && ct.len() != data.len() + 32 {
        return "oracle-fail:overhead".into();
    }
    if data.len() >= 8 && contains(&ct, data) {
        return "oracle-fail:plaintext-visible".into();
    }
    let rt = match dbe.read_encrypted_from_partial(&ct, ulen) {
        Ok(d) => {
            if d[..] == data[..] {
                "same".to_string()
            } else {
                "diff".to_string()
            }
        }
        Err(e) => errkind(&e),
    };
    let mis = match ulen {
        None => "na".to_string(),
        Some(u) => {
            let wrong = std::num::NonZeroU32::new(u.get() + 1);
            match dbe.read_encrypted_from_partial(&ct, wrong) {
                Ok(_) => "accepted".to_string(),
                Err(e) => errkind(&e),
            }
        }
    };
    // any single-bit flip of the stored blob is refused (sampled)
    let mut rng = Rng::new(ct.len() as u64);
    for _ in 0..8 {
        let mut v = ct.clone();
        let p = rng.below(v.len() as u64) as usize;
        v[p] ^= 1 << rng.below(8);
        if dbe.read_encrypted_from_partial(&v, ulen).is_ok() {
            return "oracle-fail:tampered-blob-accepted".into();
        }
    }
    format!("ok ulen={} dlen={dlen} rt={rt} mis={mis}", ulen.map_or("-".to_string(), |u| u.get().to_string()))
}

// ------------------------------------------------------------------ keys


/// Password number -> password.  0..9: `pw<n>`; from 10 on: passwords with leading / trailing / only white space (blank, tab,
/// newline, CR LF, NBSP, em space), the empty password, inner white space, non-ASCII and combining characters — pairwise
/// DISTINCT strings, several of which trim to another entry of the table (`pw1`, `pw2`, ``, `пароль`).
fn password(arg: &str) -> Option<String> {
    let i: usize = arg.parse().ok()?;
    const WS: [&str; 16] = [
        " pw1", "pw1 ", "pw1\n", "\tpw1\t", "pw1\r\n", " ", "", "\n", "pw 1", "пароль", "пароль ", "\u{a0}pw2", "pw2\u{2003}", "p\u{301}w2", "  ",
        "pw1  ",
    ];
    if i < 10 || (100..1000).contains(&i) { Some(format!("pw{i}")) } else { WS.get(i.checked_sub(10)?).map(|s| (*s).to_string()) }
}
/// numbers of the white-space table and, for each, the number of the password it trims to (if that one is in the table)
const WS_TRIMS: [(u64, Option<u64>); 16] = [
    (10, Some(1)), (11, Some(1)), (12, Some(1)), (13, Some(1)), (14, Some(1)), (15, Some(16)), (16, None), (17, Some(16)), (18, None), (19, None),
    (20, Some(19)), (21, Some(2)), (22, Some(2)), (23, None), (24, Some(16)), (25, Some(1)),
];

fn plant_key(h: &RepoHandle, pw: &str, rng: &mut Rng) -> Result<Id, String> {
    let mut kf = KeyFile {
        hostname: None,
        username: None,
        created: None,
        kdf: "scrypt".into(),
        n: 16,
        r: 1,
        p: 1,
        data: vec![],
        salt: rng.bytes(64),
    };
    let k = kf.kdf_key(&pw).map_err(|e| errkind(&e))?;
    let mk = serde_json::to_vec(&h.key).map_err(|_| "oracle-fail:masterkey-json".to_string())?;
    kf.data = k.encrypt_data(&mk).map_err(|e| errkind(&e))?;
    let json = serde_json::to_vec(&kf).map_err(|_| "oracle-fail:keyfile-json".to_string())?;
    let id = Id::new(Sha256::digest(&json).into());
    h.be.put_raw(FileType::Key, id, Bytes::from(json));
    Ok(id)
}

fn open_pw(h: &RepoHandle, pw: &str) -> String {
    match Repository::new(&repo::nocache_opts(), &h.backends()).and_then(|r| r.open(&Credentials::password(pw))) {
        Ok(_) => "ok".into(),
        Err(e) => errkind(&e),
    }
}

fn exec_keys(script: &str) -> String {
    let (h, _repo) = match RepoHandle::init_nocache(MemBackend::new(), None, &ConfigOptions::default()) {
        Ok(x) => x,
        Err(e) => return errkind(&e),
    };
    let mut rng = Rng::new(script.len() as u64 * 7919);
    let mut added: Vec<Option<Id>> = Vec::new();
    let mut out = Vec::new();
    for op in script.split(',') {
        let (c, arg) = op.split_at(1.min(op.len()));
        match c {
            "a" => match password(arg).ok_or_else(|| "bad-op".to_string()).and_then(|p| plant_key(&h, &p, &mut rng)) {
                Ok(id) => added.push(Some(id)),
                Err(e) => return e,
            },
            "A" => {
                let repo = match h.open_nocache() {
                    Ok(r) => r,
                    Err(e) => return errkind(&e),
                };
                let Some(pw) = password(arg) else { return "bad-op".into() };
                match repo.add_key(&pw, &KeyOptions::default()) {
                    Ok(id) => added.push(Some(Id::from(*id))),
                    Err(e) => return errkind(&e),
                }
            }
            "r" => {
                let Ok(i) = arg.parse::<usize>() else { return "bad-op".into() };
                if let Some(slot) = added.get_mut(i) {
                    if let Some(id) = slot.take() {
                        let repo = match h.open_nocache() {
                            Ok(r) => r,
                            Err(e) => return errkind(&e),
                        };
                        if let Err(e) = repo.delete_key(&rustic_core::repofile::KeyId::from(id)) {
                            return errkind(&e);
                        }
                    }
                }
            }
            "x" | "y" => {
                let id = match arg {
                    "0" => Id::new([0u8; 32]),
                    "f" => Id::new([0xff; 32]),
                    _ => return "bad-op".into(),
                };
                let content: Vec<u8> = if c == "x" {
                    b"this is not a key file".to_vec()
                } else {
                    br#"{"kdf":"scrypt","N":16,"r":1,"p":1,"data":"AAECAwQ=","salt":"AAECAwQFBgc="}"#.to_vec()
                };
                h.be.put_raw(FileType::Key, id, Bytes::from(content));
            }
            "o" => match password(arg) {
                Some(pw) => out.push(open_pw(&h, &pw)),
                None => return "bad-op".into(),
            },
            "m" => out.push(match h.open_nocache() {
                Ok(_) => "ok".into(),
                Err(e) => errkind(&e),
            }),
            _ => return "bad-op".into(),
        }
    }
    // key files are the only plaintext-readable files; they must not contain the master key material
    format!("ok {}", if out.is_empty() { "-".to_string() } else { out.join(",") })
}


/// `init` with a password (real `Repository::init` -> `add_key_to_repo`), then open attempts with passwords.
fn exec_initpw(p: &str, qs: &str) -> String {
    let Some(pw) = password(p) else { return "bad-op".into() };
    let be = MemBackend::new();
    let h = RepoHandle { be, hot: None, key: rustic_core::repofile::MasterKey::new() };
    let init = Repository::new(&repo::nocache_opts(), &h.backends()).and_then(|r| r.init(&Credentials::password(&pw), &KeyOptions::default(), &ConfigOptions::default()));
    if let Err(e) = init {
        return errkind(&e);
    }
    let mut out = Vec::new();
    for q in qs.split(',') {
        match password(q) {
            Some(q) => out.push(open_pw(&h, &q)),
            None => return "bad-op".into(),
        }
    }
    format!("ok {}", out.join(","))
}

// ------------------------------------------------------------------ repository-level oracles

const NEEDLES: [&[u8]; 6] = [b"NEEDLE-NAME-7f3a", b"NEEDLE-CONTENT-91c2", b"NEEDLE-DIR-55aa", b"NEEDLE-LINK-0bb0", b"NEEDLE-HOST-c3d4", b"NEEDLE-TAG-e5f6"];
const JSON_FIELDS: [&[u8]; 8] = [b"\"hostname\"", b"\"paths\"", b"\"tree\"", b"\"packs\"", b"\"blobs\"", b"\"chunker_polynomial\"", b"\"nodes\"", b"\"subtree\""];

fn needle_source(rng: &mut Rng, round: u64) -> MemSource {
    let mut entries = Vec::new();
    let n = 3 + rng.below(5);
    for i in 0..n {
        let mut content = Vec::new();
        let reps = 1 + rng.below(if i == 0 { 3000 } else { 40 });
        for _ in 0..reps {
            content.extend_from_slice(b"NEEDLE-CONTENT-91c2 ");
            if rng.chance(1, 3) {
                content.extend_from_slice(&rng.bytes(16));
            }
        }
        let name = format!("NEEDLE-NAME-7f3a-{round}-{i}");
        if rng.chance(1, 2) {
            entries.push(SrcEntry::file(&[b"NEEDLE-DIR-55aa", name.as_bytes()], &content));
        } else {
            entries.push(SrcEntry::file(&[name.as_bytes()], &content));
        }
    }
    let mut l = SrcEntry::file(&[b"link"], b"");
    l.kind = repo::SrcKind::Symlink(b"NEEDLE-LINK-0bb0/target".to_vec());
    entries.push(l);
    MemSource::new(entries)
}

fn snapshot_opts() -> SnapshotOptions {
    SnapshotOptions::default().host("NEEDLE-HOST-c3d4".to_string()).label("NEEDLE-TAG-e5f6".to_string())
}

fn build_repo(rng: &mut Rng, with_prune: bool) -> Result<(RepoHandle, Vec<SnapshotFile>), String> {
    let mut cfg = ConfigOptions::default();
    match rng.below(3) {
        0 => cfg.set_compression = Some(0),
        1 => cfg.set_compression = Some(-3),
        _ => {}
    }
    if rng.chance(2, 3) {
        cfg.set_datapack_size = Some(bytesize::ByteSize::kib(rng.range(4, 32)));
        cfg.set_treepack_size = Some(bytesize::ByteSize::kib(rng.range(1, 4)));
    }
    let (h, _r) = RepoHandle::init_nocache(MemBackend::new(), None, &cfg).map_err(|e| errkind(&e))?;
    let mut snaps = Vec::new();
    for round in 0..(2 + rng.below(2)) {
        let src = needle_source(rng, round);
        let snap = snapshot_opts().to_snapshot().map_err(|e| errkind(&e))?;
        snaps.push(repo::backup_nocache(&h, &src, &BackupOptions::default(), snap).map_err(|e| errkind(&e))?);
    }
    if with_prune {
        let repo = h.open_nocache().map_err(|e| errkind(&e))?;
        let s = snaps.remove(0);
        repo.delete_snapshots(&[s.id]).map_err(|e| errkind(&e))?;
        let mut o = PruneOptions::default();
        o.keep_pack = rustic_core::jiff::Span::new();
        o.keep_delete = rustic_core::jiff::Span::new();
        o.max_unused = LimitOption::Percentage(0);
        o.max_repack = LimitOption::Unlimited;
        let repo = h.open_nocache().map_err(|e| errkind(&e))?;
        let plan = repo.prune_plan(&o).map_err(|e| errkind(&e))?;
        repo.prune(&o, plan).map_err(|e| errkind(&e))?;
    }
    Ok((h, snaps))
}

fn exec_scan(seed: u64) -> String {
    let mut rng = Rng::new(seed);
    let with_prune = rng.chance(1, 2);
    let (h, snaps) = match build_repo(&mut rng, with_prune) {
        Ok(x) => x,
        Err(e) => return e,
    };
    let store = h.be.store();
    let mut nonces: Vec<[u8; 16]> = Vec::new();
    let push_nonce = |v: &mut Vec<[u8; 16]>, b: &[u8]| {
        if b.len() >= 16 {
            let mut n = [0u8; 16];
            n.copy_from_slice(&b[..16]);
            v.push(n);
        }
    };
    for ((t, _id), bytes) in &store {
        if *t == repo::ft_idx(FileType::Key) {
            continue;
        }
        for n in NEEDLES.iter().chain(JSON_FIELDS.iter()) {
            if contains(bytes, n) {
                return format!("oracle-fail:plaintext-in-{}", repo::ft_name(repo::FILE_TYPES[*t as usize]));
            }
        }
        if *t != repo::ft_idx(FileType::Pack) {
            push_nonce(&mut nonces, bytes);
        }
    }
    // pack-internal nonces: every blob (by index offsets) and the header
    let repo = match h.open_nocache() {
        Ok(r) => r,
        Err(e) => return errkind(&e),
    };
    let dbe = rustic_core::verif::repository::dbe(&repo);
    for id in h.be.ids(FileType::Index) {
        let f: IndexFile = match dbe.get_file(&rustic_core::repofile::IndexId::from(id)) {
            Ok(f) => f,
            Err(e) => return errkind(&e),
        };
        for p in f.packs.iter().chain(f.packs_to_delete.iter()) {
            let Some(bytes) = h.be.get(FileType::Pack, &Id::from(*p.id)) else { continue };
            let mut end = 0usize;
            for b in &p.blobs {
                let o = b.location.offset as usize;
                push_nonce(&mut nonces, &bytes[o..]);
                end = end.max(o + b.location.length as usize);
            }
            push_nonce(&mut nonces, &bytes[end..]);
        }
    }
    if nonces_related(&nonces) {
        return "oracle-fail:nonces-related".into();
    }
    let total = nonces.len();
    let distinct: BTreeSet<[u8; 16]> = nonces.into_iter().collect();
    // index files may list a pack twice (marked + unmarked): allow duplicates that come from the same position only
    if distinct.len() + 0 < total {
        // recount with (pack, offset) identity
        let mut seen: BTreeSet<(Id, usize)> = BTreeSet::new();
        let mut n2: Vec<[u8; 16]> = Vec::new();
        for ((t, id), bytes) in &store {
            if *t != repo::ft_idx(FileType::Pack) && *t != repo::ft_idx(FileType::Key) {
                push_nonce(&mut n2, bytes);
                _ = seen.insert((*id, usize::MAX));
            }
        }
        for id in h.be.ids(FileType::Index) {
            let f: IndexFile = match dbe.get_file(&rustic_core::repofile::IndexId::from(id)) {
                Ok(f) => f,
                Err(e) => return errkind(&e),
            };
            for p in f.packs.iter().chain(f.packs_to_delete.iter()) {
                let pid = Id::from(*p.id);
                let Some(bytes) = h.be.get(FileType::Pack, &pid) else { continue };
                let mut end = 0usize;
                for b in &p.blobs {
                    let o = b.location.offset as usize;
                    if seen.insert((pid, o)) {
                        push_nonce(&mut n2, &bytes[o..]);
                    }
                    end = end.max(o + b.location.length as usize);
                }
                if seen.insert((pid, end)) {
                    push_nonce(&mut n2, &bytes[end..]);
                }
            }
        }
        let t2 = n2.len();
        let d2: BTreeSet<[u8; 16]> = n2.into_iter().collect();
        if d2.len() < t2 {
            return "oracle-fail:nonce-reused".into();
        }
    }
    // … and the same holds for a COPY of the repository under another master key (destination with the source's chunker
    // parameters): nothing readable in its storage, every blob under the destination's key, every file reads back, check clean
    drop(repo);
    let mut crng = Rng::new(seed ^ 0xc0b1);
    if let Err(e) = copy_and_verify(&h, &snaps, true, &mut crng) {
        return e;
    }
    "ok".into()
}



// ------------------------------------------------------------------ sites: the write call sites of the current source

fn exec_sites() -> String {
    let verif = std::path::Path::new(env!("CARGO_MANIFEST_DIR")).parent().map(std::path::Path::to_path_buf).unwrap_or_default();
    let repo_dir = std::env::var("VERIF_REPO").map(std::path::PathBuf::from).unwrap_or_else(|_| verif.parent().map(|p| p.join("repo")).unwrap_or_default());
    let out = std::process::Command::new("python3")
        .arg(verif.join("tools").join("c04_write_sites.py"))
        .arg(repo_dir.join("crates").join("core").join("src"))
        .output();
    match out {
        Ok(o) if o.status.success() => {
            let txt = String::from_utf8_lossy(&o.stdout);
            let lines: Vec<&str> = txt.lines().filter(|l| !l.is_empty()).collect();
            if lines.iter().any(|l| l.contains(" unknown:")) {
                // a write whose content has no recognised origin: not shown to be ciphertext
                return format!("oracle-fail:unclassified-write-site {}", lines.iter().find(|l| l.contains(" unknown:")).unwrap());
            }
            format!("ok {}", lines.join(";"))
        }
        _ => "oracle-fail:site-scan-did-not-run".into(),
    }
}

// ------------------------------------------------------------------ hist: scan after every command

const NEEDLES2: [&[u8]; 3] = [b"NEEDLE-DESC-aa11", b"NEEDLE-CMD-bb22", b"NEEDLE-TAG2-cc33"];

fn scan_one(tpe: FileType, bytes: &[u8], secrets: &[Vec<u8>]) -> Result<(), String> {
    if tpe == FileType::Key {
        // key files are plaintext JSON by design; they must not expose the master key
        for sct in secrets {
            if contains(bytes, sct) {
                return Err("oracle-fail:master-key-in-key-file".into());
            }
        }
        return Ok(());
    }
    for n in NEEDLES.iter().chain(NEEDLES2.iter()).chain(JSON_FIELDS.iter()) {
        if contains(bytes, n) {
            return Err(format!("oracle-fail:plaintext-in-{}", repo::ft_name(tpe)));
        }
    }
    for sct in secrets {
        if contains(bytes, sct) {
            return Err(format!("oracle-fail:master-key-in-{}", repo::ft_name(tpe)));
        }
    }
    Ok(())
}

/// the base64 strings of the serialised master key (what a key file wraps)
fn master_secrets(h: &RepoHandle) -> Vec<Vec<u8>> {
    let mut out = Vec::new();
    if let Ok(v) = serde_json::to_value(&h.key) {
        fn walk(v: &serde_json::Value, out: &mut Vec<Vec<u8>>) {
            match v {
                serde_json::Value::String(s) if s.len() >= 16 => out.push(s.as_bytes().to_vec()),
                serde_json::Value::Object(m) => m.values().for_each(|x| walk(x, out)),
                serde_json::Value::Array(a) => a.iter().for_each(|x| walk(x, out)),
                _ => {}
            }
        }
        walk(&v, &mut out);
    }
    out
}

fn exec_hist(seed: u64) -> String {
    let mut rng = Rng::new(seed);
    let mut cfg = ConfigOptions::default();
    match rng.below(3) {
        0 => cfg.set_compression = Some(0),
        1 => cfg.set_compression = Some(-3),
        _ => {}
    }
    cfg.set_datapack_size = Some(bytesize::ByteSize::kib(rng.range(4, 32)));
    cfg.set_treepack_size = Some(bytesize::ByteSize::kib(rng.range(1, 4)));
    if seed % 2 == 1 {
        // fixed-size chunker (equal-length chunks); even seeds: Rabin with the repository's own random polynomial
        cfg.set_chunker = Some(rustic_core::repofile::Chunker::FixedSize);
        cfg.set_chunk_size = Some(bytesize::ByteSize(256 << (seed / 2 % 5)));
    }
    let be = MemBackend::new();
    // every file a command removes is kept for the scan
    let removed: Arc<std::sync::Mutex<Vec<(FileType, Bytes)>>> = Arc::new(std::sync::Mutex::new(Vec::new()));
    {
        let (r2, b2) = (removed.clone(), be.clone());
        be.set_gate(Some(Arc::new(move |_k, op: &repo::LogOp| {
            if !op.write {
                if let Some(c) = b2.get(op.tpe, &op.id) {
                    r2.lock().unwrap().push((op.tpe, c));
                }
            }
        })));
    }
    let (h, _r) = match RepoHandle::init_oc(be, None, &cfg) {
        Ok(x) => x,
        Err(e) => return errkind(&e),
    };
    let secrets = master_secrets(&h);
    if secrets.is_empty() {
        return "oracle-fail:no-master-secret-strings".into();
    }
    let mut seen = [0usize; 5];
    // first 16 bytes (= nonce of the file, of a pack's first blob) of every non-key file ever seen, by content
    let file_nonces: std::cell::RefCell<std::collections::BTreeMap<Vec<u8>, [u8; 16]>> = std::cell::RefCell::new(std::collections::BTreeMap::new());
    let scan = |h: &RepoHandle, cmd: &str, seen: &mut [usize; 5]| -> Result<(), String> {
        for ((t, id), bytes) in &h.be.store() {
            seen[*t as usize] += 1;
            scan_one(repo::FILE_TYPES[*t as usize], bytes, &secrets).map_err(|e| format!("{e}-after-{cmd}"))?;
            if *t != repo::ft_idx(FileType::Key) {
                if let Some(n) = nonce_of(bytes) {
                    let _ = id;
                    let mut k = vec![*t];
                    k.extend_from_slice(&Sha256::digest(bytes));
                    _ = file_nonces.borrow_mut().insert(k, n);
                }
            }
        }
        for (tpe, bytes) in removed.lock().unwrap().drain(..) {
            seen[repo::ft_idx(tpe) as usize] += 1;
            scan_one(tpe, &bytes, &secrets).map_err(|e| format!("{e}-removed-by-{cmd}"))?;
            if tpe != FileType::Key {
                if let Some(n) = nonce_of(&bytes) {
                    let mut k = vec![repo::ft_idx(tpe)];
                    k.extend_from_slice(&Sha256::digest(&bytes));
                    _ = file_nonces.borrow_mut().insert(k, n);
                }
            }
        }
        Ok(())
    };
    // a key file (the handle opens with the master key; `init` with a master key writes none)
    if let Err(e) = plant_key(&h, "pw-init", &mut rng) {
        return e;
    }
    if let Err(e) = scan(&h, "init", &mut seen) {
        return e;
    }
    let mut snaps: Vec<SnapshotFile> = Vec::new();
    let n_cmds = 4 + rng.below(5);
    let mut round = 0u64;
    for step in 0..n_cmds {
        let cmd = if step == 0 || snaps.is_empty() { "backup" } else { *rng.pick(&["backup", "backup", "merge", "forget-prune", "prune-all", "repair-index", "config", "key", "copy"]) };
        let res: Result<(), String> = (|| {
            match cmd {
                "backup" => {
                    let src = needle_source(&mut rng, round);
                    round += 1;
                    let mut o = snapshot_opts().description("NEEDLE-DESC-aa11 text".to_string()).command("NEEDLE-CMD-bb22 --flag".to_string());
                    o = o.tags(vec!["NEEDLE-TAG2-cc33".parse().map_err(|_| "oracle-fail:tag-parse".to_string())?]);
                    let snap = o.to_snapshot().map_err(|e| errkind(&e))?;
                    let r = h.open_oc().map_err(|e| errkind(&e))?.to_indexed_ids().map_err(|e| errkind(&e))?;
                    snaps.push(r.archive(&BackupOptions::default(), &src, snap, &[std::path::PathBuf::from(repo::SRC_ROOT)]).map_err(|e| errkind(&e))?);
                }
                "merge" => {
                    let repo = h.open_oc().map_err(|e| errkind(&e))?.to_indexed_ids().map_err(|e| errkind(&e))?;
                    let snap = snapshot_opts().to_snapshot().map_err(|e| errkind(&e))?;
                    let m = repo
                        .merge_snapshots(&snaps, &|a: &rustic_core::repofile::Node, b: &rustic_core::repofile::Node| a.meta.mtime.cmp(&b.meta.mtime), snap)
                        .map_err(|e| errkind(&e))?;
                    snaps.push(m);
                }
                "forget-prune" | "prune-all" => {
                    if cmd == "forget-prune" && snaps.len() > 1 {
                        let repo = h.open_oc().map_err(|e| errkind(&e))?;
                        let sn = snaps.remove(0);
                        repo.delete_snapshots(&[sn.id]).map_err(|e| errkind(&e))?;
                    }
                    let mut o = PruneOptions::default();
                    o.keep_pack = rustic_core::jiff::Span::new();
                    o.keep_delete = rustic_core::jiff::Span::new();
                    o.max_unused = LimitOption::Percentage(0);
                    o.max_repack = LimitOption::Unlimited;
                    o.repack_all = cmd == "prune-all";
                    o.instant_delete = rng.chance(1, 2);
                    let repo = h.open_oc().map_err(|e| errkind(&e))?;
                    let plan = repo.prune_plan(&o).map_err(|e| errkind(&e))?;
                    repo.prune(&o, plan).map_err(|e| errkind(&e))?;
                }
                "repair-index" => {
                    let repo = h.open_oc().map_err(|e| errkind(&e))?;
                    repo.repair_index(&rustic_core::RepairIndexOptions::default().read_all(true), false).map_err(|e| errkind(&e))?;
                }
                "config" => {
                    let mut repo = h.open_oc().map_err(|e| errkind(&e))?;
                    let mut c = ConfigOptions::default();
                    c.set_compression = Some(*rng.pick(&[0, 1, 3, -2, 9]));
                    _ = repo.apply_config(&c).map_err(|e| errkind(&e))?;
                }
                "key" => {
                    _ = plant_key(&h, "pw-hist", &mut rng)?;
                }
                "copy" => {
                    // all snapshots into a fresh repository with ANOTHER master key; 3 of 4 with the source's chunker parameters
                    let same = rng.chance(3, 4);
                    copy_and_verify(&h, &snaps, same, &mut rng)?;
                }
                _ => return Err("bad-op".into()),
            }
            Ok(())
        })();
        if let Err(e) = res {
            return format!("{e}-in-{cmd}");
        }
        if let Err(e) = scan(&h, cmd, &mut seen) {
            return e;
        }
    }
    for t in [FileType::Config, FileType::Index, FileType::Snapshot, FileType::Pack, FileType::Key] {
        if seen[repo::ft_idx(t) as usize] == 0 {
            return format!("oracle-fail:scan-saw-no-{}", repo::ft_name(t));
        }
    }
    {
        let all: Vec<[u8; 16]> = file_nonces.borrow().values().copied().collect();
        let distinct: BTreeSet<[u8; 16]> = all.iter().copied().collect();
        if distinct.len() < all.len() {
            return "oracle-fail:nonce-reused".into();
        }
        if nonces_related(&all) {
            return "oracle-fail:nonces-related".into();
        }
    }
    // the history must leave a readable repository (otherwise "nothing readable in storage" would be vacuous)
    if let Err(e) = read_everything(&h, &snaps) {
        return format!("oracle-fail:history-unreadable:{e}");
    }
    // … which can be copied into a repository with another master key and the same chunker parameters (every 2nd history)
    if seed % 4 < 2 {
        if let Err(e) = copy_and_verify(&h, &snaps, true, &mut rng) {
            return format!("{e}-at-end");
        }
    }
    "ok".into()
}

fn read_everything(h: &RepoHandle, snaps: &[SnapshotFile]) -> Result<Vec<Vec<repo::ReadBack>>, String> {
    let repo = h.open_nocache().map_err(|e| errkind(&e))?.to_indexed().map_err(|e| errkind(&e))?;
    let ids: Vec<String> = snaps.iter().map(|s| s.id.to_hex().to_string()).collect();
    let got = repo.get_snapshots(&ids).map_err(|e| errkind(&e))?;
    let mut out = Vec::new();
    for s in &got {
        out.push(repo::read_back(&repo, s).map_err(|e| errkind(&e))?);
    }
    Ok(out)
}

// ------------------------------------------------------------------ copy: another repository = another master key

/// A copy destination for `h`: a NEW repository with its OWN fresh master key.  `same_chunker`: the destination's config is the
/// source's config under a new repository id (same chunker kind, chunk sizes and — for Rabin — polynomial: the documented set-up of
/// a copy target, so that deduplication works across the two repositories; `ConfigFile::has_same_chunker` is true), optionally
/// with another compression setting; otherwise a default-initialised repository (own random polynomial).
fn copy_destination(h: &RepoHandle, same_chunker: bool, rng: &mut Rng) -> Result<RepoHandle, String> {
    if !same_chunker {
        let mut cfg = ConfigOptions::default();
        cfg.set_datapack_size = Some(bytesize::ByteSize::kib(rng.range(4, 32)));
        cfg.set_treepack_size = Some(bytesize::ByteSize::kib(rng.range(1, 4)));
        return RepoHandle::init_nocache(MemBackend::new(), None, &cfg).map(|x| x.0).map_err(|e| errkind(&e));
    }
    let mut config = h.open_nocache().map_err(|e| errkind(&e))?.config().clone();
    config.id = Id::random().into();
    if config.version >= 2 && rng.chance(1, 3) {
        config.compression = Some(*rng.pick(&[0, 1, -3, 7]));
    }
    let hd = RepoHandle { be: MemBackend::new(), hot: None, key: rustic_core::repofile::MasterKey::new() };
    let repo = Repository::new(&repo::nocache_opts(), &hd.backends()).map_err(|e| errkind(&e))?;
    _ = repo.init_with_config(&Credentials::Masterkey(hd.key.clone()), &KeyOptions::default(), config).map_err(|e| errkind(&e))?;
    Ok(hd)
}

/// `copy` of `snaps` from `h` into a fresh destination (see `copy_destination`), in two runs when there are several snapshots (the
/// second run finds part of the blobs present), then the destination is examined with ITS OWN key only:
///  * no stored non-key file of the destination shows a needle / JSON field name / secret string of either master key,
///  * every blob the destination's index lists decrypts (and decodes) with the destination's key — and NOT with the source's key
///    (theorem `stored_blob_decrypts_under_own_key`; what a raw transfer of ciphertext between repositories breaks),
///  * every copied snapshot (found by its tree id) reads back — every file dumped — exactly as it reads in the source,
///  * `check` and `check --read-data` of the destination are clean.
fn copy_and_verify(h: &RepoHandle, snaps: &[SnapshotFile], same_chunker: bool, rng: &mut Rng) -> Result<(), String> {
    if snaps.is_empty() {
        return Ok(());
    }
    let want = read_everything(h, snaps).map_err(|e| format!("oracle-fail:copy-source-unreadable:{e}"))?;
    let hd = copy_destination(h, same_chunker, rng)?;
    if serde_json::to_string(&hd.key).ok() == serde_json::to_string(&h.key).ok() {
        return Err("oracle-fail:copy-setup-same-master-key".into());
    }
    let run = |sel: &[SnapshotFile]| -> Result<(), String> {
        let src = h.open_nocache().map_err(|e| errkind(&e))?.to_indexed().map_err(|e| errkind(&e))?;
        let dst = hd.open_nocache().map_err(|e| errkind(&e))?.to_indexed_ids().map_err(|e| errkind(&e))?;
        if same_chunker && !src.config().has_same_chunker(dst.config()) {
            return Err("oracle-fail:copy-setup-chunker-differs".into());
        }
        src.copy(&dst, sel.iter()).map_err(|e| format!("{}@copy", errkind(&e)))
    };
    if snaps.len() >= 2 {
        run(&snaps[..snaps.len() / 2])?;
    }
    run(snaps)?;
    // (1) nothing readable in the destination's storage
    let mut secrets = master_secrets(h);
    secrets.extend(master_secrets(&hd));
    for ((t, _id), bytes) in &hd.be.store() {
        scan_one(repo::FILE_TYPES[*t as usize], bytes, &secrets).map_err(|e| format!("{e}-of-copy-destination"))?;
    }
    // (2) every blob stored in the destination is a message under the destination's key
    {
        let drepo = hd.open_nocache().map_err(|e| errkind(&e))?;
        let srepo = h.open_nocache().map_err(|e| errkind(&e))?;
        let (dbe, sbe) = (rustic_core::verif::repository::dbe(&drepo), rustic_core::verif::repository::dbe(&srepo));
        let mut n = 0usize;
        for id in hd.be.ids(FileType::Index) {
            let f: IndexFile = dbe.get_file(&rustic_core::repofile::IndexId::from(id)).map_err(|e| errkind(&e))?;
            for p in f.packs.iter().chain(f.packs_to_delete.iter()) {
                let Some(bytes) = hd.be.get(FileType::Pack, &Id::from(*p.id)) else { return Err("oracle-fail:copy-dest-pack-missing".into()) };
                for b in &p.blobs {
                    let (o, l) = (b.location.offset as usize, b.location.length as usize);
                    if o + l > bytes.len() {
                        return Err("oracle-fail:copy-dest-blob-range".into());
                    }
                    n += 1;
                    if dbe.read_encrypted_from_partial(&bytes[o..o + l], b.location.uncompressed_length).is_err() {
                        return Err("oracle-fail:copy-dest-blob-not-under-dest-key".into());
                    }
                    if sbe.read_encrypted_from_partial(&bytes[o..o + l], b.location.uncompressed_length).is_ok() {
                        return Err("oracle-fail:copy-dest-blob-opens-with-source-key".into());
                    }
                }
            }
        }
        if n == 0 {
            return Err("oracle-fail:copy-dest-holds-no-blob".into());
        }
    }
    // (3) every file of every copied snapshot reads from the destination as it reads from the source
    {
        let drepo = hd.open_nocache().map_err(|e| errkind(&e))?;
        let dsnaps = drepo.get_all_snapshots().map_err(|e| errkind(&e))?;
        let drepo = drepo.to_indexed().map_err(|e| format!("oracle-fail:copy-dest-index:{}", errkind(&e)))?;
        for (s, w) in snaps.iter().zip(&want) {
            let Some(d) = dsnaps.iter().find(|d| d.tree == s.tree) else { return Err("oracle-fail:copy-dest-snapshot-missing".into()) };
            match repo::read_back(&drepo, d) {
                Err(e) => return Err(format!("oracle-fail:copy-dest-unreadable:{}", errkind(&e))),
                Ok(got) if &got != w => return Err("oracle-fail:copy-dest-content-differs".into()),
                Ok(_) => {}
            }
        }
    }
    // (4) the destination checks clean, file data included
    if repo::check_errors_nocache(&hd, false) != Some(0) {
        return Err("oracle-fail:copy-dest-check".into());
    }
    if repo::check_errors_nocache(&hd, true) != Some(0) {
        return Err("oracle-fail:copy-dest-check-read-data".into());
    }
    Ok(())
}

fn exec_tamper(seed: u64) -> String {
    let mut rng = Rng::new(seed);
    let (h, snaps) = match build_repo(&mut rng, false) {
        Ok(x) => x,
        Err(e) => return e,
    };
    let original = match read_everything(&h, &snaps) {
        Ok(o) => o,
        Err(e) => return format!("oracle-fail:untampered-read:{e}"),
    };
    let store = h.be.store();
    // (pack id, variant) pairs whose modification no snapshot read touched: `check --read-data` must still notice them
    let mut pack_unread: Vec<(Id, usize)> = Vec::new();
    let mut pack_variants: std::collections::BTreeMap<(Id, usize), Vec<u8>> = std::collections::BTreeMap::new();
    for ((t, id), bytes) in &store {
        let tpe = repo::FILE_TYPES[*t as usize];
        if tpe == FileType::Key {
            continue;
        }
        let n = bytes.len();
        let mut variants: Vec<Vec<u8>> = Vec::new();
        let mut positions = vec![0usize, n - 1, n / 2, 15.min(n - 1), 16.min(n - 1), n.saturating_sub(17), n.saturating_sub(16), n.saturating_sub(5)];
        for _ in 0..4 {
            positions.push(rng.below(n as u64) as usize);
        }
        for p in positions {
            let mut v = bytes.to_vec();
            v[p] ^= 1 << rng.below(8);
            variants.push(v);
        }
        variants.push(bytes[..n - 1].to_vec());
        variants.push(bytes[1..].to_vec());
        let mut v = bytes.to_vec();
        v.push(rng.next() as u8);
        variants.push(v);
        for (vi, v) in variants.into_iter().enumerate() {
            if std::env::var("C04_DEBUG").is_ok() {
                eprintln!("variant {vi} of {} (len {} -> {})", repo::ft_name(tpe), n, v.len());
            }
            if tpe == FileType::Pack {
                _ = pack_variants.insert((*id, vi), v.clone());
            }
            h.be.put_raw(tpe, *id, Bytes::from(v));
            let res = read_everything(&h, &snaps);
            h.be.put_raw(tpe, *id, bytes.clone());
            match res {
                Err(_) => {}
                Ok(got) => {
                    if got != original {
                        return format!("oracle-fail:tampered-{}-changed-content", repo::ft_name(tpe));
                    }
                    // identical content is only acceptable for packs (unread regions: other blobs' bytes are read lazily,
                    // the unauthenticated 4-byte length trailer) — whole-file authenticated types must fail
                    if std::env::var("C04_DEBUG").is_ok() {
                        eprintln!("tamper accepted: {} {} len {}", repo::ft_name(tpe), id.to_hex().as_str(), n);
                    }
                    if tpe != FileType::Pack {
                        return format!("oracle-fail:tampered-{}-accepted", repo::ft_name(tpe));
                    }
                    pack_unread.push((*id, vi));
                }
            }
        }
    }
    // a sample of the pack modifications that reads did not notice: the full check must — for DATA packs (packs that hold
    // only root trees are never read by `check`, DESIGN §7 #11, a C05 matter)
    let mut data_packs: BTreeSet<Id> = BTreeSet::new();
    {
        let repo = match h.open_nocache() {
            Ok(r) => r,
            Err(e) => return errkind(&e),
        };
        let dbe = rustic_core::verif::repository::dbe(&repo);
        for id in h.be.ids(FileType::Index) {
            if let Ok(f) = dbe.get_file::<IndexFile>(&rustic_core::repofile::IndexId::from(id)) {
                for p in &f.packs {
                    if p.blob_type() == rustic_core::repofile::BlobType::Data {
                        _ = data_packs.insert(Id::from(*p.id));
                    }
                }
            }
        }
    }
    pack_unread.retain(|(id, _)| data_packs.contains(id));
    for (k, (id, vi)) in pack_unread.iter().enumerate() {
        if k % 3 != 0 && pack_unread.len() > 12 {
            continue;
        }
        let orig = store[&(repo::ft_idx(FileType::Pack), *id)].clone();
        h.be.put_raw(FileType::Pack, *id, Bytes::from(pack_variants[&(*id, *vi)].clone()));
        let res = repo::check_errors_nocache(&h, true);
        h.be.put_raw(FileType::Pack, *id, orig);
        if res == Some(0) {
            if std::env::var("C04_DEBUG").is_ok() {
                let v = &pack_variants[&(*id, *vi)];
                let firstdiff = orig_len_diff(&store[&(repo::ft_idx(FileType::Pack), *id)], v);
                eprintln!("unnoticed: pack {} variant {vi} len {} -> {} first diff at {:?}", id.to_hex().as_str(), store[&(repo::ft_idx(FileType::Pack), *id)].len(), v.len(), firstdiff);
            }
            return "oracle-fail:tampered-pack-unnoticed-by-check".into();
        }
    }
    "ok".into()
}

// ------------------------------------------------------------------ tamper front: packs extended at the FRONT

/// every snapshot of `snaps` read (ls + dump of every file) through an already indexed repository
fn read_with<S: rustic_core::IndexedFull>(repo: &Repository<S>, snaps: &[SnapshotFile]) -> Result<Vec<Vec<repo::ReadBack>>, String> {
    let ids: Vec<String> = snaps.iter().map(|s| s.id.to_hex().to_string()).collect();
    let got = repo.get_snapshots(&ids).map_err(|e| errkind(&e))?;
    let mut out = Vec::new();
    for s in &got {
        out.push(repo::read_back(repo, s).map_err(|e| errkind(&e))?);
    }
    Ok(out)
}

/// Every file of every snapshot dumped ONE BY ONE through an already indexed repository: a file (or tree) that cannot be read is
/// skipped, a file that does read must have exactly its original content.  Returns the path of the first file that read
/// successfully with OTHER content.  (`read_everything` gives up at the first failing blob — with a damaged pack that hides the
/// files that still "read".)
fn file_with_other_content<S: rustic_core::IndexedFull>(repo: &Repository<S>, snaps: &[SnapshotFile], original: &[Vec<repo::ReadBack>]) -> Option<String> {
    use std::os::unix::ffi::OsStrExt;
    for (snap, orig) in snaps.iter().zip(original) {
        let want: std::collections::BTreeMap<&[u8], &Vec<u8>> =
            orig.iter().filter_map(|e| e.content.as_ref().map(|c| (e.path.as_slice(), c))).collect();
        let mut root = rustic_core::repofile::Node::new_node(std::ffi::OsStr::new(""), rustic_core::repofile::NodeType::Dir, rustic_core::repofile::Metadata::default());
        root.subtree = Some(snap.tree);
        let Ok(it) = repo.ls(&root, &rustic_core::LsOptions::default()) else { continue };
        for item in it {
            let Ok((path, node)) = item else { break };
            if node.is_file() {
                let mut buf = Vec::new();
                if repo.dump(&node, &mut buf).is_ok() {
                    let p = path.as_os_str().as_bytes();
                    if want.get(p).is_none_or(|w| **w != buf) {
                        return Some(String::from_utf8_lossy(p).to_string());
                    }
                }
            }
        }
    }
    None
}

/// `tamper front <seed>`: pack files EXTENDED AT THE FRONT.  The pack header sits at the END of the file and lists blob LENGTHS
/// only (offsets are implied: back to back from 0), so a front-extended pack still ends in an intact, authenticated header — what
/// ties that header to the file is the size comparison in `PackHeader::from_file` (model: `Pack.fromFile`, theorems
/// `C08.from_file_ok_sizes` / `from_file_rejects_front_extended`).  Repository with EQUAL-LENGTH blobs in one data pack (equally
/// sized incompressible files, or one file under the fixed-size chunker), so that a read at a wrong blob border still finds a
/// complete valid message.  For every pack × prefix ∈ {one byte, random bytes, random bytes of the first blob's length, copy of
/// the first blob, the first bytes up to the distance of two equal-length blobs, the whole pack (= pack duplicated)}:
///  * direct read with the (stale) index: fails or returns the original content — compared for the prefixes that do not put
///    another valid blob at a recorded offset (for the others a stale index pointing at a valid message of another blob is the
///    known finding `swap packtwin`: blob ids are not verified on read);
///  * `check` must report the pack;
///  * `to_indexed_checked()` (re-reads the header because the size differs): must not return other content — nor accept the pack;
///  * `repair_index` (default / `--read-all`) on a copy of the store, then every file is read: fails or returns the original
///    content; the tampered pack must not be listed by the rebuilt index.
fn exec_tamper_front(seed: u64) -> String {
    let mut rng = Rng::new(seed);
    let mut cfg = ConfigOptions::default();
    match rng.below(3) {
        0 => {}
        1 => cfg.set_compression = Some(-3),
        _ => cfg.set_compression = Some(0),
    }
    let fixed = rng.chance(1, 2);
    let chunk = 256usize << rng.below(4);
    if fixed {
        cfg.set_chunker = Some(rustic_core::repofile::Chunker::FixedSize);
        cfg.set_chunk_size = Some(bytesize::ByteSize(chunk as u64));
    }
    let (h, _r) = match RepoHandle::init_nocache(MemBackend::new(), None, &cfg) {
        Ok(x) => x,
        Err(e) => return errkind(&e),
    };
    let mut snaps = Vec::new();
    for round in 0..(1 + rng.below(2)) {
        let mut entries = Vec::new();
        if fixed {
            // one file of m whole chunks (m equal-length blobs) and a short one
            let m = 3 + rng.below(6) as usize;
            entries.push(SrcEntry::file(&[format!("big{round}").as_bytes()], &rng.bytes(m * chunk)));
            let k = 1 + rng.below(100) as usize;
            entries.push(SrcEntry::file(&[format!("small{round}").as_bytes()], &rng.bytes(k)));
        } else {
            // equally sized incompressible files: one blob each, equal stored length
            let n = 200 + rng.below(3000) as usize;
            for i in 0..(3 + rng.below(4)) {
                entries.push(SrcEntry::file(&[format!("f{round}-{i}").as_bytes()], &rng.bytes(n)));
            }
            let k = 1 + rng.below(150) as usize;
            entries.push(SrcEntry::file(&[format!("other{round}").as_bytes()], &rng.bytes(k)));
        }
        let snap = match snapshot_opts().to_snapshot() {
            Ok(s) => s,
            Err(e) => return errkind(&e),
        };
        match repo::backup_nocache(&h, &MemSource::new(entries), &BackupOptions::default(), snap) {
            Ok(s) => snaps.push(s),
            Err(e) => return errkind(&e),
        }
    }
    let original = match read_everything(&h, &snaps) {
        Ok(o) => o,
        Err(e) => return format!("oracle-fail:untampered-read:{e}"),
    };
    // the packs and the lengths of their blobs in file order
    let mut packs: Vec<(Id, Vec<usize>)> = Vec::new();
    {
        let repo = match h.open_nocache() {
            Ok(r) => r,
            Err(e) => return errkind(&e),
        };
        let dbe = rustic_core::verif::repository::dbe(&repo);
        for id in h.be.ids(FileType::Index) {
            match dbe.get_file::<IndexFile>(&rustic_core::repofile::IndexId::from(id)) {
                Ok(f) => {
                    for p in &f.packs {
                        let mut b: Vec<(u32, u32)> = p.blobs.iter().map(|b| (b.location.offset, b.location.length)).collect();
                        b.sort_unstable();
                        packs.push((Id::from(*p.id), b.into_iter().map(|(_, l)| l as usize).collect()));
                    }
                }
                Err(e) => return errkind(&e),
            }
        }
    }
    packs.sort();
    // (offset of blob j, offset of blob i) for j < i of equal stored length
    let equal_pairs = |l: &[usize]| -> Vec<(usize, usize)> {
        let off: Vec<usize> = l.iter().scan(0usize, |a, x| { let o = *a; *a += x; Some(o) }).collect();
        let mut v = Vec::new();
        for i in 0..l.len() {
            for j in 0..i {
                if l[i] == l[j] {
                    v.push((off[j], off[i]));
                }
            }
        }
        v
    };
    if !packs.iter().any(|(_, l)| !equal_pairs(l).is_empty()) {
        if std::env::var("C04_DEBUG").is_ok() {
            eprintln!("fixed={fixed} chunk={chunk} packs={:?}", packs.iter().map(|(_, l)| l.clone()).collect::<Vec<_>>());
        }
        return "oracle-fail:setup-no-pack-with-equal-length-blobs".into();
    }
    let listed = |hh: &RepoHandle, pack: &Id| -> Result<bool, String> {
        let repo = hh.open_nocache().map_err(|e| errkind(&e))?;
        let dbe = rustic_core::verif::repository::dbe(&repo);
        for id in hh.be.ids(FileType::Index) {
            let f: IndexFile = dbe.get_file(&rustic_core::repofile::IndexId::from(id)).map_err(|e| errkind(&e))?;
            if f.packs.iter().chain(f.packs_to_delete.iter()).any(|p| Id::from(*p.id) == *pack) {
                return Ok(true);
            }
        }
        Ok(false)
    };
    let mut case = 0u64;
    let mut failures: Vec<String> = Vec::new();
    for (pid, lens) in &packs {
        let bytes = h.be.get(FileType::Pack, pid).unwrap_or_default();
        // (name, prefix, may a stale index find ANOTHER valid blob at a recorded offset?)
        let k = 2 + rng.below(70) as usize;
        let mut prefixes: Vec<(&str, Vec<u8>, bool)> = vec![("byte", vec![rng.next() as u8], false), ("junk", rng.bytes(k), false)];
        if let Some(l0) = lens.first() {
            prefixes.push(("junk-bloblen", rng.bytes(*l0), true));
            prefixes.push(("blob1", bytes[..*l0].to_vec(), true));
            // a prefix as long as the distance of two equal-length blobs j < i (the first bytes of the pack repeated: whole blobs when
            // j = 0): with offsets counted from 0 again, blob i's recorded range holds blob j — a complete valid message
            let pairs = equal_pairs(lens);
            if !pairs.is_empty() {
                let (oj, oi) = *rng.pick(&pairs);
                prefixes.push(("pair", bytes[..oi - oj].to_vec(), true));
            }
        }
        prefixes.push(("pack", bytes.to_vec(), false));
        for (name, prefix, aligned) in prefixes {
            case += 1;
            let mut t = prefix.clone();
            t.extend_from_slice(&bytes);
            let t = Bytes::from(t);
            h.be.put_raw(FileType::Pack, *pid, t.clone());
            let res: Result<(), String> = (|| {
                // direct read, stale index
                if !aligned {
                    if let Ok(got) = read_everything(&h, &snaps) {
                        if got != original {
                            return Err(format!("oracle-fail:front-extended-pack-changed-content:{name}"));
                        }
                    }
                    if let Ok(repo) = h.open_nocache().and_then(|r| r.to_indexed()) {
                        if file_with_other_content(&repo, &snaps, &original).is_some() {
                            return Err(format!("oracle-fail:front-extended-pack-changed-content:{name}"));
                        }
                    }
                }
                // check reports it
                if repo::check_errors_nocache(&h, false) == Some(0) {
                    return Err(format!("oracle-fail:front-extended-pack-unnoticed-by-check:{name}"));
                }
                // header re-read when the index is loaded
                if let Ok(repo) = h.open_nocache().map_err(|e| errkind(&e))?.to_indexed_checked() {
                    if let Ok(got) = read_with(&repo, &snaps) {
                        if got != original {
                            return Err(format!("oracle-fail:front-extended-pack-changed-content-after-checked-index:{name}"));
                        }
                    }
                    if file_with_other_content(&repo, &snaps, &original).is_some() {
                        return Err(format!("oracle-fail:front-extended-pack-changed-content-after-checked-index:{name}"));
                    }
                    return Err(format!("oracle-fail:front-extended-pack-accepted-by-checked-index:{name}"));
                }
                // header re-read by `repair index`, on a copy of the store
                let h2 = RepoHandle { be: MemBackend::from_store(h.be.store()), hot: None, key: h.key.clone() };
                let read_all = case % 2 == 1;
                h2.open_nocache()
                    .and_then(|r| r.repair_index(&rustic_core::RepairIndexOptions::default().read_all(read_all), false))
                    .map_err(|e| format!("{}@repair-index", errkind(&e)))?;
                if let Ok(got) = read_everything(&h2, &snaps) {
                    if got != original {
                        return Err(format!("oracle-fail:front-extended-pack-changed-content-after-repair-index:{name}"));
                    }
                }
                if let Ok(repo) = h2.open_nocache().and_then(|r| r.to_indexed()) {
                    if file_with_other_content(&repo, &snaps, &original).is_some() {
                        return Err(format!("oracle-fail:front-extended-pack-changed-content-after-repair-index:{name}"));
                    }
                }
                if listed(&h2, pid)? {
                    return Err(format!("oracle-fail:front-extended-pack-reindexed:{name}"));
                }
                Ok(())
            })();
            h.be.put_raw(FileType::Pack, *pid, bytes.clone());
            if let Err(e) = res {
                failures.push(e);
            }
        }
    }
    // all prefixes are tried; reported is the gravest outcome (other content returned without error), else the first one
    if let Some(e) = failures.iter().find(|e| e.contains("changed-content")).or(failures.first()) {
        return e.clone();
    }
    // the untampered repository is still what it was
    match read_everything(&h, &snaps) {
        Ok(got) if got == original => "ok".into(),
        _ => "oracle-fail:restored-store-differs".into(),
    }
}

fn orig_len_diff(a: &[u8], b: &[u8]) -> Option<usize> {
    a.iter().zip(b.iter()).position(|(x, y)| x != y)
}

fn exec_swap(seed: u64) -> String {
    let mut rng = Rng::new(seed);
    let (h, snaps) = match build_repo(&mut rng, false) {
        Ok(x) => x,
        Err(e) => return e,
    };
    let (a, b) = (Id::from(*snaps[0].id), Id::from(*snaps[1].id));
    let (ba, bb) = (h.be.get(FileType::Snapshot, &a).unwrap(), h.be.get(FileType::Snapshot, &b).unwrap());
    h.be.put_raw(FileType::Snapshot, a, bb);
    h.be.put_raw(FileType::Snapshot, b, ba);
    let repo = match h.open_nocache() {
        Ok(r) => r,
        Err(e) => return errkind(&e),
    };
    match repo.get_snapshots(&[a.to_hex().to_string()]) {
        Err(e) => {
            if std::env::var("C04_DEBUG").is_ok() {
                eprintln!("swap: {}", e.display_log());
            }
            "ok detected".into()
        }
        Ok(got) => {
            if std::env::var("C04_DEBUG").is_ok() {
                eprintln!("swap got {} trees {:?} want0 {:?} want1 {:?}", got.len(), got.iter().map(|g| g.tree).collect::<Vec<_>>(), snaps[0].tree, snaps[1].tree);
            }
            if got.len() == 1 && got[0].tree == snaps[1].tree && got[0].tree != snaps[0].tree {
                "oracle-fail:substitution-undetected".into()
            } else if got.len() == 1 && got[0].tree == snaps[0].tree {
                "ok detected".into()
            } else {
                "oracle-fail:substitution-strange".into()
            }
        }
    }
}

/// `swap index|pack|key <seed>`: exchange the stored bytes of two files of that type (a seeded pair) in a repository with several
/// backups; then every snapshot is read (ls + dump of every file): each read must FAIL or return exactly what it returned before
/// the exchange.  (Index files are all read and merged, key files are all tried — exchanging them changes nothing; a blob read from
/// an exchanged pack normally fails its MAC because offset / length belong to the other pack.)
fn exec_swap_any(tpe: FileType, seed: u64) -> String {
    let mut rng = Rng::new(seed);
    let (h, snaps) = match build_repo(&mut rng, false) {
        Ok(x) => x,
        Err(e) => return e,
    };
    if tpe == FileType::Key {
        // the repository was initialised with the master key: add two key files
        for p in ["pw-swap-1", "pw-swap-2"] {
            if let Err(e) = plant_key(&h, p, &mut rng) {
                return e;
            }
        }
    }
    let before = match read_everything(&h, &snaps) {
        Ok(b) => b,
        Err(e) => return format!("oracle-fail:unreadable-before-swap:{e}"),
    };
    let ids = h.be.ids(tpe);
    if ids.len() < 2 {
        return "ok".into();
    }
    let i = rng.below(ids.len() as u64) as usize;
    let mut j = rng.below(ids.len() as u64 - 1) as usize;
    if j >= i {
        j += 1;
    }
    let (a, b) = (ids[i], ids[j]);
    let (ba, bb) = (h.be.get(tpe, &a).unwrap(), h.be.get(tpe, &b).unwrap());
    h.be.put_raw(tpe, a, bb);
    h.be.put_raw(tpe, b, ba);
    if tpe == FileType::Key {
        for p in ["pw-swap-1", "pw-swap-2"] {
            if open_pw(&h, p) != "ok" {
                return "oracle-fail:swapped-key-files-lock-out".into();
            }
        }
        if open_pw(&h, "pw-swap-3") == "ok" {
            return "oracle-fail:wrong-password-opens".into();
        }
    }
    match read_everything(&h, &snaps) {
        Err(_) => "ok".into(),
        Ok(after) if after == before => "ok".into(),
        Ok(_) => "oracle-fail:substitution-undetected".into(),
    }
}

/// `swap packtwin <seed>`: the border case of pack substitution — two data packs with the SAME layout (one blob of equal stored
/// length each: two incompressible files of equal size, compression off, a pack per blob).  After exchanging their bytes the blob
/// at (offset, length) of pack A is a complete, valid message — of the other file.  A read that does not compare the blob's hash
/// with its id returns the other file's content without error (`oracle-fail:substitution-undetected`; `check --read-data` must
/// at least report it: `oracle-fail:check-blind` otherwise).
fn exec_swap_packtwin(seed: u64) -> String {
    let mut rng = Rng::new(seed);
    let cfg = ConfigOptions::default().set_compression(0).set_datapack_size(bytesize::ByteSize(1)).set_datapack_growfactor(0u32);
    let (h, _r) = match RepoHandle::init_nocache(MemBackend::new(), None, &cfg) {
        Ok(x) => x,
        Err(e) => return errkind(&e),
    };
    let n = 200 + rng.below(3000) as usize;
    let src = MemSource::new(vec![SrcEntry::file(&[b"a"], &rng.bytes(n)), SrcEntry::file(&[b"b"], &rng.bytes(n))]);
    let snap = match snapshot_opts().to_snapshot() {
        Ok(s) => s,
        Err(e) => return errkind(&e),
    };
    let snap = match repo::backup_nocache(&h, &src, &BackupOptions::default(), snap) {
        Ok(s) => s,
        Err(e) => return errkind(&e),
    };
    let snaps = vec![snap];
    let before = match read_everything(&h, &snaps) {
        Ok(b) => b,
        Err(e) => return format!("oracle-fail:unreadable-before-swap:{e}"),
    };
    // the two data packs: one blob each, equal size
    let repo = match h.open_nocache() {
        Ok(r) => r,
        Err(e) => return errkind(&e),
    };
    let dbe = rustic_core::verif::repository::dbe(&repo);
    let mut data_packs: Vec<Id> = vec![];
    for id in h.be.ids(FileType::Index) {
        match dbe.get_file::<IndexFile>(&rustic_core::repofile::IndexId::from(id)) {
            Ok(f) => data_packs.extend(f.packs.iter().filter(|p| p.blobs.len() == 1 && p.blobs[0].tpe == rustic_core::repofile::BlobType::Data).map(|p| Id::from(*p.id))),
            Err(e) => return errkind(&e),
        }
    }
    drop(repo);
    if data_packs.len() != 2 {
        return format!("oracle-fail:setup-twin-packs:{}", data_packs.len());
    }
    let (a, b) = (data_packs[0], data_packs[1]);
    let (ba, bb) = (h.be.get(FileType::Pack, &a).unwrap(), h.be.get(FileType::Pack, &b).unwrap());
    if ba.len() != bb.len() {
        return "oracle-fail:setup-twin-packs-differ-in-size".into();
    }
    h.be.put_raw(FileType::Pack, a, bb);
    h.be.put_raw(FileType::Pack, b, ba);
    let undetected = match read_everything(&h, &snaps) {
        Err(_) => false,
        Ok(after) => after != before,
    };
    match repo::check_errors_nocache(&h, true) {
        Some(0) => return "oracle-fail:check-blind".into(),
        Some(_) | None => {}
    }
    if undetected { "oracle-fail:substitution-undetected".into() } else { "ok detected".into() }
}

pub fn exec(t: &[&str]) -> String {
    let t: Vec<String> = t.iter().map(|s| (*s).to_string()).collect();
    guarded(move || match t.iter().map(String::as_str).collect::<Vec<_>>().as_slice() {
        ["msg", n, seed] => match (n.parse::<usize>(), seed.parse::<u64>()) {
            (Ok(n), Ok(s)) => exec_msg(n, s),
            _ => "bad-op".into(),
        },
        ["file", z, data] if *z == "z" || *z == "-" => match unhex(data) {
            Some(d) => exec_file(*z == "z", &d),
            None => "bad-op".into(),
        },
        ["blob", z, data] if *z == "z" || *z == "-" => match unhex(data) {
            Some(d) => exec_blob(*z == "z", &d),
            None => "bad-op".into(),
        },
        ["keys", script] => exec_keys(script),
        ["initpw", p, qs] => exec_initpw(p, qs),
        ["scan", seed] => seed.parse::<u64>().map_or("bad-op".into(), exec_scan),
        ["sites"] => exec_sites(),
        ["hist", seed] => seed.parse::<u64>().map_or("bad-op".into(), exec_hist),
        ["tamper", seed] => seed.parse::<u64>().map_or("bad-op".into(), exec_tamper),
        ["tamper", "front", seed] => seed.parse::<u64>().map_or("bad-op".into(), exec_tamper_front),
        ["swap", "snapshot", seed] => seed.parse::<u64>().map_or("bad-op".into(), exec_swap),
        ["swap", "index", seed] => seed.parse::<u64>().map_or("bad-op".into(), |s| exec_swap_any(FileType::Index, s)),
        ["swap", "pack", seed] => seed.parse::<u64>().map_or("bad-op".into(), |s| exec_swap_any(FileType::Pack, s)),
        ["swap", "key", seed] => seed.parse::<u64>().map_or("bad-op".into(), |s| exec_swap_any(FileType::Key, s)),
        ["swap", "packtwin", seed] => seed.parse::<u64>().map_or("bad-op".into(), exec_swap_packtwin),
        _ => "bad-op".into(),
    })
}
