//! C14 — restore yields exactly the snapshot and never writes outside the target.
//!   c14 file <chunk> <content> <old|~> <verify 0|1> <sparse 0|1> <dst-mtime> <node-mtime|~>
//!        one file `f` backed up with the fixed-size chunker (blobs = `chunk`-byte pieces of `content`), destination
//!        pre-state `dest/f = old` (`~` absent), real prepare_restore + restore; observation: bytes of `dest/f`.
//!        mtimes as `<secs>.<nanos>` (nanosecond resolution: `add_file` trusts an existing file of the node's size only
//!        if the two timestamps are equal to the nanosecond); node mtime `~` = the node carries none.
//!        Short form `… <sparse> <mtime-equal 0|1>`: node mtime 1600000000.0, destination the same / 77 s later.
//!   c14 join <base> <item>          `LocalDestination::path` = `Path::join`, lexically resolved; `in` / `out` of base
//!   c14 hostile <kind> <name-hex>   snapshot whose tree holds a file node with a hostile name (crafted through a
//!        `ReadSource` whose node name differs from its path); restore into dest with sentinels around it.
//!        observation: `refused` (restore returns an error and nothing is written) or `restored`.  Kind `nested`: the name is
//!        given to a file node inside a plain directory `sub` (path `sub/<name>`: the `..` is not the first component).
//!   c14 tree <seed>                 random tree × random mutation of the destination × options; oracle only.
//!   c14 walk <delete> <dry> <dst> <nodes>   the merge-walk of `collect_and_prepare`: dst = `K:path,…` (d dir, f file with
//!        other content, F file with the snapshot's content, l dangling symlink), nodes = `K:path,…` (d dir, f file, s symlink),
//!        both complete (parents listed).  Real `prepare_restore` (verify on) only; observation: `RestorePlan.stats` and the
//!        destination listing afterwards (removals, created directories) or `err:<kind>`.
//!   c14 plan <backups> <which> <dsts>   files as strings of chunk letters, backups `;`-separated; snapshot `which` is restored
//!        over existing files `dsts` (`~` absent).  Observation: `RestorePlan::to_packs()` as the sorted backup numbers whose
//!        data pack it names.  Oracles: data packs read by the real restore == to_packs(), restored content == snapshot.
//! Oracles: `oracle-fail:` when a sentinel outside the destination is touched / a file appears outside, when a snapshot
//! path does not hold the snapshot's content after restore (verify on or size/mtime differing), when extra entries are
//! removed without `delete` or survive with it.
use std::collections::BTreeMap;
use std::ffi::OsString;
use std::io::Cursor;
use std::os::unix::ffi::OsStringExt;
use std::path::{Component, Path, PathBuf};

use rustic_core::repofile::{Chunker, Metadata, Node, NodeType, SnapshotFile};
use rustic_core::{
    BackupOptions, ConfigOptions, IndexedFull, LocalDestination, LsOptions, ReadSource, ReadSourceEntry, Repository, RestoreOptions,
    RusticResult,
};

use super::c20::data_of;
use crate::repo::{MemBackend, MemSource, RepoHandle, SRC_ROOT, SrcEntry, SrcKind};
use crate::util::{Rng, Stats, guarded, hex, unhex};

const SNAP_MTIME: i64 = 1_600_000_000;

fn restore_with<S: IndexedFull>(repo: &Repository<S>, snap: &SnapshotFile, dest: &Path, opts: &RestoreOptions) -> Result<(), String> {
    std::fs::create_dir_all(dest).map_err(|_| "mkdir".to_string())?;
    let node = repo.node_from_snapshot_path(&format!("{}:src", snap.id.to_hex().as_str()), |_| true).map_err(|_| "node".to_string())?;
    let ls = repo.ls(&node, &LsOptions::default()).map_err(|_| "ls".to_string())?;
    let d = LocalDestination::new(dest.to_str().unwrap(), true, !node.is_dir()).map_err(|_| "dest".to_string())?;
    let plan = repo.prepare_restore(opts, ls, &d, false).map_err(|e| format!("prepare:{}", crate::util::errkind(&e)))?;
    let ls = repo.ls(&node, &LsOptions::default()).map_err(|_| "ls".to_string())?;
    repo.restore(plan, opts, ls, &d).map_err(|e| format!("restore:{}", crate::util::errkind(&e)))
}

fn opts_of(verify: bool, sparse: bool, delete: bool) -> RestoreOptions {
    let o = RestoreOptions::default().verify_existing(verify).delete(delete).no_ownership(true);
    if sparse { rustic_core::verif::restore::with_sparse_by_content(o) } else { o }
}

fn set_mtime(p: &Path, secs: i64) {
    _ = set_mtime_ns(p, (secs, 0));
}

/// (seconds, nanoseconds) — `jiff::Timestamp::new`
type Mt = (i64, u32);

/// sets the mtime at nanosecond resolution; `false` if the file system did not keep exactly that value
fn set_mtime_ns(p: &Path, (secs, nanos): Mt) -> bool {
    let t = std::time::UNIX_EPOCH + std::time::Duration::new(secs as u64, nanos);
    let Ok(f) = std::fs::File::options().write(true).open(p) else { return false };
    f.set_modified(t).is_ok() && std::fs::metadata(p).and_then(|m| m.modified()).ok() == Some(t)
}

fn parse_mt(s: &str) -> Option<Mt> {
    let (a, b) = s.split_once('.')?;
    let ok = |x: &str| !x.is_empty() && x.bytes().all(|c| c.is_ascii_digit());
    if !ok(a) || !ok(b) {
        return None;
    }
    let (a, b) = (a.parse::<i64>().ok()?, b.parse::<u32>().ok()?);
    (b < 1_000_000_000 && a < 4_000_000_000).then_some((a, b))
}

/// A `MemSource` whose nodes carry mtimes at nanosecond resolution (`SrcEntry::mtime_s` is whole seconds): source path ->
/// mtime of its node (`None` = the node has no mtime).
#[derive(Clone)]
struct NanoSource {
    inner: MemSource,
    mtimes: BTreeMap<PathBuf, Option<Mt>>,
}

impl ReadSource for NanoSource {
    type Open = Cursor<Vec<u8>>;
    type Iter = std::vec::IntoIter<RusticResult<ReadSourceEntry<Self::Open>>>;
    fn size(&self) -> RusticResult<Option<u64>> {
        Ok(None)
    }
    fn entries(&self) -> Self::Iter {
        let v: Vec<_> = self
            .inner
            .entries()
            .map(|e| {
                e.map(|mut e| {
                    if let Some(m) = self.mtimes.get(&e.path) {
                        e.node.meta.mtime = m.map(|(s, n)| rustic_core::jiff::Timestamp::new(s, n as i32).expect("timestamp"));
                    }
                    e
                })
            })
            .collect();
        v.into_iter()
    }
}

fn backup_nano(h: &RepoHandle, src: &NanoSource) -> RusticResult<SnapshotFile> {
    let repo = h.open()?.to_indexed_ids()?;
    repo.archive(&BackupOptions::default(), src, SnapshotFile::default(), &[PathBuf::from(SRC_ROOT)])
}

fn file_case(chunk: usize, content: &[u8], old: Option<Vec<u8>>, verify: bool, sparse: bool, dm: Mt, nm: Option<Mt>) -> String {
    let cfg = ConfigOptions::default().set_chunker(Chunker::FixedSize).set_chunk_size(bytesize::ByteSize(chunk as u64));
    let Ok((h, _)) = RepoHandle::init(MemBackend::new(), None, &cfg) else { return "err:init".into() };
    let src = NanoSource { inner: MemSource::new(vec![SrcEntry::file(&[b"f"], content)]), mtimes: BTreeMap::from([(PathBuf::from(SRC_ROOT).join("f"), nm)]) };
    let Ok(snap) = backup_nano(&h, &src) else { return "err:backup".into() };
    let Ok(repo) = h.open().and_then(Repository::to_indexed) else { return "err:open".into() };
    let tmp = tempfile::tempdir().expect("tempdir");
    let dest = tmp.path().join("dest");
    std::fs::create_dir_all(&dest).unwrap();
    let f = dest.join("f");
    if let Some(o) = &old {
        std::fs::write(&f, o).unwrap();
        if !set_mtime_ns(&f, dm) {
            return "err:file-system-does-not-keep-nanosecond-mtimes".into();
        }
    }
    match restore_with(&repo, &snap, &dest, &opts_of(verify, sparse, false)) {
        Ok(()) => {}
        Err(e) => return format!("err:{e}"),
    }
    match std::fs::read(&f) {
        Ok(b) => format!("ok {}", hex(&b)),
        Err(_) => "ok absent".into(),
    }
}

/// lexical resolution of `base.join(item)` (what the OS does with `..`, ignoring symlinks)
fn resolve(p: &Path) -> PathBuf {
    let mut out = PathBuf::new();
    for c in p.components() {
        match c {
            Component::RootDir => out.push("/"),
            Component::ParentDir => {
                _ = out.pop();
            }
            Component::Normal(x) => out.push(x),
            _ => {}
        }
    }
    out
}

/// A source with one file whose *node name* is hostile while its path is harmless.
#[derive(Clone)]
struct HostileSource {
    name: Vec<u8>,
    content: Vec<u8>,
    as_dir: bool,
    /// the hostile name is given to a file node INSIDE a plain directory `sub` (so it is not the first component of the path)
    nested: bool,
}

fn meta(size: u64) -> Metadata {
    Metadata {
        mode: Some(0o644),
        mtime: Some(rustic_core::jiff::Timestamp::from_second(SNAP_MTIME).unwrap()),
        atime: None,
        ctime: None,
        uid: None,
        gid: None,
        user: None,
        group: None,
        inode: 0,
        device_id: 0,
        size,
        links: 1,
        extended_attributes: vec![],
    }
}

impl ReadSource for HostileSource {
    type Open = Cursor<Vec<u8>>;
    type Iter = std::vec::IntoIter<RusticResult<ReadSourceEntry<Self::Open>>>;
    fn size(&self) -> RusticResult<Option<u64>> {
        Ok(None)
    }
    fn entries(&self) -> Self::Iter {
        let mut v = Vec::new();
        let mut root = Node::new_node(std::ffi::OsStr::new("src"), NodeType::Dir, meta(0));
        root.meta.mode = Some(0o755);
        v.push(Ok(ReadSourceEntry { path: PathBuf::from(SRC_ROOT), node: root, open: None }));
        let name = OsString::from_vec(self.name.clone());
        if self.nested {
            let mut d = Node::new_node(std::ffi::OsStr::new("sub"), NodeType::Dir, meta(0));
            d.meta.mode = Some(0o755);
            v.push(Ok(ReadSourceEntry { path: PathBuf::from(SRC_ROOT).join("sub"), node: d, open: None }));
            let f = Node::new_node(&name, NodeType::File, meta(self.content.len() as u64));
            v.push(Ok(ReadSourceEntry { path: PathBuf::from(SRC_ROOT).join("sub").join("x"), node: f, open: Some(Cursor::new(self.content.clone())) }));
        } else if self.as_dir {
            let mut d = Node::new_node(&name, NodeType::Dir, meta(0));
            d.meta.mode = Some(0o755);
            v.push(Ok(ReadSourceEntry { path: PathBuf::from(SRC_ROOT).join("x"), node: d, open: None }));
            let f = Node::new_node(std::ffi::OsStr::new("evil"), NodeType::File, meta(self.content.len() as u64));
            v.push(Ok(ReadSourceEntry { path: PathBuf::from(SRC_ROOT).join("x").join("evil"), node: f, open: Some(Cursor::new(self.content.clone())) }));
        } else {
            let f = Node::new_node(&name, NodeType::File, meta(self.content.len() as u64));
            v.push(Ok(ReadSourceEntry { path: PathBuf::from(SRC_ROOT).join("x"), node: f, open: Some(Cursor::new(self.content.clone())) }));
        }
        v.into_iter()
    }
}

fn snapshot_of_dir(root: &Path) -> BTreeMap<String, Vec<u8>> {
    fn walk(dir: &Path, rel: &str, out: &mut BTreeMap<String, Vec<u8>>) {
        let Ok(rd) = std::fs::read_dir(dir) else { return };
        for e in rd.flatten() {
            let name = e.file_name().to_string_lossy().to_string();
            let r = if rel.is_empty() { name.clone() } else { format!("{rel}/{name}") };
            let Ok(ft) = e.file_type() else { continue };
            if ft.is_dir() {
                _ = out.insert(format!("{r}/"), vec![]);
                walk(&e.path(), &r, out);
            } else if ft.is_file() {
                _ = out.insert(r, std::fs::read(e.path()).unwrap_or_default());
            } else {
                _ = out.insert(format!("{r}@"), vec![]);
            }
        }
    }
    let mut out = BTreeMap::new();
    walk(root, "", &mut out);
    out
}

fn hostile(kind: &str, name: &[u8]) -> String {
    let tmp = tempfile::tempdir().expect("tempdir");
    let outer = tmp.path().join("outer");
    let dest = outer.join("mid").join("dest");
    std::fs::create_dir_all(&dest).unwrap();
    // sentinels around the destination
    std::fs::write(outer.join("sentinel"), b"S1").unwrap();
    std::fs::write(outer.join("mid").join("sentinel"), b"S2").unwrap();
    std::fs::create_dir_all(outer.join("abs")).unwrap();
    let name: Vec<u8> = if kind == "abs" {
        // an absolute name pointing into the sandbox (never anywhere else)
        let mut p = outer.join("abs").into_os_string().into_vec();
        p.push(b'/');
        p.extend_from_slice(name);
        p
    } else {
        name.to_vec()
    };
    let src = HostileSource { name, content: b"EVIL".to_vec(), as_dir: kind == "dir", nested: kind == "nested" };
    let Ok((h, _)) = RepoHandle::init(MemBackend::new(), None, &ConfigOptions::default()) else { return "err:init".into() };
    let Ok(repo) = h.open().and_then(Repository::to_indexed_ids) else { return "err:open".into() };
    let Ok(snap) = repo.archive(&BackupOptions::default(), &src, SnapshotFile::default(), &[PathBuf::from(SRC_ROOT)]) else {
        return "err:backup".into();
    };
    let Ok(repo) = h.open().and_then(Repository::to_indexed) else { return "err:open".into() };
    let before = snapshot_of_dir(&outer);
    let res = restore_with(&repo, &snap, &dest, &opts_of(true, false, false));
    let after = snapshot_of_dir(&outer);
    // anything new or changed outside dest?
    let inside = |k: &str| k.starts_with("mid/dest/");
    let _ = &inside;
    for (k, v) in &after {
        if !inside(k) && before.get(k) != Some(v) {
            return format!("oracle-fail:wrote-outside-destination:{}", k.chars().take(40).collect::<String>());
        }
    }
    for k in before.keys() {
        if !inside(k) && !after.contains_key(k) {
            return "oracle-fail:removed-outside-destination".into();
        }
    }
    match res {
        Err(_) => {
            // `nested`: the plain directory `sub` precedes the hostile node in the stream and may exist already (inside the destination)
            if after.keys().any(|k| inside(k) && k != "mid/dest/" && !(kind == "nested" && k == "mid/dest/sub/")) {
                "refused-after-writing".into()
            } else {
                "refused".into()
            }
        }
        Ok(()) => "restored".into(),
    }
}

fn tree_case(seed: u64) -> String {
    let mut rng = Rng::new(seed);
    // the snapshot
    let mut entries = Vec::new();
    let nfiles = 1 + rng.below(6);
    for i in 0..nfiles {
        let len = *rng.pick(&[0usize, 1, 50, 5000, 40_000]);
        let mut content = rng.bytes(len);
        match rng.below(8) {
            // zero runs (sparse candidates): first half, last half, the whole file (a preallocated / zero-filled file)
            0 | 1 => content.iter_mut().take(len / 2).for_each(|b| *b = 0),
            2 => content.iter_mut().skip(len / 2).for_each(|b| *b = 0),
            3 | 4 => content.iter_mut().for_each(|b| *b = 0),
            _ => {}
        }
        let path: Vec<Vec<u8>> = match rng.below(3) {
            0 => vec![format!("f{i}").into_bytes()],
            1 => vec![b"d".to_vec(), format!("f{i}").into_bytes()],
            _ => vec![b"d".to_vec(), b"e".to_vec(), format!("f{i}").into_bytes()],
        };
        entries.push(SrcEntry { path, kind: SrcKind::File(content), mode: 0o644, mtime_s: SNAP_MTIME, ctime_s: SNAP_MTIME, inode: 0, links: 1 });
    }
    // empty directories (top level and nested)
    for i in 0..rng.below(3) {
        let name = format!("emp{i}").into_bytes();
        entries.push(if rng.chance(1, 2) { SrcEntry::dir(&[&name]) } else { SrcEntry::dir(&[b"d", &name]) });
    }
    let src = MemSource::new(entries);
    // node mtimes at nanosecond resolution (a few nodes without mtime)
    let mut node_mt: BTreeMap<PathBuf, Option<Mt>> = BTreeMap::new();
    for e in &src.entries {
        if matches!(e.kind, SrcKind::File(_)) {
            let nanos = *rng.pick(&[0u32, 1, 250_000_000, 999_999_999, 123_456_789]);
            _ = node_mt.insert(MemSource::path_of(e), if rng.chance(1, 12) { None } else { Some((SNAP_MTIME, nanos)) });
        }
    }
    let nsrc = NanoSource { inner: src.clone(), mtimes: node_mt.clone() };
    let cfg = ConfigOptions::default().set_chunker(Chunker::FixedSize).set_chunk_size(bytesize::ByteSize(4096));
    let Ok((h, _)) = RepoHandle::init(MemBackend::new(), None, &cfg) else { return "err:init".into() };
    let Ok(snap) = backup_nano(&h, &nsrc) else { return "err:backup".into() };
    let Ok(repo) = h.open().and_then(Repository::to_indexed) else { return "err:open".into() };
    let (verify, sparse, delete, no_ownership) = (rng.chance(1, 2), rng.chance(1, 3), rng.chance(1, 2), rng.chance(3, 4));
    // files accepted unread by design: no verification, the node's size, mtime equal to the node's to the nanosecond
    let mut trusted: std::collections::BTreeSet<PathBuf> = std::collections::BTreeSet::new();
    let tmp = tempfile::tempdir().expect("tempdir");
    let outer = tmp.path().join("outer");
    let dest = outer.join("dest");
    std::fs::create_dir_all(&dest).unwrap();
    std::fs::write(outer.join("sentinel"), b"S").unwrap();
    std::fs::write(outer.join("dest-sibling"), b"T").unwrap();
    // destination = random mutation of the snapshot
    let mut extras: Vec<String> = Vec::new();
    let mut type_changed = false;
    let mut zero_hazard = false;
    for e in &src.entries {
        let mut p = dest.clone();
        for c in &e.path {
            p.push(String::from_utf8_lossy(c).to_string());
        }
        match &e.kind {
            SrcKind::Dir => match rng.below(6) {
                0..=3 => _ = std::fs::create_dir_all(&p),
                4 if delete && p.parent().is_some_and(Path::is_dir) => {
                    // type changed: a file (or dangling symlink) where the snapshot has a directory
                    if rng.chance(1, 2) {
                        _ = std::fs::write(&p, b"not a directory");
                    } else {
                        _ = std::os::unix::fs::symlink("nowhere", &p);
                    }
                    type_changed = true;
                }
                _ => {}
            },
            SrcKind::File(c) => {
                if let Some(par) = p.parent() {
                    if !par.exists() {
                        continue;
                    }
                }
                if p.exists() {
                    continue;
                }
                let nonzero_old = |d: &[u8]| d.iter().any(|b| *b != 0);
                match rng.below(8) {
                    0 => {} // absent
                    1 => {
                        _ = std::fs::write(&p, c); // identical
                    }
                    2 => {
                        let mut d = c.clone(); // modified, same size
                        if !d.is_empty() {
                            let i = rng.below(d.len() as u64) as usize;
                            d[i] ^= 0x55;
                        }
                        zero_hazard |= sparse && nonzero_old(&d);
                        _ = std::fs::write(&p, d);
                    }
                    3 => {
                        let d = c[..c.len() / 2].to_vec(); // truncated
                        zero_hazard |= sparse && nonzero_old(&d);
                        _ = std::fs::write(&p, d);
                    }
                    4 => {
                        let mut d = c.clone(); // longer
                        d.extend_from_slice(&rng.bytes(100));
                        zero_hazard |= sparse;
                        _ = std::fs::write(&p, d);
                    }
                    5 if delete => {
                        // type changed: a directory where the snapshot has a file
                        _ = std::fs::create_dir_all(p.join("sub"));
                        _ = std::fs::write(p.join("sub").join("x"), b"x");
                        type_changed = true;
                    }
                    _ => {
                        let d = rng.bytes(c.len()); // unrelated content, same size
                        zero_hazard |= sparse && nonzero_old(&d);
                        _ = std::fs::write(&p, d);
                    }
                }
                if p.is_file() {
                    // mtime of the existing file: equal to the node's to the nanosecond | only the nanosecond part differs (later /
                    // earlier) | whole seconds differ (later / earlier)
                    let nm = node_mt.get(&MemSource::path_of(e)).copied().flatten();
                    let (ns, nn) = nm.unwrap_or((SNAP_MTIME, 0));
                    let dm = match rng.below(8) {
                        0 | 1 => (ns, nn),
                        2 => (ns, if nn == 999_999_999 { 5 } else { nn + 1 + rng.below(u64::from(999_999_999 - nn)) as u32 }),
                        3 => (ns, if nn == 0 { 999_999_990 } else { rng.below(u64::from(nn)) as u32 }),
                        4 | 5 => (ns + 1 + rng.below(5) as i64, nn),
                        6 => (ns - 1 - rng.below(5) as i64, nn),
                        _ => (ns + 1, 0),
                    };
                    if !set_mtime_ns(&p, dm) {
                        return "err:file-system-does-not-keep-nanosecond-mtimes".into();
                    }
                    if !verify && nm == Some(dm) && std::fs::metadata(&p).is_ok_and(|m| m.len() == c.len() as u64) {
                        _ = trusted.insert(p.clone());
                    }
                }
            }
            SrcKind::Symlink(_) => {}
        }
    }
    for i in 0..rng.below(3) {
        let name = format!("extra{i}");
        let p = if rng.chance(1, 2) && dest.join("d").is_dir() { dest.join("d").join(&name) } else { dest.join(&name) };
        if rng.chance(1, 3) {
            _ = std::fs::create_dir_all(p.join("deep"));
            _ = std::fs::write(p.join("deep").join("y"), b"y");
        } else {
            _ = std::fs::write(&p, b"extra");
        }
        extras.push(p.strip_prefix(&dest).unwrap().to_string_lossy().to_string());
    }
    let before_extras = snapshot_of_dir(&dest);
    let res = restore_with(&repo, &snap, &dest, &opts_of(verify, sparse, delete).no_ownership(no_ownership));
    let _ = type_changed;
    if std::fs::read(outer.join("sentinel")).ok().as_deref() != Some(b"S") || std::fs::read(outer.join("dest-sibling")).ok().as_deref() != Some(b"T") {
        return "oracle-fail:sentinel-touched".into();
    }
    if snapshot_of_dir(&outer).keys().any(|k| !k.starts_with("dest/") && k != "dest/" && k != "sentinel" && k != "dest-sibling") {
        return "oracle-fail:wrote-outside-destination".into();
    }
    if let Err(e) = res {
        return format!("oracle-fail:restore-error:{e}");
    }
    let after = snapshot_of_dir(&dest);
    for e in &src.entries {
        let rel: String = e.path.iter().map(|c| String::from_utf8_lossy(c).to_string()).collect::<Vec<_>>().join("/");
        match &e.kind {
            SrcKind::File(c) => {
                // (a trusted file is not read: the statement demands the snapshot's content only "with verification of existing
                // files enabled or their size/mtime differing" — at full timestamp resolution)
                if !trusted.contains(&dest.join(&rel)) && after.get(&rel) != Some(c) {
                    // DESIGN §7 #13: sparse restore over pre-existing non-zero data
                    return if zero_hazard { "oracle-fail:sparse-over-existing-data".into() } else { format!("oracle-fail:content-differs:v{}s{}d{}", u8::from(verify), u8::from(sparse), u8::from(delete)) };
                }
            }
            SrcKind::Dir => {
                if !after.contains_key(&format!("{rel}/")) {
                    return "oracle-fail:dir-missing".into();
                }
            }
            SrcKind::Symlink(_) => {}
        }
    }
    for x in &extras {
        let present = after.keys().any(|k| k == x || k.starts_with(&format!("{x}/")));
        if delete && present {
            return "oracle-fail:extra-entry-survives-delete".into();
        }
        if !delete {
            for (k, v) in &before_extras {
                if (k == x || k.starts_with(&format!("{x}/"))) && after.get(k) != Some(v) {
                    return "oracle-fail:extra-entry-touched-without-delete".into();
                }
            }
        }
    }
    "ok".into()
}

fn w_content(path: &str) -> Vec<u8> {
    format!("S:{path}").into_bytes()
}

fn walk_case(delete: bool, dry: bool, dst: &str, nodes: &str) -> String {
    let parse = |s: &str, kinds: &str| -> Option<Vec<(char, String)>> {
        if s == "-" {
            return Some(vec![]);
        }
        s.split(',')
            .map(|t| {
                let (k, p) = t.split_once(':')?;
                let k = k.chars().next().filter(|c| k.len() == 1 && kinds.contains(*c))?;
                (!p.is_empty() && p.split('/').all(|c| !c.is_empty() && c != "." && c != "..")).then(|| (k, p.to_string()))
            })
            .collect()
    };
    let (Some(mut ds), Some(ns)) = (parse(dst, "dfFl"), parse(nodes, "dfs")) else { return "bad-op".into() };
    let tmp = tempfile::tempdir().expect("tempdir");
    let dest = tmp.path().join("dest");
    std::fs::create_dir_all(&dest).unwrap();
    ds.sort_by(|a, b| Path::new(&a.1).cmp(Path::new(&b.1)));
    for (k, p) in &ds {
        let full = dest.join(p);
        let r = match k {
            'd' => std::fs::create_dir_all(&full),
            'f' => std::fs::write(&full, b"x"),
            'F' => std::fs::write(&full, w_content(p)),
            _ => std::os::unix::fs::symlink("nowhere", &full),
        };
        if r.is_err() {
            return "bad-op".into();
        }
    }
    let entries: Vec<SrcEntry> = ns
        .iter()
        .map(|(k, p)| {
            let comps: Vec<&[u8]> = p.split('/').map(str::as_bytes).collect();
            match k {
                'd' => SrcEntry::dir(&comps),
                'f' => SrcEntry::file(&comps, &w_content(p)),
                _ => {
                    let mut e = SrcEntry::dir(&comps);
                    e.kind = SrcKind::Symlink(b"elsewhere".to_vec());
                    e.mode = 0o777;
                    e
                }
            }
        })
        .collect();
    let src = MemSource::new(entries);
    if src.entries.len() != ns.len() {
        return "bad-op".into(); // parents must be listed
    }
    let Ok((h, _)) = RepoHandle::init(MemBackend::new(), None, &ConfigOptions::default()) else { return "err:init".into() };
    let Ok(snap) = crate::repo::backup(&h, &src, &BackupOptions::default(), SnapshotFile::default()) else { return "err:backup".into() };
    let Ok(repo) = h.open().and_then(Repository::to_indexed) else { return "err:open".into() };
    let Ok(node) = repo.node_from_snapshot_path(&format!("{}:src", snap.id.to_hex().as_str()), |_| true) else { return "err:node".into() };
    let Ok(ls) = repo.ls(&node, &LsOptions::default()) else { return "err:ls".into() };
    let Ok(d) = LocalDestination::new(dest.to_str().unwrap(), true, false) else { return "err:dest".into() };
    let plan = match repo.prepare_restore(&opts_of(true, false, delete), ls, &d, dry) {
        Ok(p) => p,
        Err(e) => return crate::util::errkind(&e),
    };
    let st = plan.stats;
    let mut lst: Vec<(PathBuf, String)> = snapshot_of_dir(&dest)
        .keys()
        .map(|k| {
            if let Some(p) = k.strip_suffix('/') {
                (PathBuf::from(p), format!("d:{p}"))
            } else if let Some(p) = k.strip_suffix('@') {
                (PathBuf::from(p), format!("l:{p}"))
            } else {
                (PathBuf::from(k), format!("f:{k}"))
            }
        })
        .collect();
    lst.sort();
    let lst = if lst.is_empty() { "-".to_string() } else { lst.into_iter().map(|x| x.1).collect::<Vec<_>>().join(",") };
    let obs = format!(
        "ok {},{},{},{},{}/{},{},{} {lst}",
        st.files.restore, st.files.unchanged, st.files.verified, st.files.modify, st.files.additional, st.dirs.restore, st.dirs.modify, st.dirs.additional
    );
    // Direct oracles.  (1) A destination entry that IS a snapshot path of the same type (directory / regular file) is not an
    // "additional" entry: `prepare_restore` must never remove it, with or without `--delete`.
    let kind_now = |p: &str| -> Option<char> {
        let m = std::fs::symlink_metadata(dest.join(p)).ok()?;
        Some(if m.is_dir() { 'd' } else if m.is_file() { 'f' } else { 'l' })
    };
    let same_type = |dk: char, nk: char| (dk == 'd' && nk == 'd') || ((dk == 'f' || dk == 'F') && nk == 'f');
    for (nk, p) in &ns {
        if let Some((dk, _)) = ds.iter().find(|(_, q)| q == p) {
            if same_type(*dk, *nk) && kind_now(p) != Some(*nk) {
                return "oracle-fail:prepare-restore-removed-a-snapshot-path".into();
            }
        }
    }
    // (2) The full restore: afterwards every snapshot path holds exactly the snapshot's content.  Run when the restore is
    // expected to succeed: not a dry run, and either `--delete` (entries of another type are replaced) or no destination
    // entry of another type than the node at its path (without `--delete` those stay and the outcome is not a plain restore).
    let clean = ds.iter().all(|(dk, q)| ns.iter().find(|(_, p)| p == q).is_none_or(|(nk, _)| same_type(*dk, *nk)));
    if !dry && (delete || clean) {
        let Ok(ls) = repo.ls(&node, &LsOptions::default()) else { return "err:ls".into() };
        if repo.restore(plan, &opts_of(true, false, delete), ls, &d).is_err() {
            return "oracle-fail:restore-fails-after-prepare".into();
        }
        for (nk, p) in &ns {
            let ok = match nk {
                'd' => kind_now(p) == Some('d'),
                'f' => kind_now(p) == Some('f') && std::fs::read(dest.join(p)).ok() == Some(w_content(p)),
                _ => kind_now(p) == Some('l') && std::fs::read_link(dest.join(p)).ok() == Some(PathBuf::from("elsewhere")),
            };
            if !ok {
                return format!("oracle-fail:snapshot-path-wrong-after-restore:{}{}", nk, if delete { ":delete" } else { "" });
            }
        }
        // extra entries (no node at their path, not below a removed / replaced entry) survive without `--delete` and are gone with it
        for (_, q) in &ds {
            let is_node = ns.iter().any(|(_, p)| p == q);
            let below_node_nondir = ns.iter().any(|(nk, p)| *nk != 'd' && q.starts_with(&format!("{p}/")));
            if !is_node && !below_node_nondir {
                if delete && kind_now(q).is_some() {
                    return "oracle-fail:extra-entry-survives-delete".into();
                }
                if !delete && kind_now(q).is_none() {
                    return "oracle-fail:extra-entry-removed-without-delete".into();
                }
            }
        }
    }
    obs
}

/// Destination entries of another type than the snapshot's, full restore.
///   emptydir: snapshot = empty dir `e` + file `g`; destination has a FILE `e`.
///   symlink:  snapshot = `d/f`; destination has `d` -> symlink to a directory OUTSIDE the destination.
fn typed_case(kind: &str, delete: bool) -> String {
    let tmp = tempfile::tempdir().expect("tempdir");
    let outer = tmp.path().join("outer");
    let dest = outer.join("dest");
    let outside = outer.join("outside");
    std::fs::create_dir_all(&dest).unwrap();
    std::fs::create_dir_all(&outside).unwrap();
    std::fs::write(outside.join("keep"), b"K").unwrap();
    let src = match kind {
        "emptydir" => {
            std::fs::write(dest.join("e"), b"i am a file").unwrap();
            MemSource::new(vec![SrcEntry::dir(&[b"e"]), SrcEntry::file(&[b"g"], b"gg")])
        }
        "symlink" => {
            std::os::unix::fs::symlink(&outside, dest.join("d")).unwrap();
            MemSource::new(vec![SrcEntry::file(&[b"d", b"f"], b"through")])
        }
        _ => return "bad-op".into(),
    };
    let Ok((h, _)) = RepoHandle::init(MemBackend::new(), None, &ConfigOptions::default()) else { return "err:init".into() };
    let Ok(snap) = crate::repo::backup(&h, &src, &BackupOptions::default(), SnapshotFile::default()) else { return "err:backup".into() };
    let Ok(repo) = h.open().and_then(Repository::to_indexed) else { return "err:open".into() };
    let before = snapshot_of_dir(&outside);
    let res = restore_with(&repo, &snap, &dest, &opts_of(true, false, delete));
    if snapshot_of_dir(&outside) != before {
        return "oracle-fail:wrote-through-symlink-outside-destination".into();
    }
    if let Err(e) = res {
        return format!("err:{}", e.split(':').next_back().unwrap_or("?"));
    }
    if kind == "emptydir" {
        let m = std::fs::symlink_metadata(dest.join("e"));
        return match m {
            Ok(m) if m.is_dir() => "ok dir".into(),
            Ok(_) => "ok file".into(),
            Err(_) => if delete { "oracle-fail:snapshot-dir-missing-after-restore".into() } else { "ok absent".into() },
        };
    }
    if std::fs::read(dest.join("d").join("f")).ok().as_deref() != Some(b"through") {
        return "oracle-fail:content-differs".into();
    }
    "ok".into()
}

const PLAN_CHUNK: usize = 16;

fn letters_bytes(s: &str) -> Vec<u8> {
    s.bytes().flat_map(|b| std::iter::repeat(b).take(PLAN_CHUNK)).collect()
}

fn plan_case(backups: &str, which: &str, dsts: &str) -> String {
    use sha2::{Digest, Sha256};
    let bks: Vec<Vec<&str>> = backups.split(';').map(|b| b.split(',').collect()).collect();
    let Ok(w) = which.parse::<usize>() else { return "bad-op".into() };
    let dsts: Vec<&str> = dsts.split(',').collect();
    if w >= bks.len() || bks[w].len() != dsts.len() || bks.iter().flatten().any(|f| f.is_empty() || !f.bytes().all(|b| b.is_ascii_alphanumeric())) {
        return "bad-op".into();
    }
    let cfg = ConfigOptions::default().set_chunker(Chunker::FixedSize).set_chunk_size(bytesize::ByteSize(PLAN_CHUNK as u64));
    let be = MemBackend::new();
    let Ok((h, _)) = RepoHandle::init(be.clone(), None, &cfg) else { return "err:init".into() };
    let mut snaps = Vec::new();
    for (k, files) in bks.iter().enumerate() {
        let entries: Vec<SrcEntry> = files
            .iter()
            .enumerate()
            .map(|(i, f)| {
                let mut e = SrcEntry::file(&[format!("f{i}").as_bytes()], &letters_bytes(f));
                e.mtime_s += k as i64;
                e
            })
            .collect();
        let Ok(snap) = crate::repo::backup(&h, &MemSource::new(entries), &BackupOptions::default(), SnapshotFile::default()) else {
            return "err:backup".into();
        };
        snaps.push(snap);
    }
    let Ok(repo) = h.open().and_then(Repository::to_indexed) else { return "err:open".into() };
    // pack -> number of the backup that stored (the first of) its blobs
    let mut rank: BTreeMap<String, usize> = BTreeMap::new();
    let mut seen = std::collections::BTreeSet::new();
    for (k, files) in bks.iter().enumerate() {
        for b in files.iter().flat_map(|f| f.bytes()) {
            if seen.insert(b) {
                let id = rustic_core::Id::new(Sha256::digest(vec![b; PLAN_CHUNK]).into());
                let Ok(ie) = repo.get_index_entry(&rustic_core::DataId::from(id)) else { return "err:index".into() };
                if *rank.entry(ie.pack.to_hex().to_string()).or_insert(k) != k {
                    return "err:pack-spans-backups".into();
                }
            }
        }
    }
    let tmp = tempfile::tempdir().expect("tempdir");
    let dest = tmp.path().join("dest");
    std::fs::create_dir_all(&dest).unwrap();
    for (i, d) in dsts.iter().enumerate() {
        if *d != "~" {
            std::fs::write(dest.join(format!("f{i}")), letters_bytes(d)).unwrap();
            set_mtime(&dest.join(format!("f{i}")), SNAP_MTIME + 1000);
        }
    }
    let snap = &snaps[w];
    let opts = opts_of(true, false, false);
    let Ok(node) = repo.node_from_snapshot_path(&format!("{}:src", snap.id.to_hex().as_str()), |_| true) else { return "err:node".into() };
    let Ok(ls) = repo.ls(&node, &LsOptions::default()) else { return "err:ls".into() };
    let Ok(d) = LocalDestination::new(dest.to_str().unwrap(), true, false) else { return "err:dest".into() };
    let plan = match repo.prepare_restore(&opts, ls, &d, false) {
        Ok(p) => p,
        Err(e) => return crate::util::errkind(&e),
    };
    let to_packs: std::collections::BTreeSet<String> = plan.to_packs().iter().map(|p| p.to_hex().to_string()).collect();
    let Some(mut ranks) = to_packs.iter().map(|p| rank.get(p).copied()).collect::<Option<Vec<usize>>>() else {
        return "oracle-fail:to_packs-names-a-non-data-pack".into();
    };
    ranks.sort_unstable();
    be.clear_log();
    let Ok(ls) = repo.ls(&node, &LsOptions::default()) else { return "err:ls".into() };
    if let Err(e) = repo.restore(plan, &opts, ls, &d) {
        return format!("err:restore:{}", crate::util::errkind(&e));
    }
    let read: std::collections::BTreeSet<String> = {
        let g = be.inner.lock().unwrap();
        g.reads.iter().filter(|(t, id, _)| *t == rustic_core::repofile::FileType::Pack && rank.contains_key(id.to_hex().as_str())).map(|(_, id, _)| id.to_hex().to_string()).collect()
    };
    if let Some(_p) = read.difference(&to_packs).next() {
        return "oracle-fail:pack-read-not-in-to_packs".into();
    }
    if let Some(_p) = to_packs.difference(&read).next() {
        return "oracle-fail:to_packs-pack-never-read".into();
    }
    for (i, f) in bks[w].iter().enumerate() {
        if std::fs::read(dest.join(format!("f{i}"))).ok() != Some(letters_bytes(f)) {
            return "oracle-fail:plan-content-differs".into();
        }
    }
    if ranks.is_empty() { "ok -".into() } else { format!("ok {}", ranks.iter().map(ToString::to_string).collect::<Vec<_>>().join(",")) }
}

pub fn exec(t: &[&str]) -> String {
    let t: Vec<String> = t.iter().map(|s| (*s).to_string()).collect();
    guarded(move || match t.iter().map(String::as_str).collect::<Vec<_>>().as_slice() {
        ["file", chunk, content, old, v, s, rest @ ..] if rest.len() == 1 || rest.len() == 2 => {
            let (Ok(chunk), Some(content)) = (chunk.parse::<usize>(), data_of(content)) else { return "bad-op".into() };
            let old = if *old == "~" { None } else { let Some(o) = data_of(old) else { return "bad-op".into() }; Some(o) };
            if chunk == 0 || ![*v, *s].iter().all(|x| *x == "0" || *x == "1") {
                return "bad-op".into();
            }
            let (dm, nm) = match rest {
                ["1"] => ((SNAP_MTIME, 0), Some((SNAP_MTIME, 0))),
                ["0"] => ((SNAP_MTIME + 77, 0), Some((SNAP_MTIME, 0))),
                [dm, nm] => {
                    let (Some(dm), Some(nm)) = (parse_mt(dm), if *nm == "~" { Some(None) } else { parse_mt(nm).map(Some) }) else { return "bad-op".into() };
                    (dm, nm)
                }
                _ => return "bad-op".into(),
            };
            file_case(chunk, &content, old, *v == "1", *s == "1", dm, nm)
        }
        ["join", base, item] => {
            let (Some(b), Some(i)) = (unhex(base), unhex(item)) else { return "bad-op".into() };
            let base = PathBuf::from(OsString::from_vec(b));
            if !base.is_absolute() {
                return "bad-op".into();
            }
            // `LocalDestination::path` for a directory destination is exactly `self.path.join(item)`
            let joined = base.join(PathBuf::from(OsString::from_vec(i)));
            if resolve(&joined).starts_with(resolve(&base)) { "in".into() } else { "out".into() }
        }
        ["hostile", kind, name] => {
            let Some(n) = unhex(name) else { return "bad-op".into() };
            // `nested` names must be relative (an absolute one would be written to, outside the sandbox, if it were accepted)
            if !["file", "dir", "abs", "nested"].contains(kind) || n.is_empty() || n.contains(&0) || (*kind == "nested" && n[0] == b'/') {
                return "bad-op".into();
            }
            hostile(kind, &n)
        }
        ["tree", seed] => seed.parse::<u64>().map_or("bad-op".into(), tree_case),
        ["walk", del, dry, dst, nodes] => {
            if ![*del, *dry].iter().all(|x| *x == "0" || *x == "1") {
                return "bad-op".into();
            }
            walk_case(*del == "1", *dry == "1", dst, nodes)
        }
        ["plan", backups, which, dsts] => plan_case(backups, which, dsts),
        ["typed", kind, del] if *del == "0" || *del == "1" => typed_case(kind, *del == "1"),
        _ => "bad-op".into(),
    })
}

/// `side`: 0 = the subtree exists on both sides, 1 = in the snapshot only, 2 = in the destination only
fn gen_walk(rng: &mut Rng, prefix: &str, depth: usize, side: u8, ds: &mut Vec<String>, ns: &mut Vec<String>, stats: &mut Stats) {
    const NAMES: [&str; 8] = ["a", "a.b", "a-b", "a0", "b", "B", "~", "a b"];
    let n = if depth == 0 { 1 + rng.below(5) } else { rng.below(4) } as usize;
    let mut names: Vec<&str> = Vec::new();
    for _ in 0..n {
        let c = *rng.pick(&NAMES[..7]);
        if !names.contains(&c) {
            names.push(c);
        }
    }
    for name in names {
        let p = if prefix.is_empty() { name.to_string() } else { format!("{prefix}/{name}") };
        let deeper = depth < 2;
        let sub = |rng: &mut Rng, side: u8, ds: &mut Vec<String>, ns: &mut Vec<String>, stats: &mut Stats| {
            if deeper {
                gen_walk(rng, &p, depth + 1, side, ds, ns, stats);
            }
        };
        let scen = match side {
            0 => rng.below(10),
            1 => 10 + rng.below(3),
            _ => 13 + rng.below(3),
        };
        match scen {
            0 | 1 => {
                stats.hit("walk.dir-dir");
                ns.push(format!("d:{p}"));
                ds.push(format!("d:{p}"));
                sub(rng, 0, ds, ns, stats);
            }
            2 => {
                stats.hit("walk.file-file-identical");
                ns.push(format!("f:{p}"));
                ds.push(format!("F:{p}"));
            }
            3 => {
                stats.hit("walk.file-file-differs");
                ns.push(format!("f:{p}"));
                ds.push(format!("f:{p}"));
            }
            4 => {
                stats.hit("walk.node-dir-dst-nondir");
                ns.push(format!("d:{p}"));
                ds.push(format!("{}:{p}", rng.pick(&["f", "l"])));
                sub(rng, 1, ds, ns, stats);
            }
            5 => {
                stats.hit("walk.node-file-dst-nonfile");
                ns.push(format!("f:{p}"));
                if rng.chance(1, 2) {
                    ds.push(format!("d:{p}"));
                    sub(rng, 2, ds, ns, stats);
                } else {
                    ds.push(format!("l:{p}"));
                }
            }
            6 => {
                stats.hit("walk.node-symlink-dst-any");
                ns.push(format!("s:{p}"));
                match rng.below(3) {
                    0 => ds.push(format!("f:{p}")),
                    1 => ds.push(format!("l:{p}")),
                    _ => {
                        ds.push(format!("d:{p}"));
                        sub(rng, 2, ds, ns, stats);
                    }
                }
            }
            7 | 10 | 11 | 12 => {
                stats.hit("walk.snapshot-only");
                match rng.below(4) {
                    0 | 1 => {
                        ns.push(format!("d:{p}"));
                        sub(rng, 1, ds, ns, stats);
                    }
                    2 => ns.push(format!("f:{p}")),
                    _ => ns.push(format!("s:{p}")),
                }
            }
            _ => {
                stats.hit("walk.destination-only");
                match rng.below(4) {
                    0 | 1 => {
                        ds.push(format!("d:{p}"));
                        sub(rng, 2, ds, ns, stats);
                    }
                    2 => ds.push(format!("f:{p}")),
                    _ => ds.push(format!("l:{p}")),
                }
            }
        }
    }
}

/// (destination mtime, node mtime).  `rel`: 0 = equal to the nanosecond; 1 / 2 = the destination file is later / earlier within
/// the SAME second (only the nanosecond part differs); 3 / 4 = later / earlier by whole seconds with the same nanosecond part;
/// 5 = less than a second apart across a second boundary (both parts differ).
fn gen_mtimes(rng: &mut Rng, rel: u64) -> (Mt, Mt) {
    const NS: [u32; 6] = [0, 1, 250_000_000, 500_000_000, 999_999_000, 999_999_999];
    let secs = SNAP_MTIME + rng.below(3) as i64;
    let mut pick = || if rng.chance(1, 2) { *rng.pick(&NS) } else { rng.below(1_000_000_000) as u32 };
    let a = pick();
    let mut b = pick();
    if b == a {
        b = (a + 1) % 1_000_000_000;
    }
    let (lo, hi) = (a.min(b), a.max(b));
    let d = 1 + rng.below(3) as i64;
    match rel {
        0 => ((secs, a), (secs, a)),
        1 => ((secs, hi), (secs, lo)),
        2 => ((secs, lo), (secs, hi)),
        3 => ((secs + d, a), (secs, a)),
        4 => ((secs - d, a), (secs, a)),
        _ => ((secs + 1, lo), (secs, hi)),
    }
}

const MTIME_RELS: [u64; 8] = [0, 0, 0, 1, 2, 3, 4, 5];

fn mt_tokens(rng: &mut Rng, rel: u64, stats: &mut Stats) -> String {
    let (d, n) = gen_mtimes(rng, rel);
    stats.hit(format!("mtime.rel{rel}"));
    if rel != 0 && rng.chance(1, 12) {
        stats.hit("mtime.node-without");
        format!("{}.{} ~", d.0, d.1)
    } else {
        format!("{}.{} {}.{}", d.0, d.1, n.0, n.1)
    }
}

pub fn generate(thorough: bool, rng: &mut Rng, ops: &mut Vec<String>, stats: &mut Stats) {
    let n_file = if thorough { 4000 } else { 120 };
    for _ in 0..n_file {
        let chunk = *rng.pick(&[4usize, 8, 16]);
        let nblobs = rng.below(5) as usize;
        let tail = if rng.chance(1, 2) { rng.below(chunk as u64) as usize } else { 0 };
        let len = nblobs * chunk + tail;
        let mut content = rng.bytes(len);
        // all-zero blobs
        for b in 0..nblobs {
            if rng.chance(1, 3) {
                for x in &mut content[b * chunk..(b + 1) * chunk] {
                    *x = 0;
                }
            }
        }
        let old = match rng.below(9) {
            0 => {
                stats.hit("old.absent");
                None
            }
            1 => {
                stats.hit("old.identical");
                Some(content.clone())
            }
            2 => {
                stats.hit("old.one-blob-modified");
                let mut d = content.clone();
                if !d.is_empty() {
                    let i = rng.below(d.len() as u64) as usize;
                    d[i] ^= 0xff;
                }
                Some(d)
            }
            3 => {
                stats.hit("old.truncated");
                Some(content[..len / 2].to_vec())
            }
            4 => {
                stats.hit("old.longer");
                let mut d = content.clone();
                let extra = 1 + rng.below(10) as usize;
                d.extend_from_slice(&rng.bytes(extra));
                Some(d)
            }
            5 => {
                stats.hit("old.same-size-random");
                Some(rng.bytes(len))
            }
            6 => {
                stats.hit("old.zeros");
                Some(vec![0; len])
            }
            7 => {
                stats.hit("old.empty");
                Some(vec![])
            }
            _ => {
                stats.hit("old.ff-longer");
                Some(vec![0xff; len + 3])
            }
        };
        let (v, s, rel) = (rng.chance(1, 2), rng.chance(1, 2), *rng.pick(&MTIME_RELS));
        stats.hit(format!("opts.v{}s{}m{}", u8::from(v), u8::from(s), u8::from(rel == 0)));
        ops.push(format!(
            "c14 file {chunk} {} {} {} {} {}",
            hex(&content),
            old.map_or("~".to_string(), |o| hex(&o)),
            u8::from(v),
            u8::from(s),
            mt_tokens(rng, rel, stats)
        ));
    }
    // mtime grid: a destination file of the node's SIZE — other content / identical content — whose mtime is equal to the node's to
    // the nanosecond, differs only in the nanosecond part (both directions), by whole seconds (both directions), or across a second
    // boundary × verify-existing on/off (sparse random).  Only "verify off ∧ equal to the nanosecond" may keep the other content.
    for _ in 0..if thorough { 20 } else { 1 } {
        for rel in 0..6u64 {
            for v in [false, true] {
                for same in [false, true] {
                    let chunk = *rng.pick(&[4usize, 8, 16]);
                    let len = 1 + rng.below(3 * chunk as u64) as usize;
                    let content = rng.bytes(len);
                    let old = if same { content.clone() } else { content.iter().map(|b| b ^ 0x5a).collect() };
                    stats.hit(format!("mtime-grid.rel{rel}.v{}.{}", u8::from(v), if same { "identical" } else { "other-content" }));
                    ops.push(format!("c14 file {chunk} {} {} {} {} {}", hex(&content), hex(&old), u8::from(v), u8::from(rng.chance(1, 3)), mt_tokens(rng, rel, stats)));
                }
            }
        }
    }
    // zero-block grid (sparse restore): all-zero files and files whose first / last / only blocks are zero (Z = zero blob,
    // N = non-zero blob, z / n = short tail) × sparse on/off × destination {absent, empty, shorter, longer, same size with
    // other content, same size all zero}; verify / mtime-equal random (an accepted-unread file needs same size + mtime)
    let pats: &[&str] = if thorough { &["Z", "z", "ZZ", "ZZZ", "Zz", "ZZz", "ZN", "NZ", "ZNZ", "NZN", "NZz", "Zn", "ZZn", "NNZ", "ZNN"] } else { &["Z", "z", "ZZZ", "Zz", "ZN", "NZ", "ZNZ", "NZz", "Zn"] };
    let reps = if thorough { 10 } else { 1 };
    for _ in 0..reps {
        for pat in pats {
            for dst in 0..6 {
                for sparse in [true, false] {
                    let chunk = *rng.pick(&[4usize, 8, 16]);
                    let mut content = Vec::new();
                    for c in pat.bytes() {
                        let l = if c.is_ascii_uppercase() { chunk } else { 1 + rng.below(chunk as u64 - 1) as usize };
                        if c.eq_ignore_ascii_case(&b'z') {
                            content.extend(std::iter::repeat(0u8).take(l));
                        } else {
                            // non-zero blob: no zero byte at all
                            content.extend(rng.bytes(l).into_iter().map(|b| b | 1));
                        }
                    }
                    let len = content.len();
                    let (alt, extra) = (rng.chance(1, 2), 1 + rng.below(9) as usize);
                    let old = match dst {
                        0 => None,
                        1 => Some(vec![]),
                        2 => Some(if alt { vec![0xff; len.div_ceil(2).min(len - 1)] } else { content[..len - 1].to_vec() }),
                        3 => Some(if alt {
                            vec![0xff; len + extra]
                        } else {
                            let mut d = content.clone();
                            d.extend_from_slice(&rng.bytes(extra));
                            d
                        }),
                        4 => Some(if alt { vec![0xff; len] } else { rng.bytes(len).into_iter().map(|b| b | 2).collect() }),
                        _ => Some(vec![0; len]),
                    };
                    let (v, rel) = (rng.chance(1, 2), *rng.pick(&MTIME_RELS));
                    stats.hit(format!("zero-grid.{}.dst{dst}.s{}", if pat.bytes().all(|c| c.eq_ignore_ascii_case(&b'z')) { "all-zero" } else { "mixed" }, u8::from(sparse)));
                    ops.push(format!(
                        "c14 file {chunk} {} {} {} {} {}",
                        hex(&content),
                        old.map_or("~".to_string(), |o| hex(&o)),
                        u8::from(v),
                        u8::from(sparse),
                        mt_tokens(rng, rel, stats)
                    ));
                }
            }
        }
    }
    let items: [&[u8]; 14] = [b"a", b"a/b", b"..", b"../x", b"a/../..", b"a/../../x", b"/etc/passwd", b"/", b"./a", b"a/..", b"...", b"..a", b"a//b", b""];
    for it in items {
        for base in [&b"/t/dest"[..], b"/t/dest/", b"/"] {
            stats.hit("join");
            ops.push(format!("c14 join {} {}", hex(base), hex(it)));
        }
    }
    for (kind, name) in [("file", &b"../evil"[..]), ("file", b".."), ("file", b"../../outer_evil"), ("dir", b".."), ("dir", b"../up"), ("abs", b"evil_abs"), ("file", b"a/b"), ("file", b"plain"), ("file", b"."), ("dir", b"plain_dir"),
        // `..` that is not the first component of the path and climbs above its depth / stays inside / plain
        ("nested", b"../../escaped"), ("nested", b"../../../escaped3"), ("nested", b"../inside"), ("nested", b"a/../../../x"), ("nested", b"plain"), ("nested", b"..")] {
        stats.hit(format!("hostile.{kind}"));
        ops.push(format!("c14 hostile {kind} {}", hex(name)));
    }
    // merge-walk: snapshot and destination derived from one random tree; names chosen so that component-wise order
    // ([a, x] < [a.b]) differs from the order of the joined strings ("a.b" < "a/x")
    let n_walk = if thorough { 6000 } else { 250 };
    for _ in 0..n_walk {
        let (mut ds, mut ns) = (Vec::new(), Vec::new());
        gen_walk(rng, "", 0, 0, &mut ds, &mut ns, stats);
        let (del, dry) = (rng.chance(1, 2), rng.chance(1, 5));
        stats.hit(format!("walk.delete{}dry{}", u8::from(del), u8::from(dry)));
        let j = |v: &Vec<String>| if v.is_empty() { "-".to_string() } else { v.join(",") };
        ops.push(format!("c14 walk {} {} {} {}", u8::from(del), u8::from(dry), j(&ds), j(&ns)));
    }
    // RestorePlan: to_packs of the plan vs the packs the restore reads
    let n_plan = if thorough { 2500 } else { 80 };
    for _ in 0..n_plan {
        let letters = b"abcdefgh";
        let nb = 1 + rng.below(3) as usize;
        let mut bks: Vec<Vec<String>> = Vec::new();
        for k in 0..nb {
            let nf = 1 + rng.below(3) as usize;
            let mut files = Vec::new();
            for i in 0..nf {
                if k > 0 && rng.chance(1, 3) {
                    // a file of an earlier backup, unchanged or with one chunk replaced / appended
                    let prev = rng.pick(&bks[k - 1]).clone();
                    let mut b = prev.into_bytes();
                    match rng.below(3) {
                        0 => {}
                        1 => {
                            let at = rng.below(b.len() as u64) as usize;
                            b[at] = *rng.pick(letters);
                        }
                        _ => b.push(*rng.pick(letters)),
                    }
                    files.push(String::from_utf8(b).unwrap());
                } else {
                    let len = 1 + rng.below(5) as usize;
                    let base = (k * 2 + i) % 4;
                    files.push((0..len).map(|_| letters[(base + rng.below(4) as usize) % 8] as char).collect());
                }
            }
            bks.push(files);
        }
        let w = rng.below(nb as u64) as usize;
        let dsts: Vec<String> = bks[w]
            .iter()
            .map(|f| {
                let mut b = f.clone().into_bytes();
                match rng.below(7) {
                    0 => return "~".to_string(),
                    1 => {}
                    2 | 3 => {
                        let at = rng.below(b.len() as u64) as usize;
                        b[at] = b'z';
                    }
                    4 => b.push(b'z'),
                    5 if b.len() > 1 => {
                        _ = b.pop();
                    }
                    _ => b = vec![b'z'; b.len()],
                }
                String::from_utf8(b).unwrap()
            })
            .collect();
        stats.hit(format!("plan.backups{nb}"));
        ops.push(format!("c14 plan {} {w} {}", bks.iter().map(|f| f.join(",")).collect::<Vec<_>>().join(";"), dsts.join(",")));
    }
    for (k, d) in [("emptydir", 1), ("emptydir", 0), ("symlink", 1), ("symlink", 0)] {
        stats.hit(format!("typed.{k}"));
        ops.push(format!("c14 typed {k} {d}"));
    }
    let n_tree = if thorough { 2000 } else { 60 };
    for _ in 0..n_tree {
        stats.hit("tree");
        ops.push(format!("c14 tree {}", rng.below(1 << 32)));
    }
}
