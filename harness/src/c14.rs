//! C14 — restore yields exactly the snapshot and never writes outside the target.
//!   c14 file <chunk> <content> <old|~> <verify 0|1> <sparse 0|1> <mtime-equal 0|1>
//!        one file `f` backed up with the fixed-size chunker (blobs = `chunk`-byte pieces of `content`), destination
//!        pre-state `dest/f = old` (`~` absent), real prepare_restore + restore; observation: bytes of `dest/f`.
//!   c14 join <base> <item>          `LocalDestination::path` = `Path::join`, lexically resolved; `in` / `out` of base
//!   c14 hostile <kind> <name-hex>   snapshot whose tree holds a file node with a hostile name (crafted through a
//!        `ReadSource` whose node name differs from its path); restore into dest with sentinels around it.
//!        observation: `refused` (restore returns an error and nothing is written) or `restored`.
//!   c14 tree <seed>                 random tree × random mutation of the destination × options; oracle only.
//! Oracles: `oracle-fail:` when a sentinel outside the destination is touched / a file appears outside, when a snapshot
//! path does not hold the snapshot's content after restore (verify on or size/mtime differing), when extra entries are
//! removed without `delete` or survive with it.
use std::collections::BTreeMap;
use std::ffi::OsString;
use std::io::Cursor;
use std::os::unix::ffi::OsStringExt;
use std::path::{Component, Path, PathBuf};

use rustic_core::repofile::{Chunker, Metadata, Node, NodeType, SnapshotFile};
use rustic_core::{
    BackupOptions, ConfigOptions, IndexedFull, LocalDestination, LsOptions, ReadSource, ReadSourceEntry, Repository, RestoreOptions,
    RusticResult,
};

use super::c20::data_of;
use crate::repo::{MemBackend, MemSource, RepoHandle, SRC_ROOT, SrcEntry, SrcKind};
use crate::util::{Rng, Stats, guarded, hex, unhex};

const SNAP_MTIME: i64 = 1_600_000_000;

fn restore_with<S: IndexedFull>(repo: &Repository<S>, snap: &SnapshotFile, dest: &Path, opts: &RestoreOptions) -> Result<(), String> {
    std::fs::create_dir_all(dest).map_err(|_| "mkdir".to_string())?;
    let node = repo.node_from_snapshot_path(&format!("{}:src", snap.id.to_hex().as_str()), |_| true).map_err(|_| "node".to_string())?;
    let ls = repo.ls(&node, &LsOptions::default()).map_err(|_| "ls".to_string())?;
    let d = LocalDestination::new(dest.to_str().unwrap(), true, !node.is_dir()).map_err(|_| "dest".to_string())?;
    let plan = repo.prepare_restore(opts, ls, &d, false).map_err(|e| format!("prepare:{}", crate::util::errkind(&e)))?;
    let ls = repo.ls(&node, &LsOptions::default()).map_err(|_| "ls".to_string())?;
    repo.restore(plan, opts, ls, &d).map_err(|e| format!("restore:{}", crate::util::errkind(&e)))
}

fn opts_of(verify: bool, sparse: bool, delete: bool) -> RestoreOptions {
    let o = RestoreOptions::default().verify_existing(verify).delete(delete).no_ownership(true);
    if sparse { rustic_core::verif::restore::with_sparse_by_content(o) } else { o }
}

fn set_mtime(p: &Path, secs: i64) {
    let t = std::time::UNIX_EPOCH + std::time::Duration::from_secs(secs as u64);
    if let Ok(f) = std::fs::File::options().write(true).open(p) {
        _ = f.set_modified(t);
    }
}

fn file_case(chunk: usize, content: &[u8], old: Option<Vec<u8>>, verify: bool, sparse: bool, mtime_eq: bool) -> String {
    let cfg = ConfigOptions::default().set_chunker(Chunker::FixedSize).set_chunk_size(bytesize::ByteSize(chunk as u64));
    let Ok((h, _)) = RepoHandle::init(MemBackend::new(), None, &cfg) else { return "err:init".into() };
    let src = MemSource::new(vec![SrcEntry::file(&[b"f"], content)]);
    let Ok(snap) = crate::repo::backup(&h, &src, &BackupOptions::default(), SnapshotFile::default()) else { return "err:backup".into() };
    let Ok(repo) = h.open().and_then(Repository::to_indexed) else { return "err:open".into() };
    let tmp = tempfile::tempdir().expect("tempdir");
    let dest = tmp.path().join("dest");
    std::fs::create_dir_all(&dest).unwrap();
    let f = dest.join("f");
    if let Some(o) = &old {
        std::fs::write(&f, o).unwrap();
        set_mtime(&f, if mtime_eq { SNAP_MTIME } else { SNAP_MTIME + 77 });
    }
    match restore_with(&repo, &snap, &dest, &opts_of(verify, sparse, false)) {
        Ok(()) => {}
        Err(e) => return format!("err:{e}"),
    }
    match std::fs::read(&f) {
        Ok(b) => format!("ok {}", hex(&b)),
        Err(_) => "ok absent".into(),
    }
}

/// lexical resolution of `base.join(item)` (what the OS does with `..`, ignoring symlinks)
fn resolve(p: &Path) -> PathBuf {
    let mut out = PathBuf::new();
    for c in p.components() {
        match c {
            Component::RootDir => out.push("/"),
            Component::ParentDir => {
                _ = out.pop();
            }
            Component::Normal(x) => out.push(x),
            _ => {}
        }
    }
    out
}

/// A source with one file whose *node name* is hostile while its path is harmless.
#[derive(Clone)]
struct HostileSource {
    name: Vec<u8>,
    content: Vec<u8>,
    as_dir: bool,
}

fn meta(size: u64) -> Metadata {
    Metadata {
        mode: Some(0o644),
        mtime: Some(rustic_core::jiff::Timestamp::from_second(SNAP_MTIME).unwrap()),
        atime: None,
        ctime: None,
        uid: None,
        gid: None,
        user: None,
        group: None,
        inode: 0,
        device_id: 0,
        size,
        links: 1,
        extended_attributes: vec![],
    }
}

impl ReadSource for HostileSource {
    type Open = Cursor<Vec<u8>>;
    type Iter = std::vec::IntoIter<RusticResult<ReadSourceEntry<Self::Open>>>;
    fn size(&self) -> RusticResult<Option<u64>> {
        Ok(None)
    }
    fn entries(&self) -> Self::Iter {
        let mut v = Vec::new();
        let mut root = Node::new_node(std::ffi::OsStr::new("src"), NodeType::Dir, meta(0));
        root.meta.mode = Some(0o755);
        v.push(Ok(ReadSourceEntry { path: PathBuf::from(SRC_ROOT), node: root, open: None }));
        let name = OsString::from_vec(self.name.clone());
        if self.as_dir {
            let mut d = Node::new_node(&name, NodeType::Dir, meta(0));
            d.meta.mode = Some(0o755);
            v.push(Ok(ReadSourceEntry { path: PathBuf::from(SRC_ROOT).join("x"), node: d, open: None }));
            let f = Node::new_node(std::ffi::OsStr::new("evil"), NodeType::File, meta(self.content.len() as u64));
            v.push(Ok(ReadSourceEntry { path: PathBuf::from(SRC_ROOT).join("x").join("evil"), node: f, open: Some(Cursor::new(self.content.clone())) }));
        } else {
            let f = Node::new_node(&name, NodeType::File, meta(self.content.len() as u64));
            v.push(Ok(ReadSourceEntry { path: PathBuf::from(SRC_ROOT).join("x"), node: f, open: Some(Cursor::new(self.content.clone())) }));
        }
        v.into_iter()
    }
}

fn snapshot_of_dir(root: &Path) -> BTreeMap<String, Vec<u8>> {
    fn walk(dir: &Path, rel: &str, out: &mut BTreeMap<String, Vec<u8>>) {
        let Ok(rd) = std::fs::read_dir(dir) else { return };
        for e in rd.flatten() {
            let name = e.file_name().to_string_lossy().to_string();
            let r = if rel.is_empty() { name.clone() } else { format!("{rel}/{name}") };
            let Ok(ft) = e.file_type() else { continue };
            if ft.is_dir() {
                _ = out.insert(format!("{r}/"), vec![]);
                walk(&e.path(), &r, out);
            } else if ft.is_file() {
                _ = out.insert(r, std::fs::read(e.path()).unwrap_or_default());
            } else {
                _ = out.insert(format!("{r}@"), vec![]);
            }
        }
    }
    let mut out = BTreeMap::new();
    walk(root, "", &mut out);
    out
}

fn hostile(kind: &str, name: &[u8]) -> String {
    let tmp = tempfile::tempdir().expect("tempdir");
    let outer = tmp.path().join("outer");
    let dest = outer.join("mid").join("dest");
    std::fs::create_dir_all(&dest).unwrap();
    // sentinels around the destination
    std::fs::write(outer.join("sentinel"), b"S1").unwrap();
    std::fs::write(outer.join("mid").join("sentinel"), b"S2").unwrap();
    std::fs::create_dir_all(outer.join("abs")).unwrap();
    let name: Vec<u8> = if kind == "abs" {
        // an absolute name pointing into the sandbox (never anywhere else)
        let mut p = outer.join("abs").into_os_string().into_vec();
        p.push(b'/');
        p.extend_from_slice(name);
        p
    } else {
        name.to_vec()
    };
    let src = HostileSource { name, content: b"EVIL".to_vec(), as_dir: kind == "dir" };
    let Ok((h, _)) = RepoHandle::init(MemBackend::new(), None, &ConfigOptions::default()) else { return "err:init".into() };
    let Ok(repo) = h.open().and_then(Repository::to_indexed_ids) else { return "err:open".into() };
    let Ok(snap) = repo.archive(&BackupOptions::default(), &src, SnapshotFile::default(), &[PathBuf::from(SRC_ROOT)]) else {
        return "err:backup".into();
    };
    let Ok(repo) = h.open().and_then(Repository::to_indexed) else { return "err:open".into() };
    let before = snapshot_of_dir(&outer);
    let res = restore_with(&repo, &snap, &dest, &opts_of(true, false, false));
    let after = snapshot_of_dir(&outer);
    // anything new or changed outside dest?
    let inside = |k: &str| k.starts_with("mid/dest/");
    let _ = &inside;
    for (k, v) in &after {
        if !inside(k) && before.get(k) != Some(v) {
            return format!("oracle-fail:wrote-outside-destination:{}", k.chars().take(40).collect::<String>());
        }
    }
    for k in before.keys() {
        if !inside(k) && !after.contains_key(k) {
            return "oracle-fail:removed-outside-destination".into();
        }
    }
    match res {
        Err(_) => {
            if after.keys().any(|k| inside(k) && k != "mid/dest/") {
                "refused-after-writing".into()
            } else {
                "refused".into()
            }
        }
        Ok(()) => "restored".into(),
    }
}

fn tree_case(seed: u64) -> String {
    let mut rng = Rng::new(seed);
    // the snapshot
    let mut entries = Vec::new();
    let nfiles = 1 + rng.below(6);
    for i in 0..nfiles {
        let len = *rng.pick(&[0usize, 1, 50, 5000, 40_000]);
        let mut content = rng.bytes(len);
        if rng.chance(1, 4) {
            // zero runs (sparse candidates)
            for b in content.iter_mut().take(len / 2) {
                *b = 0;
            }
        }
        let path: Vec<Vec<u8>> = match rng.below(3) {
            0 => vec![format!("f{i}").into_bytes()],
            1 => vec![b"d".to_vec(), format!("f{i}").into_bytes()],
            _ => vec![b"d".to_vec(), b"e".to_vec(), format!("f{i}").into_bytes()],
        };
        entries.push(SrcEntry { path, kind: SrcKind::File(content), mode: 0o644, mtime_s: SNAP_MTIME, ctime_s: SNAP_MTIME, inode: 0, links: 1 });
    }
    let src = MemSource::new(entries);
    let cfg = ConfigOptions::default().set_chunker(Chunker::FixedSize).set_chunk_size(bytesize::ByteSize(4096));
    let Ok((h, _)) = RepoHandle::init(MemBackend::new(), None, &cfg) else { return "err:init".into() };
    let Ok(snap) = crate::repo::backup(&h, &src, &BackupOptions::default(), SnapshotFile::default()) else { return "err:backup".into() };
    let Ok(repo) = h.open().and_then(Repository::to_indexed) else { return "err:open".into() };
    let (verify, sparse, delete) = (rng.chance(1, 2), rng.chance(1, 3), rng.chance(1, 2));
    let tmp = tempfile::tempdir().expect("tempdir");
    let outer = tmp.path().join("outer");
    let dest = outer.join("dest");
    std::fs::create_dir_all(&dest).unwrap();
    std::fs::write(outer.join("sentinel"), b"S").unwrap();
    std::fs::write(outer.join("dest-sibling"), b"T").unwrap();
    // destination = random mutation of the snapshot
    let mut extras: Vec<String> = Vec::new();
    let mut type_changed = false;
    let mut zero_hazard = false;
    for e in &src.entries {
        let mut p = dest.clone();
        for c in &e.path {
            p.push(String::from_utf8_lossy(c).to_string());
        }
        match &e.kind {
            SrcKind::Dir => {
                if rng.chance(2, 3) {
                    _ = std::fs::create_dir_all(&p);
                }
            }
            SrcKind::File(c) => {
                if let Some(par) = p.parent() {
                    if !par.exists() {
                        continue;
                    }
                }
                if p.exists() {
                    continue;
                }
                let nonzero_old = |d: &[u8]| d.iter().any(|b| *b != 0);
                match rng.below(8) {
                    0 => {} // absent
                    1 => {
                        _ = std::fs::write(&p, c); // identical
                    }
                    2 => {
                        let mut d = c.clone(); // modified, same size
                        if !d.is_empty() {
                            let i = rng.below(d.len() as u64) as usize;
                            d[i] ^= 0x55;
                        }
                        zero_hazard |= sparse && nonzero_old(&d);
                        _ = std::fs::write(&p, d);
                    }
                    3 => {
                        let d = c[..c.len() / 2].to_vec(); // truncated
                        zero_hazard |= sparse && nonzero_old(&d);
                        _ = std::fs::write(&p, d);
                    }
                    4 => {
                        let mut d = c.clone(); // longer
                        d.extend_from_slice(&rng.bytes(100));
                        zero_hazard |= sparse;
                        _ = std::fs::write(&p, d);
                    }
                    5 if delete => {
                        // type changed: a directory where the snapshot has a file
                        _ = std::fs::create_dir_all(p.join("sub"));
                        _ = std::fs::write(p.join("sub").join("x"), b"x");
                        type_changed = true;
                    }
                    _ => {
                        let d = rng.bytes(c.len()); // unrelated content, same size
                        zero_hazard |= sparse && nonzero_old(&d);
                        _ = std::fs::write(&p, d);
                    }
                }
                if p.is_file() {
                    set_mtime(&p, SNAP_MTIME + 5);
                }
            }
            SrcKind::Symlink(_) => {}
        }
    }
    for i in 0..rng.below(3) {
        let name = format!("extra{i}");
        let p = if rng.chance(1, 2) && dest.join("d").is_dir() { dest.join("d").join(&name) } else { dest.join(&name) };
        if rng.chance(1, 3) {
            _ = std::fs::create_dir_all(p.join("deep"));
            _ = std::fs::write(p.join("deep").join("y"), b"y");
        } else {
            _ = std::fs::write(&p, b"extra");
        }
        extras.push(p.strip_prefix(&dest).unwrap().to_string_lossy().to_string());
    }
    let before_extras = snapshot_of_dir(&dest);
    let res = restore_with(&repo, &snap, &dest, &opts_of(verify, sparse, delete));
    let _ = type_changed;
    if std::fs::read(outer.join("sentinel")).ok().as_deref() != Some(b"S") || std::fs::read(outer.join("dest-sibling")).ok().as_deref() != Some(b"T") {
        return "oracle-fail:sentinel-touched".into();
    }
    if snapshot_of_dir(&outer).keys().any(|k| !k.starts_with("dest/") && k != "dest/" && k != "sentinel" && k != "dest-sibling") {
        return "oracle-fail:wrote-outside-destination".into();
    }
    if let Err(e) = res {
        return format!("oracle-fail:restore-error:{e}");
    }
    let after = snapshot_of_dir(&dest);
    for e in &src.entries {
        let rel: String = e.path.iter().map(|c| String::from_utf8_lossy(c).to_string()).collect::<Vec<_>>().join("/");
        match &e.kind {
            SrcKind::File(c) => {
                if after.get(&rel) != Some(c) {
                    // DESIGN §7 #13: sparse restore over pre-existing non-zero data
                    return if zero_hazard { "oracle-fail:sparse-over-existing-data".into() } else { format!("oracle-fail:content-differs:v{}s{}d{}", u8::from(verify), u8::from(sparse), u8::from(delete)) };
                }
            }
            SrcKind::Dir => {
                if !after.contains_key(&format!("{rel}/")) {
                    return "oracle-fail:dir-missing".into();
                }
            }
            SrcKind::Symlink(_) => {}
        }
    }
    for x in &extras {
        let present = after.keys().any(|k| k == x || k.starts_with(&format!("{x}/")));
        if delete && present {
            return "oracle-fail:extra-entry-survives-delete".into();
        }
        if !delete {
            for (k, v) in &before_extras {
                if (k == x || k.starts_with(&format!("{x}/"))) && after.get(k) != Some(v) {
                    return "oracle-fail:extra-entry-touched-without-delete".into();
                }
            }
        }
    }
    "ok".into()
}

pub fn exec(t: &[&str]) -> String {
    let t: Vec<String> = t.iter().map(|s| (*s).to_string()).collect();
    guarded(move || match t.iter().map(String::as_str).collect::<Vec<_>>().as_slice() {
        ["file", chunk, content, old, v, s, m] => {
            let (Ok(chunk), Some(content)) = (chunk.parse::<usize>(), data_of(content)) else { return "bad-op".into() };
            let old = if *old == "~" { None } else { let Some(o) = data_of(old) else { return "bad-op".into() }; Some(o) };
            if chunk == 0 || ![*v, *s, *m].iter().all(|x| *x == "0" || *x == "1") {
                return "bad-op".into();
            }
            file_case(chunk, &content, old, *v == "1", *s == "1", *m == "1")
        }
        ["join", base, item] => {
            let (Some(b), Some(i)) = (unhex(base), unhex(item)) else { return "bad-op".into() };
            let base = PathBuf::from(OsString::from_vec(b));
            if !base.is_absolute() {
                return "bad-op".into();
            }
            // `LocalDestination::path` for a directory destination is exactly `self.path.join(item)`
            let joined = base.join(PathBuf::from(OsString::from_vec(i)));
            if resolve(&joined).starts_with(resolve(&base)) { "in".into() } else { "out".into() }
        }
        ["hostile", kind, name] => {
            let Some(n) = unhex(name) else { return "bad-op".into() };
            if !["file", "dir", "abs"].contains(kind) || n.is_empty() || n.contains(&0) {
                return "bad-op".into();
            }
            hostile(kind, &n)
        }
        ["tree", seed] => seed.parse::<u64>().map_or("bad-op".into(), tree_case),
        _ => "bad-op".into(),
    })
}

pub fn generate(thorough: bool, rng: &mut Rng, ops: &mut Vec<String>, stats: &mut Stats) {
    let n_file = if thorough { 1500 } else { 120 };
    for _ in 0..n_file {
        let chunk = *rng.pick(&[4usize, 8, 16]);
        let nblobs = rng.below(5) as usize;
        let tail = if rng.chance(1, 2) { rng.below(chunk as u64) as usize } else { 0 };
        let len = nblobs * chunk + tail;
        let mut content = rng.bytes(len);
        // all-zero blobs
        for b in 0..nblobs {
            if rng.chance(1, 3) {
                for x in &mut content[b * chunk..(b + 1) * chunk] {
                    *x = 0;
                }
            }
        }
        let old = match rng.below(9) {
            0 => {
                stats.hit("old.absent");
                None
            }
            1 => {
                stats.hit("old.identical");
                Some(content.clone())
            }
            2 => {
                stats.hit("old.one-blob-modified");
                let mut d = content.clone();
                if !d.is_empty() {
                    let i = rng.below(d.len() as u64) as usize;
                    d[i] ^= 0xff;
                }
                Some(d)
            }
            3 => {
                stats.hit("old.truncated");
                Some(content[..len / 2].to_vec())
            }
            4 => {
                stats.hit("old.longer");
                let mut d = content.clone();
                let extra = 1 + rng.below(10) as usize;
                d.extend_from_slice(&rng.bytes(extra));
                Some(d)
            }
            5 => {
                stats.hit("old.same-size-random");
                Some(rng.bytes(len))
            }
            6 => {
                stats.hit("old.zeros");
                Some(vec![0; len])
            }
            7 => {
                stats.hit("old.empty");
                Some(vec![])
            }
            _ => {
                stats.hit("old.ff-longer");
                Some(vec![0xff; len + 3])
            }
        };
        let (v, s, m) = (rng.chance(1, 2), rng.chance(1, 2), rng.chance(1, 3));
        stats.hit(format!("opts.v{}s{}m{}", u8::from(v), u8::from(s), u8::from(m)));
        ops.push(format!(
            "c14 file {chunk} {} {} {} {} {}",
            hex(&content),
            old.map_or("~".to_string(), |o| hex(&o)),
            u8::from(v),
            u8::from(s),
            u8::from(m)
        ));
    }
    let items: [&[u8]; 14] = [b"a", b"a/b", b"..", b"../x", b"a/../..", b"a/../../x", b"/etc/passwd", b"/", b"./a", b"a/..", b"...", b"..a", b"a//b", b""];
    for it in items {
        for base in [&b"/t/dest"[..], b"/t/dest/", b"/"] {
            stats.hit("join");
            ops.push(format!("c14 join {} {}", hex(base), hex(it)));
        }
    }
    for (kind, name) in [("file", &b"../evil"[..]), ("file", b".."), ("file", b"../../outer_evil"), ("dir", b".."), ("dir", b"../up"), ("abs", b"evil_abs"), ("file", b"a/b"), ("file", b"plain"), ("file", b"."), ("dir", b"plain_dir")] {
        stats.hit(format!("hostile.{kind}"));
        ops.push(format!("c14 hostile {kind} {}", hex(name)));
    }
    let n_tree = if thorough { 600 } else { 60 };
    for _ in 0..n_tree {
        stats.hit("tree");
        ops.push(format!("c14 tree {}", rng.below(1 << 32)));
    }
}
