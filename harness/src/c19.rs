//! C19 — the local cache is transparent.
//! Backend level: one `MemBackend`, an uncached handle (the backend itself) and a cached handle (real
//! `CachedBackend` + `Cache` on a tempdir, through `rustic_core::verif::cache`), identical op sequences, files
//! planted in / removed from the cache directory between operations.
//!   c19 hist <step>;<step>;…        (H = c cached handle | u uncached handle; t = 0..4; cb = 0|1 cacheable flag)
//!     w,H,t,id,cb,data   d,H,t,id,cb   r,H,t,id   p,H,t,id,cb,off,len   l,H,t
//!     s,path,data  plant a file in the cache dir     x,path  delete a file / symlink of the cache dir
//!     m,path  plant a DIRECTORY (mkdir -p)     k,path  plant a DANGLING SYMLINK     t,path,n  cut a regular file to its first n bytes
//!     y,path,data  plant a SYMLINK to a regular file (outside the cache dir) holding data
//!     q,t,list  `Cache::remove_not_in_list(t, list)` directly (list = `-` | `id:size+id:size…`): the pack clean-up of `check`
//!     f  cache-dir layout      b  backend contents
//! Direct oracles: a shadow `MemBackend` receives every operation uncached — the real store must always equal
//! the shadow's; results through the cached handle must equal the shadow's whenever the file's type has been
//! listed through the cached handle since the cache dir / the repository was last changed behind its back; after
//! a cached listing no properly placed cache file of that type is absent from the repository or of another size.
//!   c19 repo <seed>                 repository level: backup / forget / prune / check alternately through a cached
//!                                   and an uncached handle with stale / truncated / foreign files planted.
use std::collections::BTreeMap;
use std::path::{Path, PathBuf};
use std::sync::Arc;

use bytes::Bytes;
use rustic_core::repofile::FileType;
use rustic_core::{BytesList, Id, ReadBackend, WriteBackend};

use super::c20::{data_of, digest};
use crate::repo::{FILE_TYPES, MemBackend, ft_idx, ft_name};
use crate::util::{Rng, Stats, guarded, hex};

fn tpe_of(s: &str) -> Option<FileType> {
    FILE_TYPES.get(s.parse::<usize>().ok()?).copied()
}
fn id_of(s: &str) -> Option<Id> {
    if s.len() != 64 || s.bytes().any(|b| b.is_ascii_uppercase()) {
        return None;
    }
    s.parse().ok()
}
fn is_cacheable(t: FileType) -> bool {
    matches!(t, FileType::Snapshot | FileType::Index)
}

/// regular files `path:size`; directories at depth >= 3 (below `<type>/<xx>/`: only plants create those) as `path/`
fn layout(root: &Path) -> String {
    fn walk(dir: &Path, rel: &str, out: &mut Vec<String>) {
        let Ok(rd) = std::fs::read_dir(dir) else { return };
        for e in rd.flatten() {
            let name = e.file_name().to_string_lossy().to_string();
            let r = if rel.is_empty() { name.clone() } else { format!("{rel}/{name}") };
            let Ok(ft) = e.file_type() else { continue };
            if ft.is_dir() {
                if r.split('/').count() >= 3 {
                    out.push(format!("{r}/"));
                }
                walk(&e.path(), &r, out);
            } else if ft.is_file() {
                out.push(format!("{r}:{}", e.metadata().map(|m| m.len()).unwrap_or(0)));
            } else if ft.is_symlink() {
                // dangling: `path@`; to a regular file: `path@<size>`
                match std::fs::metadata(e.path()) {
                    Ok(m) if m.is_file() => out.push(format!("{r}@{}", m.len())),
                    _ => out.push(format!("{r}@")),
                }
            }
        }
    }
    let mut out = Vec::new();
    walk(root, "", &mut out);
    out.sort();
    if out.is_empty() { "-".into() } else { out.join("+") }
}

fn store_str(be: &MemBackend) -> String {
    let v: Vec<String> = be.store().iter().map(|((t, id), b)| format!("{t}/{}:{}", id.to_hex().as_str(), digest(b))).collect();
    if v.is_empty() { "-".into() } else { v.join("+") }
}

fn fmt_listing(mut v: Vec<(Id, u32)>) -> String {
    v.sort();
    if v.is_empty() {
        return "-".into();
    }
    v.iter().map(|(id, n)| format!("{}:{n}", id.to_hex().as_str())).collect::<Vec<_>>().join("+")
}

fn good_path(p: &str) -> bool {
    !p.starts_with('/') && p.split('/').all(|c| !c.is_empty() && c != "." && c != "..")
}

fn do_op(be: &dyn WriteBackend, f: &[&str]) -> Option<String> {
    Some(match f {
        ["w", _, t, id, cb, data] => {
            let (t, id, data) = (tpe_of(t)?, id_of(id)?, data_of(data)?);
            match be.write_bytes(t, &id, *cb == "1", BytesList::from(Bytes::from(data))) {
                Ok(()) => "ok".into(),
                Err(_) => "err".into(),
            }
        }
        ["d", _, t, id, cb] => match be.remove(tpe_of(t)?, &id_of(id)?, *cb == "1") {
            Ok(()) => "ok".into(),
            Err(_) => "err".into(),
        },
        ["r", _, t, id] => be.read_full(tpe_of(t)?, &id_of(id)?).map_or("err".into(), |b| digest(&b)),
        ["p", _, t, id, cb, off, len] => be
            .read_partial(tpe_of(t)?, &id_of(id)?, *cb == "1", off.parse().ok()?, len.parse().ok()?)
            .map_or("err".into(), |b| digest(&b)),
        ["l", _, t] => be.list_with_size(tpe_of(t)?).map_or("err".into(), fmt_listing),
        _ => return None,
    })
}

fn hist(steps: &str) -> String {
    let tmp = tempfile::tempdir().expect("tempdir");
    let croot: PathBuf = tmp.path().join("cache");
    std::fs::create_dir_all(&croot).unwrap();
    let be = MemBackend::new();
    let shadow = MemBackend::named("shadow");
    let cache = rustic_core::verif::cache::cache_at(croot.clone());
    let cached = rustic_core::verif::cache::cached_backend(Arc::new(be.clone()), cache.clone());
    // dirty[t]: the cache dir or the repository changed behind the cached handle since its last listing of t
    let mut dirty = [false; 5];
    let mut n_stash = 0usize;
    let mut fail: Option<String> = None;
    let mut out = Vec::new();
    for s in steps.split(';') {
        let f: Vec<&str> = s.split(',').collect();
        let obs = match f.as_slice() {
            ["s", path, data] => {
                let Some(data) = data_of(data) else { return "bad-op".into() };
                if !good_path(path) {
                    return "bad-op".into();
                }
                let p = croot.join(path);
                if let Some(par) = p.parent() {
                    _ = std::fs::create_dir_all(par);
                }
                dirty = [true; 5];
                match std::fs::write(&p, data) {
                    Ok(()) => "ok".into(),
                    Err(_) => "err".into(),
                }
            }
            ["x", path] => {
                if !good_path(path) {
                    return "bad-op".into();
                }
                _ = std::fs::remove_file(croot.join(path));
                "ok".into()
            }
            ["q", t, list] => {
                // `Cache::remove_not_in_list(t, list)` called directly — the pack clean-up of `check` (there: t = pack, list = the tree
                // packs of the index with the sizes the index records), with and without `trust_cache`
                let Some(t) = tpe_of(t) else { return "bad-op".into() };
                let mut l: Vec<(Id, u32)> = Vec::new();
                if *list != "-" {
                    for e in list.split('+') {
                        let Some((id, n)) = e.split_once(':') else { return "bad-op".into() };
                        let (Some(id), Ok(n)) = (id_of(id), n.parse::<u32>()) else { return "bad-op".into() };
                        l.push((id, n));
                    }
                }
                let res = cache.remove_not_in_list(t, &l);
                // what survives has the size the list gives for that id (theorem `no_stale_pack_after_check`)
                let want: BTreeMap<Id, u32> = l.iter().copied().collect();
                for sub in std::fs::read_dir(croot.join(t.dirname())).into_iter().flatten().flatten() {
                    if !sub.path().is_dir() {
                        continue;
                    }
                    for e in std::fs::read_dir(sub.path()).into_iter().flatten().flatten() {
                        let name = e.file_name().to_string_lossy().to_string();
                        let Some(id) = id_of(&name) else { continue };
                        if !e.path().is_file() || sub.file_name().to_string_lossy() != name[..2] {
                            continue;
                        }
                        let sz = std::fs::metadata(e.path()).map(|m| m.len()).unwrap_or(0);
                        if want.get(&id).map(|n| u64::from(*n)) != Some(sz) {
                            fail = fail.or(Some("oracle-fail:entry-not-in-list-after-cleanup".into()));
                        }
                    }
                }
                // the list is the repository's listing of the files of that type that are ever cached (packs: the tree packs): the cache
                // is clean for that type now, every read through the cached handle must equal the uncached one
                let mut truth: Vec<(Id, u32)> = be
                    .store()
                    .iter()
                    .filter(|((ft, id), _)| *ft == ft_idx(t) && (is_cacheable(t) || cbf(ft_idx(t), id.to_hex().as_str()) == 1))
                    .map(|((_, id), b)| (*id, b.len() as u32))
                    .collect();
                truth.sort();
                l.sort();
                if res.is_ok() && l == truth {
                    dirty[ft_idx(t) as usize] = false;
                }
                if res.is_ok() { "ok".into() } else { "err".into() }
            }
            ["m", path] => {
                // a DIRECTORY planted in the cache dir (`mkdir -p`); never makes the cache "dirty": whatever lies below or at
                // an entry path that is not a regular file must not change any result
                if !good_path(path) {
                    return "bad-op".into();
                }
                match std::fs::create_dir_all(croot.join(path)) {
                    Ok(()) => "ok".into(),
                    Err(_) => "err".into(),
                }
            }
            ["k", path] => {
                // a DANGLING SYMLINK planted in the cache dir; its target lies in a directory that does not exist, so nothing can be
                // created through it either.  Never marks the cache dirty.
                if !good_path(path) {
                    return "bad-op".into();
                }
                let p = croot.join(path);
                if let Some(par) = p.parent() {
                    _ = std::fs::create_dir_all(par);
                }
                match std::os::unix::fs::symlink(tmp.path().join("void").join("x"), &p) {
                    Ok(()) => "ok".into(),
                    Err(_) => "err".into(),
                }
            }
            ["y", path, data] => {
                // a SYMLINK TO A REGULAR FILE planted in the cache dir: the file (holding `data`) lies outside the cache dir, one per link
                let Some(data) = data_of(data) else { return "bad-op".into() };
                if !good_path(path) {
                    return "bad-op".into();
                }
                let p = croot.join(path);
                if let Some(par) = p.parent() {
                    _ = std::fs::create_dir_all(par);
                }
                n_stash += 1;
                let target = tmp.path().join(format!("stash{n_stash}"));
                dirty = [true; 5];
                match std::fs::write(&target, data).and_then(|()| std::os::unix::fs::symlink(&target, &p)) {
                    Ok(()) => "ok".into(),
                    Err(_) => "err".into(),
                }
            }
            ["t", path, n] => {
                // truncate a regular file of the cache dir to its first n bytes (no-op when it is shorter / not a file)
                let Ok(n) = n.parse::<usize>() else { return "bad-op".into() };
                if !good_path(path) {
                    return "bad-op".into();
                }
                let p = croot.join(path);
                if p.is_file() && !p.is_symlink() {
                    let d = std::fs::read(&p).unwrap_or_default();
                    if n < d.len() {
                        dirty = [true; 5];
                        _ = std::fs::write(&p, &d[..n]);
                    }
                }
                "ok".into()
            }
            ["f"] => layout(&croot),
            ["b"] => store_str(&be),
            [op, h, t, ..] if ["w", "d", "r", "p", "l"].contains(op) && ["c", "u"].contains(h) => {
                let Some(t) = tpe_of(t) else { return "bad-op".into() };
                let ti = ft_idx(t) as usize;
                let use_cache = *h == "c";
                let f2 = f.clone();
                // per-file soundness of the cache entry BEFORE a read through the cached handle (theorems
                // entry_coherent_read_equiv / prefix_entry_ranged_read_equiv / dir_entry_*): nothing, a directory or another
                // non-file object at the entry path, the repository's bytes, or — for a non-empty ranged read — a prefix of
                // them (a truncated entry): then the cached result must equal the uncached one, listed or not.
                let mut sound = false;
                if use_cache && matches!(*op, "r" | "p") {
                    let Some(id) = f.get(3).and_then(|s| id_of(s)) else { return "bad-op".into() };
                    let cache_on = is_cacheable(t) || (*op == "p" && f.get(4) == Some(&"1"));
                    let hex_id = id.to_hex();
                    let ep = croot.join(t.dirname()).join(&hex_id[0..2]).join(hex_id.as_str());
                    let stored = be.store().get(&(ft_idx(t), id)).cloned();
                    sound = !cache_on
                        || match std::fs::metadata(&ep) {
                            // (follows symlinks, as the cache reads do)
                            Err(_) => true,
                            Ok(m) if m.is_file() => {
                                let b = std::fs::read(&ep).unwrap_or_default();
                                match &stored {
                                    Some(d) if *op == "r" => d[..] == b[..],
                                    Some(d) => d.starts_with(&b),
                                    None => false,
                                }
                            }
                            Ok(_) => true,
                        };
                }
                if use_cache && *op == "w" {
                    // a directory / dangling symlink at the TEMP path blocks the cache write: an overwrite with other bytes (outside the
                    // statement: ids are content hashes) then leaves the old entry behind — not compared until the next listing
                    if let (Some(id), Some(data)) = (f.get(3).and_then(|s| id_of(s)), f.get(5).and_then(|s| data_of(s))) {
                        let hex_id = id.to_hex();
                        let tp = croot.join(t.dirname()).join(&hex_id[0..2]).join(format!("{}-tmp-", hex_id.as_str()));
                        if (tp.is_dir() || tp.is_symlink()) && be.store().get(&(ft_idx(t), id)).is_some_and(|d| d[..] != data[..]) {
                            dirty[ti] = true;
                        }
                    }
                }
                let handle: Arc<dyn WriteBackend> = if use_cache { cached.clone() } else { Arc::new(be.clone()) };
                let res = std::panic::catch_unwind(std::panic::AssertUnwindSafe(|| do_op(&*handle, &f2)));
                let obs = match res {
                    Ok(Some(o)) => o,
                    Ok(None) => return "bad-op".into(),
                    Err(_) => "panic".to_string(),
                };
                let want = do_op(&shadow, &f).unwrap_or_default();
                if !use_cache && matches!(*op, "w" | "d") {
                    // another process changed the repository behind the cache
                    dirty[ti] = true;
                }
                if be.store() != shadow.store() {
                    fail = fail.or(Some("oracle-fail:repository-contents-differ-from-uncached-run".into()));
                }
                if use_cache {
                    if *op == "l" && is_cacheable(t) {
                        dirty[ti] = false;
                        // the property's last sentence
                        let dir = croot.join(t.dirname());
                        let list: BTreeMap<Id, u32> = be.list_with_size(t).unwrap().into_iter().collect();
                        for sub in std::fs::read_dir(&dir).into_iter().flatten().flatten() {
                            if !sub.path().is_dir() {
                                continue;
                            }
                            for e in std::fs::read_dir(sub.path()).into_iter().flatten().flatten() {
                                let name = e.file_name().to_string_lossy().to_string();
                                let Some(id) = id_of(&name) else { continue };
                                if !e.path().is_file() || sub.file_name().to_string_lossy() != name[..2] {
                                    continue;
                                }
                                let sz = std::fs::metadata(e.path()).map(|m| m.len()).unwrap_or(0);
                                match list.get(&id) {
                                    None => fail = fail.or(Some("oracle-fail:stale-cache-file-after-listing".into())),
                                    Some(n) if u64::from(*n) != sz => {
                                        fail = fail.or(Some("oracle-fail:wrong-size-cache-file-after-listing".into()));
                                    }
                                    _ => {}
                                }
                            }
                        }
                    }
                    // (a zero-length range is answered by a cache file at any offset; degenerate, not compared)
                    let degenerate = *op == "p" && f.last() == Some(&"0");
                    if (!dirty[ti] || sound) && obs != want && !degenerate {
                        fail = fail.or(Some(format!("oracle-fail:cached-{op}-differs-from-uncached:{obs}-vs-{want}").chars().take(90).collect()));
                    }
                    if obs == "panic" {
                        fail = fail.or(Some(format!("oracle-fail:cached-{op}-panics-where-uncached-gives-{want}")));
                    }
                }
                obs
            }
            _ => return "bad-op".into(),
        };
        out.push(obs);
    }
    if let Some(f) = fail {
        return f;
    }
    out.join(";")
}

pub fn exec(t: &[&str]) -> String {
    let t: Vec<String> = t.iter().map(|s| (*s).to_string()).collect();
    guarded(move || match t.iter().map(String::as_str).collect::<Vec<_>>().as_slice() {
        ["hist", steps] => hist(steps),
        ["repo", seed] => match seed.parse::<u64>() {
            Ok(s) => repo_level(s),
            Err(_) => "bad-op".into(),
        },
        _ => "bad-op".into(),
    })
}

// ---------------------------------------------------------------------------------- repository level

/// The packs listed by the index files (not marked for deletion): `(id, is a tree pack, size)`, read through an uncached handle.
fn indexed_packs(h: &crate::repo::RepoHandle, opts: &rustic_core::RepositoryOptions) -> Option<Vec<(Id, bool, u32)>> {
    use rustic_core::repofile::{BlobType, IndexFile};
    let repo = h.open_with(opts).ok()?;
    let mut v = Vec::new();
    for item in repo.stream_files::<IndexFile>().ok()? {
        let (_, f) = item.ok()?;
        for p in &f.packs {
            v.push((*p.id, p.blob_type() == BlobType::Tree, p.pack_size()));
        }
    }
    v.sort();
    v.dedup();
    Some(v)
}

/// (re)places whatever non-directory sits at `path` by a regular file holding `data`
fn put_file(path: &Path, data: &[u8]) {
    if let Some(par) = path.parent() {
        _ = std::fs::create_dir_all(par);
    }
    if path.is_symlink() || path.is_file() {
        _ = std::fs::remove_file(path);
    }
    if !path.is_dir() {
        _ = std::fs::write(path, data);
    }
}

/// Plants files at the cache locations `<root>/data/<xx>/<id>` of packs of the repository.
/// `tree`: foreign / overwritten files of ANOTHER SIZE at the locations of tree packs, and a stale pack the repository does not have — what
/// only `check` cleans up (its pack clean-up runs with and without `trust_cache`), so this is planted right before a `check`.
/// `data`: foreign files (any size, the pack's own size included) at the locations of DATA packs — those are never cached
/// (`cacheable = false`), no operation may ever look at them.
fn plant_packs(rng: &mut Rng, root: &Path, tmp: &Path, n_stash: &mut usize, be: &MemBackend, packs: &[(Id, bool, u32)], tree: bool, data: bool) {
    let at = |id: &Id| {
        let hex_id = id.to_hex();
        root.join("data").join(&hex_id[0..2]).join(hex_id.as_str())
    };
    for (id, is_tree, size) in packs {
        let size = *size as usize;
        let path = at(id);
        if path.is_dir() && !path.is_symlink() {
            continue;
        }
        if *is_tree && tree && rng.chance(2, 3) {
            match rng.below(5) {
                0 => put_file(&path, &vec![0u8; size + 7]),
                1 => {
                    let n = size + 1 + rng.below(9) as usize;
                    put_file(&path, &rng.bytes(n));
                }
                2 if size > 1 => {
                    let n = size - 1 - rng.below(size.min(10) as u64 - 1) as usize;
                    put_file(&path, &rng.bytes(n));
                }
                3 => {
                    // the pack itself, extended
                    let mut d = be.get(FileType::Pack, id).map(|b| b.to_vec()).unwrap_or_default();
                    d.extend_from_slice(b"garbage");
                    put_file(&path, &d);
                }
                _ => {
                    // a symlink to a foreign file of another size
                    *n_stash += 1;
                    let target = tmp.join(format!("stash{n_stash}"));
                    put_file(&path, b"");
                    if std::fs::write(&target, rng.bytes(size + 3)).is_ok() && std::fs::remove_file(&path).is_ok() {
                        _ = std::os::unix::fs::symlink(&target, &path);
                    }
                }
            }
        }
        if !*is_tree && data && rng.chance(2, 3) {
            match rng.below(4) {
                0 => put_file(&path, &vec![0u8; size]),
                1 => put_file(&path, &rng.bytes(size)),
                2 => {
                    let n = size + 1 + rng.below(9) as usize;
                    put_file(&path, &rng.bytes(n));
                }
                _ => {
                    *n_stash += 1;
                    let target = tmp.join(format!("stash{n_stash}"));
                    put_file(&path, b"");
                    if std::fs::write(&target, vec![0u8; size]).is_ok() && std::fs::remove_file(&path).is_ok() {
                        _ = std::os::unix::fs::symlink(&target, &path);
                    }
                }
            }
        }
    }
    if data {
        // key files and the config file are never cached either: foreign files at `keys/<xx>/<id>`, `config/00/00…0` (opening the
        // repository reads both)
        for (t, id) in be.ids(FileType::Key).into_iter().map(|i| (FileType::Key, i)).chain(std::iter::once((FileType::Config, Id::default()))) {
            if rng.chance(1, 2) {
                let hex_id = id.to_hex();
                let size = be.get(t, &id).map_or(10, |b| b.len());
                let n = if rng.chance(1, 2) { size } else { size + 1 + rng.below(9) as usize };
                let d = if rng.chance(1, 2) { vec![0u8; n] } else { rng.bytes(n) };
                put_file(&root.join(t.dirname()).join(&hex_id[0..2]).join(hex_id.as_str()), &d);
            }
        }
    }
    if tree && rng.chance(1, 2) {
        // a stale pack: "another process" pruned it from the repository
        let id: Id = hex::encode(rng.bytes(32)).parse().unwrap();
        put_file(&at(&id), &rng.bytes(40));
    }
}

/// After a `check` through the cached handle: a properly placed regular file (or symlink to one) in `<root>/data` that is not a tree pack
/// of the index, or has another size than the index says (model: `checkCleanup`, theorem `no_stale_pack_after_check`).
fn bad_cached_pack(root: &Path, packs: &[(Id, bool, u32)]) -> Option<&'static str> {
    for sub in std::fs::read_dir(root.join("data")).into_iter().flatten().flatten() {
        if !sub.path().is_dir() {
            continue;
        }
        for e in std::fs::read_dir(sub.path()).into_iter().flatten().flatten() {
            let name = e.file_name().to_string_lossy().to_string();
            let Some(id) = id_of(&name) else { continue };
            if !e.path().is_file() || sub.file_name().to_string_lossy() != name[..2] {
                continue;
            }
            let sz = std::fs::metadata(e.path()).map(|m| m.len()).unwrap_or(0);
            match packs.iter().find(|(i, _, _)| *i == id) {
                Some((_, true, n)) if u64::from(*n) == sz => {}
                Some((_, true, _)) => return Some("wrong-size-pack-cached-after-check"),
                _ => return Some("stale-or-data-pack-cached-after-check"),
            }
        }
    }
    None
}

/// Histories of backup / forget / prune / check alternately through a cached and an uncached handle on one
/// backend, with the cache directory damaged in between.  Observation `ok <n snapshots>`; every divergence from
/// what an uncached repository must show is an `oracle-fail`.
pub fn repo_level(seed: u64) -> String {
    use crate::repo::{MemSource, RepoHandle, SrcEntry, backup, expected, read_back};
    use rustic_core::repofile::SnapshotFile;
    use rustic_core::{BackupOptions, CheckOptions, ConfigOptions, PruneOptions, RepositoryOptions};
    let mut rng = Rng::new(seed);
    let tmp = tempfile::tempdir().expect("tempdir");
    let cdir = tmp.path().join("cache");
    let be = MemBackend::new();
    let Ok((h, repo0)) = RepoHandle::init(be.clone(), None, &ConfigOptions::default()) else { return "err:init".into() };
    // `<cache dir>/<repository id>`: what `Cache::new` uses
    let croot = cdir.join(repo0.config().id.to_hex().as_str());
    drop(repo0);
    let cached_opts = RepositoryOptions::default().cache_dir(cdir.clone());
    let uncached_opts = RepositoryOptions::default().no_cache(true);
    let opts_of = |cached: bool| if cached { cached_opts.clone() } else { uncached_opts.clone() };
    let mut sources: Vec<(Id, MemSource)> = Vec::new();
    let mut n_snap = 0usize;
    let mut n_stash = 0usize;
    let steps = 4 + rng.below(5);
    for step in 0..steps {
        let cached = rng.chance(1, 2);
        // damage the cache directory: truncate / extend / delete proper entries, add stale and foreign files
        let repo_cache: Vec<PathBuf> = std::fs::read_dir(&cdir).into_iter().flatten().flatten().map(|e| e.path()).filter(|p| p.is_dir()).collect();
        for root in &repo_cache {
            for t in ["snapshots", "index", "data"] {
                let mut files = Vec::new();
                for sub in std::fs::read_dir(root.join(t)).into_iter().flatten().flatten() {
                    for e in std::fs::read_dir(sub.path()).into_iter().flatten().flatten() {
                        files.push(e.path());
                    }
                }
                files.sort();
                for f in files {
                    match rng.below(11) {
                        5 | 6 => {
                            // a symlink to a copy (5: intact, 6: cut to half) in place of the entry
                            if f.is_file() && !f.is_symlink() {
                                let d = std::fs::read(&f).unwrap_or_default();
                                n_stash += 1;
                                let target = tmp.path().join(format!("stash{n_stash}"));
                                let keep = if rng.chance(1, 2) { d.len() } else { d.len() / 2 };
                                if std::fs::write(&target, &d[..keep]).is_ok() && std::fs::remove_file(&f).is_ok() {
                                    _ = std::os::unix::fs::symlink(&target, &f);
                                }
                            }
                        }
                        0 => {
                            let d = std::fs::read(&f).unwrap_or_default();
                            _ = std::fs::write(&f, &d[..d.len() / 2]);
                        }
                        1 => {
                            let mut d = std::fs::read(&f).unwrap_or_default();
                            d.extend_from_slice(b"garbage");
                            _ = std::fs::write(&f, d);
                        }
                        2 => _ = std::fs::remove_file(&f),
                        3 => {
                            // a directory in place of the entry (never cleaned up: not a regular file)
                            if f.is_file() && std::fs::remove_file(&f).is_ok() {
                                _ = std::fs::create_dir(&f);
                            }
                        }
                        4 => {
                            // a dangling symlink in place of the entry
                            if f.is_file() && std::fs::remove_file(&f).is_ok() {
                                _ = std::os::unix::fs::symlink(tmp.path().join("void").join("x"), &f);
                            }
                        }
                        _ => {}
                    }
                }
                if t != "data" && rng.chance(1, 2) {
                    // stale entry (a file "another process removed"), foreign names, a misplaced id-named file
                    let id = hex::encode(rng.bytes(32));
                    let d = root.join(t).join(&id[..2]);
                    _ = std::fs::create_dir_all(&d);
                    _ = std::fs::write(d.join(&id), rng.bytes(40));
                    _ = std::fs::write(d.join(format!("{id}-tmp-")), b"tmp");
                    _ = std::fs::write(root.join(t).join("README"), b"foreign");
                    if rng.chance(1, 2) {
                        _ = std::fs::write(root.join(t).join(hex::encode(rng.bytes(32))), b"misplaced");
                    }
                    // a directory at the entry path of an id the repository does not (yet) have
                    let id2 = hex::encode(rng.bytes(32));
                    _ = std::fs::create_dir_all(root.join(t).join(&id2[..2]).join(&id2));
                    // ... and a dangling symlink at another one
                    let id3 = hex::encode(rng.bytes(32));
                    _ = std::fs::create_dir_all(root.join(t).join(&id3[..2]));
                    _ = std::os::unix::fs::symlink(tmp.path().join("void").join("x"), root.join(t).join(&id3[..2]).join(&id3));
                }
            }
        }
        // files at the cache locations of DATA packs (never cached): no command may look at them
        let Some(packs) = indexed_packs(&h, &uncached_opts) else { return format!("oracle-fail:index-files-step{step}") };
        plant_packs(&mut rng, &croot, tmp.path(), &mut n_stash, &be, &packs, false, true);
        let Ok(repo) = h.open_with(&opts_of(cached)) else { return format!("oracle-fail:open-step{step}-cached{cached}") };
        match rng.below(4) {
            0 | 1 => {
                let mut entries = Vec::new();
                for i in 0..1 + rng.below(4) {
                    let len = *rng.pick(&[0usize, 10, 3000, 70_000]);
                    // distinct mtimes per backup: the parent snapshot must not make a changed file look unchanged
                    let mut e = SrcEntry::file(&[format!("d{}", i % 2).as_bytes(), format!("f{i}").as_bytes()], &rng.bytes(len));
                    e.mtime_s += 100 * (step as i64 + 1) + i as i64;
                    e.ctime_s = e.mtime_s;
                    entries.push(e);
                }
                let src = MemSource::new(entries);
                let Ok(repo) = repo.to_indexed_ids() else { return format!("oracle-fail:index-step{step}-cached{cached}") };
                match repo.archive(&BackupOptions::default(), &src, SnapshotFile::default(), &[PathBuf::from(crate::repo::SRC_ROOT)]) {
                    Ok(s) => {
                        sources.push((*s.id, src));
                        n_snap += 1;
                    }
                    Err(_) => return format!("oracle-fail:backup-step{step}-cached{cached}"),
                }
                let _ = backup;
            }
            2 if n_snap > 1 => {
                // forget everything but the newest snapshot
                let Ok(mut snaps) = repo.get_all_snapshots() else { return format!("oracle-fail:forget-plan-step{step}-cached{cached}") };
                snaps.sort_by_key(|s| s.time.clone());
                _ = snaps.pop();
                let ids: Vec<_> = snaps.iter().map(|s| s.id).collect();
                if repo.delete_snapshots(&ids).is_err() {
                    return format!("oracle-fail:forget-step{step}-cached{cached}");
                }
                sources.retain(|(id, _)| !ids.iter().any(|x| **x == *id));
                n_snap = sources.len();
            }
            _ => {
                let popts = PruneOptions::default();
                let Ok(plan) = repo.prune_plan(&popts) else { return format!("oracle-fail:prune-plan-step{step}-cached{cached}") };
                // (rustic's prune panics with "index still in use" when another thread still holds the index Arc — seen in
                // 3 of 60 thorough runs, with and without cache; unrelated to C19, the step is skipped then)
                match std::panic::catch_unwind(std::panic::AssertUnwindSafe(|| repo.prune(&popts, plan))) {
                    Ok(Ok(())) => {}
                    Ok(Err(_)) => return format!("oracle-fail:prune-step{step}-cached{cached}"),
                    Err(_) => {}
                }
            }
        }
        // `check` with trust_cache on / off and read_data on / off through both handles: same findings, none of them an error.  Before
        // every pair of runs wrong-sized foreign / overwritten tree packs, a stale pack and files at data-pack locations are planted in the
        // cache (the first `check` through the cached handle cleans them up again — with and without trust_cache).
        let Some(packs) = indexed_packs(&h, &uncached_opts) else { return format!("oracle-fail:index-files-step{step}") };
        let mut combos = [(false, true), (true, true), (true, false), (false, false)];
        let r = rng.below(4) as usize;
        combos.rotate_left(r);
        for (trust, rd) in combos {
            plant_packs(&mut rng, &croot, tmp.path(), &mut n_stash, &be, &packs, true, true);
            let mut findings: Vec<Vec<String>> = Vec::new();
            for c in [true, false] {
                let tag = format!("step{step}-cached{c}-trust{}-rd{}", u8::from(trust), u8::from(rd));
                let Ok(repo) = h.open_with(&opts_of(c)) else { return format!("oracle-fail:reopen-{tag}") };
                let Ok(res) = repo.check(CheckOptions::default().trust_cache(trust).read_data(rd)) else { return format!("oracle-fail:check-failed-{tag}") };
                if std::env::var("C19_DEBUG").is_ok() {
                    for (l, m) in &res.0 {
                        eprintln!("check[{tag}] {l:?}: {}", format!("{m:?}").chars().take(200).collect::<String>());
                    }
                }
                if res.0.iter().any(|(l, _)| format!("{l:?}") == "Error") {
                    return format!("oracle-fail:check-errors-{tag}");
                }
                let mut f: Vec<String> = res.0.iter().map(|(l, m)| format!("{l:?}:{m:?}")).collect();
                f.sort();
                findings.push(f);
                if c && let Some(what) = bad_cached_pack(&croot, &packs) {
                    return format!("oracle-fail:{what}-{tag}");
                }
            }
            if findings[0] != findings[1] {
                return format!("oracle-fail:check-findings-differ-step{step}-trust{}-rd{}", u8::from(trust), u8::from(rd));
            }
        }
        // every snapshot must read back identically through both handles — whatever lies at the cache locations of the data packs
        plant_packs(&mut rng, &croot, tmp.path(), &mut n_stash, &be, &packs, false, true);
        for c in [true, false] {
            let Ok(repo) = h.open_with(&opts_of(c)) else { return format!("oracle-fail:reopen-step{step}-cached{c}") };
            let Ok(snaps) = repo.get_all_snapshots() else { return format!("oracle-fail:snapshots-step{step}-cached{c}") };
            if snaps.len() != sources.len() {
                return format!("oracle-fail:snapshot-count-step{step}-cached{c}");
            }
            let Ok(repo) = repo.to_indexed() else { return format!("oracle-fail:index-step{step}-cached{c}") };
            for s in &snaps {
                let Some((_, src)) = sources.iter().find(|(id, _)| *id == *s.id) else { return "oracle-fail:unknown-snapshot".into() };
                match read_back(&repo, s).map(|v| v.into_iter().filter(|r| r.path != b"src").collect::<Vec<_>>()) {
                    Ok(rb) if rb == expected(src) => {}
                    other => {
                        if std::env::var("C19_DEBUG").is_ok() {
                            if let Ok(rb) = &other {
                                for (a, b) in rb.iter().zip(expected(src).iter()) {
                                    if a != b {
                                        let (x, y) = (a.content.clone().unwrap_or_default(), b.content.clone().unwrap_or_default());
                                        let fd = x.iter().zip(y.iter()).position(|(p, q)| p != q);
                                        eprintln!("handle cached={c} lens {}/{} first-diff {:?} snapshot {}", x.len(), y.len(), fd, s.id);
                                        eprintln!("DIFF at {}: content-eq={} link={:?}/{:?} kind={}/{}", String::from_utf8_lossy(&a.path), a.content == b.content, a.link, b.link, a.kind, b.kind);
                                    }
                                }
                            }
                            eprintln!("read_back: {:?}\nexpected: {:?}", other.map(|v| v.iter().map(|r| (String::from_utf8_lossy(&r.path).to_string(), r.kind.clone(), r.content.as_ref().map(Vec::len), r.mode, r.mtime_s)).collect::<Vec<_>>()).map_err(|e| e.to_string()), expected(src).iter().map(|r| (String::from_utf8_lossy(&r.path).to_string(), r.kind.clone(), r.content.as_ref().map(Vec::len), r.mode, r.mtime_s)).collect::<Vec<_>>());
                        }
                        return format!("oracle-fail:read-back-step{step}-cached{c}");
                    }
                }
            }
        }
    }
    let _ = ft_name;
    let _ = sources.len();
    "ok".into()
}

// ------------------------------------------------------------------------------------------ generator

/// the first size >= `n` that no version (written or planted with random bytes) of file `(t, id)` had so far in this history
fn unused_size(used: &[(u8, String, usize)], t: u8, id: &str, mut n: usize) -> usize {
    while used.iter().any(|(a, b, l)| *a == t && b == id && *l == n) {
        n += 1;
    }
    n
}

/// `id:size+…` of the live tree packs (`cbf` = 1); `skew`: one entry with another size (an index that disagrees with the repository)
fn pack_list(live: &[(u8, String, usize)], skew: Option<usize>) -> String {
    let tree: Vec<&(u8, String, usize)> = live.iter().filter(|(t, id, _)| *t == 4 && cbf(*t, id) == 1).collect();
    let bad = skew.filter(|_| !tree.is_empty()).map(|k| k % tree.len());
    let v: Vec<String> = tree.iter().enumerate().map(|(i, (_, id, n))| format!("{id}:{}", if bad == Some(i) { n + 1 } else { *n })).collect();
    if v.is_empty() { "-".into() } else { v.join("+") }
}

/// The `cacheable` flag callers pass for a file: a function of the file (a pack is a tree pack — cached — or a data pack — never cached),
/// here derived from the id: packs whose id starts with `0`..`4` are data packs.
fn cbf(t: u8, id: &str) -> u8 {
    u8::from(t == 4 && !matches!(id.as_bytes()[0], b'0'..=b'4'))
}

pub fn generate(thorough: bool, rng: &mut Rng, ops: &mut Vec<String>, stats: &mut Stats) {
    // two handles strictly alternating: every operation of the cached handle is preceded by a change made through the
    // uncached handle (a new file, a removal, an overwrite with another size) of a type the cache keeps, so the cache
    // is stale between every pair of cached operations
    let n_alt = if thorough { 6000 } else { 150 };
    for _ in 0..n_alt {
        let n = if thorough { rng.range(4, 30) } else { rng.range(3, 14) } as usize;
        let mut live: Vec<(u8, String, usize)> = Vec::new();
        let mut gone: Vec<(u8, String, usize)> = Vec::new();
        let mut steps: Vec<String> = Vec::new();
        for _ in 0..n {
            // (2 = key files and data packs — `cbf` = 0 — are never cached)
            let t = *rng.pick(&[1u8, 3, 3, 4, 4, 4, 2]);
            // --- the other process
            let (ut, uid, ulen) = match rng.below(4) {
                0 | 1 => {
                    stats.hit("alt.u-write-new");
                    let id = hex::encode(rng.bytes(32));
                    let cb = cbf(t, &id);
                    let len = *rng.pick(&[0usize, 1, 7, 40, 300]);
                    steps.push(format!("w,u,{t},{id},{cb},{}", if len > 64 { format!("g{}.{len}", rng.below(1 << 30)) } else { hex(&rng.bytes(len)) }));
                    live.push((t, id.clone(), len));
                    (t, id, len)
                }
                2 if !live.is_empty() => {
                    stats.hit("alt.u-remove");
                    let i = rng.below(live.len() as u64) as usize;
                    let (t, id, len) = live.remove(i);
                    steps.push(format!("d,u,{t},{id},{}", cbf(t, &id)));
                    gone.push((t, id.clone(), len));
                    (t, id, len)
                }
                _ if !live.is_empty() => {
                    stats.hit("alt.u-overwrite-other-size");
                    let i = rng.below(live.len() as u64) as usize;
                    let (t, id, len) = live[i].clone();
                    let nl = len + 1 + rng.below(5) as usize;
                    steps.push(format!("w,u,{t},{id},{},g{}.{nl}", cbf(t, &id), rng.below(1 << 30)));
                    live[i].2 = nl;
                    (t, id, nl)
                }
                _ => {
                    stats.hit("alt.u-write-new");
                    let id = hex::encode(rng.bytes(32));
                    steps.push(format!("w,u,{t},{id},{},0102030405", cbf(t, &id)));
                    live.push((t, id.clone(), 5));
                    (t, id, 5)
                }
            };
            // --- the cached handle: usually lists first, then reads the file the other process just touched (or another)
            if rng.chance(3, 4) {
                stats.hit("alt.c-list");
                steps.push(format!("l,c,{ut}"));
            }
            if ut == 4 && rng.chance(1, 2) {
                // what `check` does (with and without trust_cache): the pack cache is cleaned against the tree packs of the index
                stats.hit("alt.c-pack-cleanup");
                steps.push(format!("q,4,{}", pack_list(&live, None)));
            }
            let (rt, rid, rlen) = if rng.chance(2, 3) {
                (ut, uid, ulen)
            } else if !gone.is_empty() && rng.chance(1, 2) {
                rng.pick(&gone).clone()
            } else if !live.is_empty() {
                rng.pick(&live).clone()
            } else {
                (ut, uid, ulen)
            };
            let never_cached = !matches!(rt, 1 | 3) && cbf(rt, &rid) == 0;
            if never_cached && rng.chance(1, 2) {
                // a foreign file where the entry of a NEVER-cached file (data pack, key) would be — its size, or longer: the cached handle
                // must not look at it (reads, whole and ranged, go to the repository)
                stats.hit("alt.foreign-file-at-noncacheable-entry");
                let dir = ["config", "index", "keys", "snapshots", "data"][rt as usize];
                let n = rlen + rng.below(3) as usize;
                let data = if n > 64 || rng.chance(1, 2) { format!("g{}.{n}", rng.below(1 << 30)) } else { hex(&vec![0u8; n]) };
                if rng.chance(3, 4) {
                    steps.push(format!("s,{dir}/{}/{rid},{data}", &rid[..2]));
                } else {
                    steps.push(format!("x,{dir}/{}/{rid}", &rid[..2]));
                    steps.push(format!("y,{dir}/{}/{rid},{data}", &rid[..2]));
                }
            } else if rng.chance(1, 6) {
                // a directory where the entry of that file belongs (stays there for the rest of the history)
                let dir = ["config", "index", "keys", "snapshots", "data"][rt as usize];
                if rng.chance(2, 3) {
                    stats.hit("alt.dir-at-entry");
                    steps.push(format!("m,{dir}/{}/{rid}", &rid[..2]));
                } else if rng.chance(1, 2) {
                    // ... or a dangling symlink (gone with the next cache write / removal of that file)
                    stats.hit("alt.link-at-entry");
                    steps.push(format!("k,{dir}/{}/{rid}", &rid[..2]));
                } else {
                    // ... or a symlink to a foreign file of a size no version of that file ever has (a stale "entry")
                    stats.hit("alt.link-to-file-at-entry");
                    steps.push(format!("y,{dir}/{}/{rid},g{}.{}", &rid[..2], rng.below(1 << 30), 1000 + rng.below(1000)));
                }
            }
            match rng.below(5) {
                0 | 1 => {
                    stats.hit("alt.c-read-full");
                    steps.push(format!("r,c,{rt},{rid}"));
                }
                2 | 3 => {
                    stats.hit("alt.c-read-partial");
                    let off = rng.below(rlen as u64 + 1) as usize;
                    let l = if rng.chance(1, 5) { rlen - off + 1 } else { rng.below((rlen - off) as u64 + 1) as usize };
                    steps.push(format!("p,c,{rt},{rid},{},{off},{l}", cbf(rt, &rid)));
                }
                _ => {
                    stats.hit("alt.c-remove");
                    steps.push(format!("d,c,{rt},{rid},{}", cbf(rt, &rid)));
                    live.retain(|(a, b, _)| !(*a == rt && *b == rid));
                }
            }
        }
        for t in [1, 3, 4, 2] {
            steps.push(format!("l,c,{t}"));
        }
        steps.push("f".into());
        steps.push("b".into());
        ops.push(format!("c19 hist {}", steps.join(";")));
    }
    let n_hist = if thorough { 20000 } else { 500 };
    for _ in 0..n_hist {
        let n = if thorough { rng.range(4, 45) } else { rng.range(3, 25) } as usize;
        let mut pool: Vec<String> = Vec::new();
        let mut written: Vec<(u8, String, usize)> = Vec::new();
        let mut sizes_used: Vec<(u8, String, usize)> = Vec::new();
        // the data token of the last write of each key (to plant intact copies)
        let mut tokens: Vec<(u8, String, String)> = Vec::new();
        let mut steps: Vec<String> = Vec::new();
        let dirs = ["config", "index", "keys", "snapshots", "data"];
        for _ in 0..n {
            let t = *rng.pick(&[1u8, 1, 3, 3, 3, 4, 4, 2, 0]);
            let h = if rng.chance(2, 3) { "c" } else { "u" };
            // the cacheable flag of a pack is a function of the pack (tree pack or data pack): callers never write a
            // file as cacheable and remove or read it as non-cacheable, so the flag is derived from the id
            let cb_of = cbf;
            let fresh = |rng: &mut Rng, pool: &mut Vec<String>| {
                let id = if !pool.is_empty() && rng.chance(1, 5) {
                    // same two-character prefix as an existing id
                    format!("{}{}", &rng.pick(pool)[..2], &hex::encode(rng.bytes(32))[2..])
                } else {
                    hex::encode(rng.bytes(32))
                };
                pool.push(id.clone());
                id
            };
            let known = |rng: &mut Rng, written: &Vec<(u8, String, usize)>, pool: &mut Vec<String>, t: u8| -> (u8, String, usize) {
                if !written.is_empty() && rng.chance(5, 6) {
                    rng.pick(written).clone()
                } else if !pool.is_empty() && rng.chance(1, 2) {
                    (t, rng.pick(pool).clone(), 10)
                } else {
                    (t, hex::encode(rng.bytes(32)), 10)
                }
            };
            match rng.below(23) {
                22 => {
                    // the pack clean-up of `check` (1/4: against a list in which one pack has another size), then ranged reads of packs
                    let skew = if rng.chance(1, 4) { Some(rng.below(7) as usize) } else { None };
                    stats.hit(if skew.is_some() { "op.pack-cleanup.skewed-list" } else { "op.pack-cleanup" });
                    steps.push(format!("q,4,{}", pack_list(&written, skew)));
                    let packs: Vec<(u8, String, usize)> = written.iter().filter(|(a, _, l)| *a == 4 && *l > 0).cloned().collect();
                    for _ in 0..rng.below(3) {
                        if packs.is_empty() {
                            break;
                        }
                        let (_, id, len) = rng.pick(&packs).clone();
                        let off = rng.below(len as u64) as usize;
                        let l = 1 + rng.below((len - off) as u64) as usize;
                        stats.hit("op.read-partial.after-pack-cleanup");
                        steps.push(format!("p,c,4,{id},{},{off},{l}", cbf(4, &id)));
                    }
                }
                0..=4 => {
                    let mut len = *rng.pick(&[0usize, 1, 5, 33, 100, 100, 700, 5000]);
                    let id = if !written.is_empty() && rng.chance(1, 8) {
                        // an overwrite always changes the size: same-size different content under one id is outside
                        // the statement (ids are content hashes)
                        stats.hit("op.overwrite");
                        let (_, oid, _) = rng.pick(&written).clone();
                        oid
                    } else if !pool.is_empty() && rng.chance(1, 6) {
                        // an id seen before (read / removed / planted, e.g. a directory at its entry path) but possibly never written
                        stats.hit("op.write.pool-id");
                        rng.pick(&pool).clone()
                    } else {
                        fresh(rng, &mut pool)
                    };
                    // a size never used for this key before in the history — the cache may still hold ANY earlier version (written
                    // through the cached handle, then replaced / removed and re-created through the uncached one), and an
                    // earlier version of the same size with other bytes is outside the statement
                    len = unused_size(&sizes_used, t, &id, len);
                    sizes_used.push((t, id.clone(), len));
                    let data = if len > 64 { format!("g{}.{len}", rng.below(1 << 30)) } else { hex(&rng.bytes(len)) };
                    stats.hit(format!("op.write.{h}"));
                    written.retain(|(a, b, _)| !(*a == t && *b == id));
                    written.push((t, id.clone(), len));
                    tokens.retain(|(a, b, _)| !(*a == t && *b == id));
                    tokens.push((t, id.clone(), data.clone()));
                    steps.push(format!("w,{h},{t},{id},{},{data}", cb_of(t, &id)));
                }
                5 | 6 => {
                    let (t, id, _) = known(rng, &written, &mut pool, t);
                    stats.hit(format!("op.remove.{h}"));
                    written.retain(|(a, b, _)| !(*a == t && *b == id));
                    steps.push(format!("d,{h},{t},{id},{}", cb_of(t, &id)));
                }
                7..=9 => {
                    let (t, id, _) = known(rng, &written, &mut pool, t);
                    stats.hit(format!("op.read-full.{h}"));
                    steps.push(format!("r,{h},{t},{id}"));
                }
                10..=13 => {
                    let (t, id, len) = known(rng, &written, &mut pool, t);
                    let (off, l) = match rng.below(8) {
                        0 => (0, len),
                        1 => (len, 0),
                        2 => {
                            stats.hit("op.read-partial.past-end");
                            (rng.below(len as u64 + 1) as usize, len + 1)
                        }
                        3 => {
                            stats.hit("op.read-partial.past-end");
                            (len + 1, rng.below(2) as usize)
                        }
                        _ => {
                            let o = rng.below(len as u64 + 1) as usize;
                            (o, rng.below((len - o) as u64 + 1) as usize)
                        }
                    };
                    stats.hit(format!("op.read-partial.{h}"));
                    steps.push(format!("p,{h},{t},{id},{},{off},{l}", cb_of(t, &id)));
                }
                14..=16 => {
                    stats.hit(format!("op.list.{h}"));
                    steps.push(format!("l,{h},{t}"));
                }
                17..=19 => {
                    // damage the cache directory
                    let (t2, id, len) = known(rng, &written, &mut pool, t);
                    let dir = dirs[t2 as usize];
                    let proper = format!("{dir}/{}/{id}", &id[..2]);
                    match rng.below(23) {
                        20..=22 => {
                            // a foreign file (or a symlink to one) at the cache location of a file that is NEVER cached — config, key, data pack
                            // (`cacheable = false`) — of the file's own size, longer, or a cut copy; then whole and ranged reads of that file
                            // through both handles: the cached handle must not look into the cache for it
                            let never: Vec<(u8, String, usize)> =
                                written.iter().filter(|(a, b, _)| !matches!(*a, 1 | 3) && cb_of(*a, b) == 0).cloned().collect();
                            let (t3, id3, len3) = if !never.is_empty() && rng.chance(3, 4) {
                                rng.pick(&never).clone()
                            } else {
                                // (a new data pack / key / config file, written through either handle)
                                let t3 = *rng.pick(&[4u8, 4, 4, 2, 0]);
                                let id3 = format!("{}{}", rng.below(5), &hex::encode(rng.bytes(32))[1..]);
                                pool.push(id3.clone());
                                let len3 = unused_size(&sizes_used, t3, &id3, *rng.pick(&[1usize, 5, 33, 100, 700]));
                                sizes_used.push((t3, id3.clone(), len3));
                                let data = if len3 > 64 { format!("g{}.{len3}", rng.below(1 << 30)) } else { hex(&rng.bytes(len3)) };
                                written.push((t3, id3.clone(), len3));
                                tokens.push((t3, id3.clone(), data.clone()));
                                steps.push(format!("w,{h},{t3},{id3},0,{data}"));
                                (t3, id3, len3)
                            };
                            let proper = format!("{}/{}/{id3}", dirs[t3 as usize], &id3[..2]);
                            let n = match rng.below(4) {
                                0 => len3 + 1 + rng.below(9) as usize,
                                1 => len3 / 2,
                                _ => len3,
                            };
                            let data = if n > 64 || rng.chance(1, 2) { format!("g{}.{n}", rng.below(1 << 30)) } else { hex(&vec![0u8; n]) };
                            if rng.chance(3, 4) {
                                stats.hit("plant.foreign-at-noncacheable-entry");
                                steps.push(format!("s,{proper},{data}"));
                            } else {
                                stats.hit("plant.link-to-foreign-at-noncacheable-entry");
                                steps.push(format!("y,{proper},{data}"));
                            }
                            for hh in ["c", "u"] {
                                if rng.chance(2, 3) {
                                    stats.hit(format!("op.read-full.noncacheable-planted.{hh}"));
                                    steps.push(format!("r,{hh},{t3},{id3}"));
                                }
                                if len3 > 0 && rng.chance(4, 5) {
                                    stats.hit(format!("op.read-partial.noncacheable-planted.{hh}"));
                                    let off = rng.below(len3 as u64) as usize;
                                    let l = 1 + rng.below((len3 - off) as u64) as usize;
                                    steps.push(format!("p,{hh},{t3},{id3},0,{off},{l}"));
                                }
                            }
                        }
                        18 => {
                            // a SYMLINK TO A REGULAR FILE at the proper entry path: an intact copy of the last version written, or
                            // foreign bytes of a size no version has (a stale / wrong-sized "entry" that a listing must remove)
                            if let Some((_, _, tok)) = tokens.iter().find(|(a, b, _)| *a == t2 && *b == id).filter(|_| rng.chance(1, 3)) {
                                stats.hit("plant.link-to-copy-at-entry");
                                steps.push(format!("y,{proper},{tok}"));
                            } else {
                                stats.hit("plant.link-to-stale-at-entry");
                                let n = unused_size(&sizes_used, t2, &id, rng.below(200) as usize);
                                sizes_used.push((t2, id.clone(), n));
                                steps.push(format!("y,{proper},g{}.{n}", rng.below(1 << 30)));
                            }
                        }
                        19 => match rng.below(3) {
                            0 => {
                                // the next cache write of that id goes THROUGH the link and the link becomes the entry
                                stats.hit("plant.link-to-file-at-tmp-path");
                                steps.push(format!("y,{proper}-tmp-,0707"));
                            }
                            1 => {
                                stats.hit("plant.link-to-file-at-parent");
                                steps.push(format!("y,{dir}/{},01", &id[..2]));
                            }
                            _ => {
                                stats.hit("plant.link-to-stale-at-fresh-entry");
                                let id = fresh(rng, &mut pool);
                                let n = rng.below(300) as usize;
                                sizes_used.push((t2, id.clone(), n));
                                steps.push(format!("y,{dir}/{}/{id},g{}.{n}", &id[..2], rng.below(1 << 30)));
                            }
                        },
                        16 => {
                            // a regular FILE where a parent directory of the entry path belongs (`<type>/<xx>`, rarely `<type>`):
                            // nothing below can be cached any more (fails when the directory already exists)
                            if rng.chance(5, 6) {
                                stats.hit("plant.file-at-parent");
                                steps.push(format!("s,{dir}/{},0102", &id[..2]));
                            } else {
                                stats.hit("plant.file-at-type-dir");
                                steps.push(format!("s,{dir},01"));
                            }
                        }
                        17 => {
                            // ... or a dangling symlink
                            if rng.chance(5, 6) {
                                stats.hit("plant.link-at-parent");
                                steps.push(format!("k,{dir}/{}", &id[..2]));
                            } else {
                                stats.hit("plant.link-at-type-dir");
                                steps.push(format!("k,{dir}"));
                            }
                        }
                        13 => {
                            // a DANGLING SYMLINK at the proper entry path of a known id
                            stats.hit("plant.link-at-entry");
                            steps.push(format!("k,{proper}"));
                        }
                        14 => {
                            if rng.chance(1, 2) {
                                stats.hit("plant.link-at-fresh-entry");
                                let id = fresh(rng, &mut pool);
                                steps.push(format!("k,{dir}/{}/{id}", &id[..2]));
                            } else {
                                stats.hit("plant.link-at-tmp-path");
                                steps.push(format!("k,{proper}-tmp-"));
                            }
                        }
                        15 => {
                            if rng.chance(1, 2) {
                                stats.hit("plant.link-misplaced");
                                steps.push(format!("k,{dir}/{id}"));
                            } else {
                                stats.hit("plant.link-below-entry");
                                steps.push(format!("k,{proper}/sub"));
                            }
                        }
                        8 | 9 => {
                            // a DIRECTORY at the proper entry path of a known id (written, removed, or only read so far)
                            stats.hit("plant.dir-at-entry");
                            steps.push(format!("m,{proper}"));
                        }
                        10 => {
                            // ... of an id nothing was done with yet (it joins the pool: later written / read / removed)
                            stats.hit("plant.dir-at-fresh-entry");
                            let id = fresh(rng, &mut pool);
                            steps.push(format!("m,{dir}/{}/{id}", &id[..2]));
                        }
                        11 => {
                            // the entry cut to a PREFIX of itself (what an interrupted copy / a full disk leaves)
                            stats.hit("plant.cut-to-prefix");
                            // (preferably of a file the cache keeps)
                            let kept: Vec<(u8, String, usize)> =
                                written.iter().filter(|(a, b, l)| *l > 0 && (matches!(*a, 1 | 3) || cb_of(*a, b) == 1)).cloned().collect();
                            let (t2, id, len) = if kept.is_empty() { (t2, id, len) } else { rng.pick(&kept).clone() };
                            let proper = format!("{}/{}/{id}", dirs[t2 as usize], &id[..2]);
                            let mut cut = rng.below(len as u64 + 1) as usize;
                            // the cache may hold an OLDER version of this key than the repository: the cut must not produce an entry
                            // whose size equals the size of any version of this key (same size, other bytes is outside the statement)
                            while cut > 0 && sizes_used.iter().any(|(a, b, l)| *a == t2 && *b == id && *l == cut) {
                                cut -= 1;
                            }
                            // the cut entry is an entry of size `cut` with the OLD version's bytes: a later version of this key must
                            // not get that size (same size, other bytes is outside the statement)
                            sizes_used.push((t2, id.clone(), cut));
                            steps.push(format!("t,{proper},{cut}"));
                            if cut < len && rng.chance(2, 3) {
                                // ... and a ranged read through the cached handle that reaches beyond the cut
                                stats.hit("op.read-partial.beyond-cut");
                                let off = rng.below(cut as u64 + 1) as usize;
                                let end = cut + 1 + rng.below((len - cut) as u64) as usize;
                                steps.push(format!("p,c,{t2},{id},{},{off},{}", cb_of(t2, &id), end - off));
                            }
                        }
                        12 => match rng.below(3) {
                            0 => {
                                stats.hit("plant.dir-at-tmp-path");
                                steps.push(format!("m,{proper}-tmp-"));
                            }
                            1 => {
                                stats.hit("plant.dir-misplaced");
                                steps.push(format!("m,{dir}/{id}"));
                            }
                            _ => {
                                stats.hit("plant.dir-below-entry");
                                steps.push(format!("m,{proper}/sub"));
                            }
                        },
                        0 => {
                            stats.hit("plant.truncated");
                            // (planted bytes are random: no later version of that file may have their size — see `sizes_used`)
                            let n = unused_size(&sizes_used, t2, &id, len / 2);
                            sizes_used.push((t2, id.clone(), n));
                            steps.push(format!("s,{proper},g{}.{n}", rng.below(1 << 30)));
                        }
                        1 => {
                            stats.hit("plant.longer");
                            let n = unused_size(&sizes_used, t2, &id, len + 1 + rng.below(9) as usize);
                            sizes_used.push((t2, id.clone(), n));
                            steps.push(format!("s,{proper},g{}.{n}", rng.below(1 << 30)));
                        }
                        2 => {
                            stats.hit("plant.stale");
                            let id = fresh(rng, &mut pool);
                            let n = rng.below(300) as usize;
                            sizes_used.push((t2, id.clone(), n));
                            steps.push(format!("s,{dir}/{}/{id},g{}.{n}", &id[..2], rng.below(1 << 30)));
                        }
                        3 => {
                            stats.hit("plant.tmp-name");
                            steps.push(format!("s,{proper}-tmp-,0102"));
                        }
                        4 => {
                            stats.hit("plant.foreign-name");
                            steps.push(format!("s,{dir}/{}/{}.bak,0102", &id[..2], &id[..20]));
                        }
                        5 => {
                            stats.hit("plant.misplaced-id-name");
                            let id = hex::encode(rng.bytes(32));
                            steps.push(format!("s,{dir}/{id},010203"));
                        }
                        6 => {
                            stats.hit("plant.upper-name");
                            let id = hex::encode_upper(rng.bytes(32));
                            steps.push(format!("s,{dir}/{}/{id},010203", &id[..2]));
                        }
                        _ => {
                            stats.hit("plant.delete-entry");
                            steps.push(format!("x,{proper}"));
                        }
                    }
                }
                20 => steps.push("f".into()),
                _ => steps.push("b".into()),
            }
        }
        for t in [1, 3, 4, 2, 0] {
            steps.push(format!("l,c,{t}"));
        }
        steps.push("f".into());
        steps.push("b".into());
        stats.hit(format!("hist.len.{}", Stats::bucket(steps.len())));
        ops.push(format!("c19 hist {}", steps.join(";")));
    }
    let n_repo = if thorough { 200 } else { 6 };
    for _ in 0..n_repo {
        stats.hit("repo-level");
        ops.push(format!("c19 repo {}", rng.below(1 << 32)));
    }
}
