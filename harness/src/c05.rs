//! C05 — check is sound and complete w.r.t. restorability.
//!
//! One op line = one (possibly damaged) repository:
//!   `c05 chk <label> <abstract tokens…> | K:<masterkey-json-hex> x:<snapid>:<digest>… f:<type>:<id>:<hex>…`
//! * the tokens before `|` are the *abstract repository state* the Lean model of `commands/check.rs` works on
//!   (snapshot trees, index files, per stored pack: size / sha256 / trailer / parsed header / decrypt table,
//!   parsed trees; all ids interned to small numbers, 0 = null id);
//! * the tokens after `|` are the raw store the REAL `check(read_data)` and the real read-back run on.
//! `exec` recomputes the abstraction from the raw store (so a generator bug cannot hide) and prints
//!   `errs=<sorted Error-level finding kinds|none|cmd-err> restore=<ok|bad|->`   (`-` when errs != none)
//! or `oracle-fail:silent:<label-class>` when check is silent although a snapshot does not read back (`silent-dup` when the damage
//! is confined to redundant copies of blobs stored twice — open known finding).
//! The store bytes depend on random nonces, so generated lines differ between runs; every line is
//! self-contained and replays exactly.
use std::collections::{BTreeMap, BTreeSet};
use std::path::PathBuf;

use bytes::Bytes;
use sha2::{Digest, Sha256};

use crate::repo::{FILE_TYPES, MemBackend, MemSource, RepoHandle, SrcEntry, SrcKind, Store, ft_idx};
use crate::util::{Rng, Stats, hex, unhex};
use rustic_core::repofile::{
    BlobType, DeleteOption, FileType, IndexBlob, IndexFile, IndexPack, MasterKey, Metadata, Node, NodeType, SnapshotFile, Tree,
};
use rustic_core::verif::check as hk;
use rustic_core::{
    BackupOptions, CheckOptions, ConfigOptions, Id, IndexedFull, LsOptions, OpenStatus, ReadSource, ReadSourceEntry,
    Repository, RusticResult,
};

// ---------------------------------------------------------------------------------------------------------
// shared helpers (also used by c12 / c01)

pub fn sha(b: &[u8]) -> [u8; 32] {
    let d = Sha256::digest(b);
    let mut o = [0u8; 32];
    o.copy_from_slice(&d);
    o
}
pub fn sha_hex(b: &[u8]) -> String {
    hex::encode(sha(b))
}

/// open without the on-disk cache (a cache shared between cases would serve undamaged copies)
pub fn open_nc(h: &RepoHandle) -> RusticResult<Repository<OpenStatus>> {
    h.open_with(&RepoHandle::default_opts())
}

/// A source consisting of a single file at the snapshot root (what `backup -` produces): the root tree
/// holds the file node directly, so the tree pack holds *only a root tree*.
#[derive(Clone, Debug)]
pub struct SingleFileSource {
    pub name: String,
    pub content: Vec<u8>,
    /// distinct per backup: an unchanged (size, mtime, ctime) makes the archiver reuse the parent's content
    pub mtime_s: i64,
}
impl ReadSource for SingleFileSource {
    type Open = std::io::Cursor<Vec<u8>>;
    type Iter = std::vec::IntoIter<RusticResult<ReadSourceEntry<Self::Open>>>;
    fn size(&self) -> RusticResult<Option<u64>> {
        Ok(None)
    }
    fn entries(&self) -> Self::Iter {
        let mut e = SrcEntry::file(&[self.name.as_bytes()], &self.content);
        e.mtime_s = self.mtime_s;
        e.ctime_s = self.mtime_s;
        let node = MemSource::node_of(&e);
        vec![Ok(ReadSourceEntry { path: PathBuf::from(&self.name), node, open: Some(std::io::Cursor::new(self.content.clone())) })].into_iter()
    }
}

/// What `backup -` / `--stdin-command` really store: the node `ReadSourceEntry::from_path` builds — `Metadata::default()`, i.e.
/// recorded size 0 (no times, no inode) — with the whole stream as content.
#[derive(Clone, Debug)]
pub struct StdinSource {
    pub name: String,
    pub content: Vec<u8>,
}
impl ReadSource for StdinSource {
    type Open = std::io::Cursor<Vec<u8>>;
    type Iter = std::vec::IntoIter<RusticResult<ReadSourceEntry<Self::Open>>>;
    fn size(&self) -> RusticResult<Option<u64>> {
        Ok(None)
    }
    fn entries(&self) -> Self::Iter {
        let node = Node::new_node(std::ffi::OsStr::new(&self.name), NodeType::File, Metadata::default());
        vec![Ok(ReadSourceEntry { path: PathBuf::from(&self.name), node, open: Some(std::io::Cursor::new(self.content.clone())) })].into_iter()
    }
}

/// `MemSource` whose file nodes carry a recorded size that is NOT the length of what the archiver reads (a file that was
/// written between `stat` and the read, `/proc`-like files): path → recorded size.
#[derive(Clone, Debug)]
pub struct SizedSource {
    pub inner: MemSource,
    pub size_of: BTreeMap<Vec<Vec<u8>>, u64>,
}
impl ReadSource for SizedSource {
    type Open = std::io::Cursor<Vec<u8>>;
    type Iter = std::vec::IntoIter<RusticResult<ReadSourceEntry<Self::Open>>>;
    fn size(&self) -> RusticResult<Option<u64>> {
        Ok(None)
    }
    fn entries(&self) -> Self::Iter {
        // the root first, then `inner.entries` in their order
        let mut v: Vec<_> = self.inner.entries().collect();
        for (item, e) in v.iter_mut().skip(1).zip(&self.inner.entries) {
            if let (Ok(item), Some(sz)) = (item, self.size_of.get(&e.path)) {
                item.node.meta.size = *sz;
            }
        }
        v.into_iter()
    }
}

pub const MAX_READ_BACK_DEPTH: usize = 200;

/// canonical digest of everything below `tree` as read through `ls` + `dump`
pub fn tree_digest<S: IndexedFull>(repo: &Repository<S>, tree: rustic_core::TreeId) -> Result<String, String> {
    use std::os::unix::ffi::OsStrExt;
    let mut root = Node::new_node(std::ffi::OsStr::new(""), NodeType::Dir, Metadata::default());
    root.subtree = Some(tree);
    let mut h = Sha256::new();
    let it = repo.ls(&root, &LsOptions::default()).map_err(|e| crate::util::errkind(&e))?;
    for item in it {
        let (path, node) = item.map_err(|e| crate::util::errkind(&e))?;
        // The node streamer of ls / restore has no visited set: when damage makes a tree id yield the content of one of its
        // ancestors (the pack of a child tree overwritten by the same-layout pack of its parent) it descends for ever.  No
        // generated source is deeper than a dozen levels: such a snapshot does not read back.
        if path.components().count() > MAX_READ_BACK_DEPTH {
            return Err("tree-cycle".to_string());
        }
        h.update(path.as_os_str().as_bytes());
        h.update([0]);
        match &node.node_type {
            NodeType::File => {
                let mut buf = Vec::new();
                repo.dump(&node, &mut buf).map_err(|e| crate::util::errkind(&e))?;
                h.update(b"f");
                h.update(sha(&buf));
                h.update((buf.len() as u64).to_le_bytes());
            }
            NodeType::Dir => h.update(b"d"),
            NodeType::Symlink { .. } => {
                h.update(b"l");
                h.update(node.node_type.to_link().as_os_str().as_bytes());
            }
            _ => h.update(b"o"),
        }
        h.update(node.meta.mode.unwrap_or(0).to_le_bytes());
        h.update(node.meta.mtime.map(|t| t.as_second()).unwrap_or(0).to_le_bytes());
        h.update([0xff]);
    }
    let d = h.finalize();
    Ok(hex::encode(&d[..8]))
}

/// sha256 digests of all snapshots currently readable, keyed by snapshot id (hex)
pub fn all_digests(h: &RepoHandle) -> Result<BTreeMap<String, String>, String> {
    let repo = open_nc(h).map_err(|e| crate::util::errkind(&e))?;
    let snaps = repo.get_all_snapshots().map_err(|e| crate::util::errkind(&e))?;
    let repo = repo.to_indexed().map_err(|e| crate::util::errkind(&e))?;
    let mut out = BTreeMap::new();
    for s in snaps {
        let d = tree_digest(&repo, s.tree)?;
        _ = out.insert(s.id.to_hex().to_string(), d);
    }
    Ok(out)
}

pub fn store_tokens(key: &MasterKey, store: &Store) -> Vec<String> {
    let mut v = vec![format!("K:{}", hex(serde_json::to_string(key).unwrap().as_bytes()))];
    for ((t, id), b) in store {
        v.push(format!("f:{t}:{}:{}", id.to_hex().as_str(), hex(b)));
    }
    v
}

pub fn parse_store(toks: &[&str]) -> Option<(MasterKey, Store, BTreeMap<String, String>)> {
    let mut key = None;
    let mut store = Store::new();
    let mut exp = BTreeMap::new();
    for t in toks {
        if let Some(k) = t.strip_prefix("K:") {
            key = Some(serde_json::from_slice::<MasterKey>(&unhex(k)?).ok()?);
        } else if let Some(r) = t.strip_prefix("f:") {
            let p: Vec<&str> = r.split(':').collect();
            if p.len() != 3 {
                return None;
            }
            let ty: u8 = p[0].parse().ok()?;
            let id: Id = p[1].parse().ok()?;
            _ = store.insert((ty, id), Bytes::from(unhex(p[2])?));
        } else if let Some(r) = t.strip_prefix("x:") {
            let (a, b) = r.split_once(':')?;
            _ = exp.insert(a.to_string(), b.to_string());
        } else {
            return None;
        }
    }
    Some((key?, store, exp))
}

// ---------------------------------------------------------------------------------------------------------
// abstraction: raw store -> tokens of the abstract repository state

#[derive(Default)]
struct Interner(BTreeMap<String, usize>);
impl Interner {
    fn id(&mut self, hexid: &str) -> usize {
        if hexid.bytes().all(|b| b == b'0') {
            return 0;
        }
        let n = self.0.len() + 1;
        *self.0.entry(hexid.to_string()).or_insert(n)
    }
}

fn decode_file(key: &MasterKey, data: &[u8]) -> Option<Vec<u8>> {
    let d = hk::decrypt(key, data)?;
    match d.first() {
        Some(b'{' | b'[') => Some(d),
        Some(2) => hk::zstd_decode(&d[1..]),
        _ => None,
    }
}

fn files_of(store: &Store, t: FileType) -> Vec<(Id, Bytes)> {
    let ti = ft_idx(t);
    store.iter().filter(|((x, _), _)| *x == ti).map(|((_, id), b)| (*id, b.clone())).collect()
}

fn bt(t: BlobType) -> &'static str {
    match t {
        BlobType::Tree => "t",
        BlobType::Data => "d",
    }
}

fn blob_tok(it: &mut Interner, pre: &str, b: &IndexBlob) -> String {
    format!(
        "{pre}:{}:{}:{}:{}:{}",
        it.id(b.id.to_hex().as_str()),
        bt(b.tpe),
        b.location.offset,
        b.location.length,
        b.location.uncompressed_length.map_or("-".to_string(), |n| n.get().to_string())
    )
}

pub fn abstract_state(key: &MasterKey, store: &Store) -> Vec<String> {
    abstract_state_with(key, store, true)
}

/// `meta`: file nodes carry `:<size>:<links>:<inode>:<device>` (the recorded metadata, which check must not go by);
/// `false` = the token form of op lines written before these fields existed (corpus)
pub fn abstract_state_with(key: &MasterKey, store: &Store, meta: bool) -> Vec<String> {
    let mut it = Interner::default();
    let mut out = Vec::new();
    // snapshots
    let mut snaps_ok = true;
    let mut stoks = Vec::new();
    for (id, b) in files_of(store, FileType::Snapshot) {
        match decode_file(key, &b).and_then(|p| serde_json::from_slice::<SnapshotFile>(&p).ok()) {
            None => snaps_ok = false,
            Some(s) => {
                let auth = sha_hex(&b) == id.to_hex().as_str();
                // the delete mark of the snapshot file (`K` = delete-never, `A<unix seconds>` = delete-after); snapshots
                // without one keep the 3-field form
                let mark = match &s.delete {
                    DeleteOption::NotSet => String::new(),
                    DeleteOption::Never => ":K".to_string(),
                    DeleteOption::After(t) => format!(":A{}", t.timestamp().as_second()),
                };
                stoks.push(format!("s:{}:{}{mark}", it.id(s.tree.to_hex().as_str()), u8::from(auth)));
            }
        }
    }
    out.push(format!("S={}", u8::from(snaps_ok)));
    out.extend(stoks);
    // index files
    let mut index_ok = true;
    let mut itoks = Vec::new();
    let mut all_packs: Vec<IndexPack> = Vec::new();
    for (_id, b) in files_of(store, FileType::Index) {
        match decode_file(key, &b).and_then(|p| serde_json::from_slice::<IndexFile>(&p).ok()) {
            None => index_ok = false,
            Some(f) => {
                itoks.push("i".to_string());
                for (pre, list) in [("p", &f.packs), ("d", &f.packs_to_delete)] {
                    for p in list {
                        itoks.push(format!(
                            "{pre}:{}:{}:{}",
                            it.id(p.id.to_hex().as_str()),
                            u8::from(p.time.is_some()),
                            p.size.map_or("-".to_string(), |s| s.to_string())
                        ));
                        for b in &p.blobs {
                            itoks.push(blob_tok(&mut it, "b", b));
                        }
                        all_packs.push(p.clone());
                    }
                }
            }
        }
    }
    out.push(format!("I={}", u8::from(index_ok)));
    out.extend(itoks);
    // stored pack files
    let mut trees: BTreeMap<usize, Vec<String>> = BTreeMap::new();
    for (id, data) in files_of(store, FileType::Pack) {
        let size = data.len();
        let idhex = id.to_hex();
        let trailer = if size >= 4 { hk::parse_header_length(&data[size - 4..]) } else { None };
        let header = trailer.and_then(|t| {
            let t = t as usize;
            if t + 4 > size {
                return None;
            }
            hk::decrypt(key, &data[size - 4 - t..size - 4]).and_then(|h| hk::parse_header(&h))
        });
        out.push(format!(
            "F:{}:{}:{}:{}:{}",
            it.id(idhex.as_str()),
            size,
            it.id(&sha_hex(&data)),
            trailer.map_or("-".to_string(), |t| t.to_string()),
            if header.is_some() { "H" } else { "X" }
        ));
        for b in header.iter().flatten() {
            out.push(blob_tok(&mut it, "h", b));
        }
        // every byte range the model may ask for: index locations and sequential positions
        let mut ranges: BTreeSet<(u32, u32, bool)> = BTreeSet::new();
        for p in all_packs.iter().filter(|p| p.id.to_hex().as_str() == idhex.as_str()) {
            let mut bl = p.blobs.clone();
            bl.sort_by_key(|b| b.location.offset); // stable, like the model's insertion sort
            let mut pos: u64 = 0;
            for b in &bl {
                let c = b.location.uncompressed_length.is_some();
                _ = ranges.insert((b.location.offset, b.location.length, c));
                if pos <= u64::from(u32::MAX) {
                    _ = ranges.insert((pos as u32, b.location.length, c));
                }
                pos += u64::from(b.location.length);
            }
        }
        for (off, len, c) in ranges {
            let (o, l) = (off as usize, len as usize);
            let res = if o + l > size {
                "M".to_string()
            } else {
                match hk::decrypt(key, &data[o..o + l]) {
                    None => "M".to_string(),
                    Some(raw) => {
                        let plain = if c { hk::zstd_decode(&raw) } else { Some(raw) };
                        match plain {
                            None => "Z".to_string(),
                            Some(p) => {
                                let h = it.id(&sha_hex(&p));
                                if let Ok(t) = serde_json::from_slice::<Tree>(&p) {
                                    let toks = t
                                        .nodes
                                        .iter()
                                        .map(|n| {
                                            let k = match n.node_type {
                                                NodeType::File => "f",
                                                NodeType::Dir => "d",
                                                _ => "o",
                                            };
                                            let st = n.subtree.map_or("-".to_string(), |s| it.id(s.to_hex().as_str()).to_string());
                                            let ct = match &n.content {
                                                None => "-".to_string(),
                                                Some(c) if c.is_empty() => "e".to_string(),
                                                Some(c) => c.iter().map(|d| it.id(d.to_hex().as_str()).to_string()).collect::<Vec<_>>().join(","),
                                            };
                                            if meta && matches!(n.node_type, NodeType::File) {
                                                format!("n:{k}:{st}:{ct}:{}:{}:{}:{}", n.meta.size, n.meta.links, n.meta.inode, n.meta.device_id)
                                            } else {
                                                format!("n:{k}:{st}:{ct}")
                                            }
                                        })
                                        .collect();
                                    _ = trees.insert(h, toks);
                                }
                                format!("{h}:{}", p.len())
                            }
                        }
                    }
                }
            };
            out.push(format!("r:{off}:{len}:{}:{res}", u8::from(c)));
        }
    }
    for (h, toks) in trees {
        out.push(format!("T:{h}"));
        out.extend(toks);
    }
    out
}

// ---------------------------------------------------------------------------------------------------------
// real code: check + read-back

const WALK_KINDS: [&str; 6] =
    ["FileHasNoContent", "FileBlobHasNullId", "FileBlobNotInIndex", "NoSubTree", "NullSubTree", "SubTreeMissingInIndex"];

/// Error-level finding kinds of the real `check(read_data)`; `Err` = the command itself failed.
/// A panic is the finding kind `Panic` — except the timing artefact `index still in use` (`GlobalIndex::
/// into_index` waits 100 ms for the tree-loader threads to drop their index clones and panics if a loaded
/// machine needs longer), which is retried.
pub fn real_check(h: &RepoHandle) -> Result<BTreeSet<String>, String> {
    for _attempt in 0..5 {
        let h2 = h.clone();
        let r = std::panic::catch_unwind(std::panic::AssertUnwindSafe(move || -> Result<BTreeSet<String>, String> {
            let repo = open_nc(&h2).map_err(|e| crate::util::errkind(&e))?;
            let res = repo.check(CheckOptions::default().read_data(true)).map_err(|e| crate::util::errkind(&e))?;
            Ok(hk::findings(&res).into_iter().filter(|(e, _)| *e).map(|(_, n)| n).collect())
        }));
        match r {
            Ok(x) => return x,
            Err(e) => {
                let msg = e.downcast_ref::<&str>().map(|s| (*s).to_string()).or_else(|| e.downcast_ref::<String>().cloned()).unwrap_or_default();
                if std::env::var("VH_DEBUG").is_ok() {
                    eprintln!("check panicked: {msg}");
                }
                if !msg.contains("index still in use") {
                    return Ok(BTreeSet::from(["Panic".to_string()]));
                }
            }
        }
    }
    Ok(BTreeSet::from(["Panic".to_string()]))
}

pub fn canon_errs(mut e: BTreeSet<String>) -> String {
    if e.contains("ErrorCheckingTrees") {
        // which trees were processed before the abort depends on thread timing
        e.retain(|k| !WALK_KINDS.contains(&k.as_str()));
    }
    if e.is_empty() { "none".to_string() } else { e.into_iter().collect::<Vec<_>>().join(",") }
}

/// do all snapshots present in the store read back as recorded?
pub fn real_restore_ok(h: &RepoHandle, expected: &BTreeMap<String, String>) -> bool {
    let h2 = h.clone();
    let expected = expected.clone();
    std::panic::catch_unwind(std::panic::AssertUnwindSafe(move || match all_digests(&h2) {
        Err(_) => false,
        Ok(got) => got.iter().all(|(id, d)| expected.get(id) == Some(d)),
    }))
    .unwrap_or(false)
}

/// Do all snapshot files the BACKEND lists load, and read back as recorded?  (The listing of the backend, not
/// `get_all_snapshots`: a reader that skips files it cannot load would hide exactly the damaged ones.)  A snapshot
/// file that cannot be loaded is a snapshot that cannot be restored.
pub fn real_restore_listed_ok(h: &RepoHandle, expected: &BTreeMap<String, String>) -> bool {
    let h2 = h.clone();
    let expected = expected.clone();
    std::panic::catch_unwind(std::panic::AssertUnwindSafe(move || {
        let ids = h2.be.ids(FileType::Snapshot);
        let Ok(repo) = open_nc(&h2) else { return false };
        let mut snaps = Vec::new();
        for id in ids {
            let hexid = id.to_hex().to_string();
            match repo.get_snapshot_from_str(&hexid, |_| true) {
                Ok(s) => snaps.push((hexid, s)),
                Err(_) => return false,
            }
        }
        let Ok(repo) = repo.to_indexed() else { return false };
        snaps.iter().all(|(id, s)| match tree_digest(&repo, s.tree) {
            Ok(d) => expected.get(id) == Some(&d),
            Err(_) => false,
        })
    }))
    .unwrap_or(false)
}

const INDEX_KINDS: [&str; 5] = ["PackTimeNotSet", "PackBlobTypesMismatch", "PackBlobOffsetMismatch", "PackSizeMismatchIndex", "NoPack"];

/// Does some blob key have two *different* index entries among the live packs?  Then which one the real
/// index returns (binary search over an unstable parallel sort of entries streamed in completion order) is
/// not determined, and only the index-level findings are compared with the model (the oracle stays on).
pub fn ambiguous(key: &MasterKey, store: &Store) -> bool {
    let mut seen: BTreeMap<(&'static str, String), (String, u32, u32, Option<u32>)> = BTreeMap::new();
    for (_, b) in files_of(store, FileType::Index) {
        let Some(f) = decode_file(key, &b).and_then(|p| serde_json::from_slice::<IndexFile>(&p).ok()) else { continue };
        for p in &f.packs {
            let pt = bt(p.blob_type());
            for bl in &p.blobs {
                let v = (p.id.to_hex().to_string(), bl.location.offset, bl.location.length, bl.location.uncompressed_length.map(std::num::NonZeroU32::get));
                match seen.get(&(pt, bl.id.to_hex().to_string())) {
                    Some(old) if *old != v => return true,
                    Some(_) => {}
                    None => _ = seen.insert((pt, bl.id.to_hex().to_string()), v),
                }
            }
        }
    }
    false
}

/// cases that did not come back within the time limit so far (their threads are still parked somewhere)
static HUNG_CASES: std::sync::atomic::AtomicUsize = std::sync::atomic::AtomicUsize::new(0);

/// time limit of ONE case (a case takes milliseconds; `check` and the read-back run on threads — tree loaders, the shared
/// rayon pool — so a lost wake-up or a dead worker would otherwise block the whole run until `./check` kills it, without
/// an observation): 60 s, 15 s once a case has hung (`VH_C05_CASE_TIMEOUT_S` overrides the first)
fn case_timeout() -> std::time::Duration {
    let first = std::env::var("VH_C05_CASE_TIMEOUT_S").ok().and_then(|v| v.parse().ok()).unwrap_or(60u64);
    std::time::Duration::from_secs(crate::util::load_factor() * if HUNG_CASES.load(std::sync::atomic::Ordering::SeqCst) == 0 { first } else { first.min(15) })
}

/// Is the damage confined to REDUNDANT copies — is some live pack missing or not the bytes its name says, while every blob any
/// such pack holds has another live index entry in an undamaged pack?  (A backup can store one chunk twice — two files of equal
/// content handled by different packer threads.)  Check reads the one copy its own index look-up returns; a reader whose index
/// was sorted differently may be handed the other one: open known finding (`oracle-fail:silent-dup`).
pub fn redundant_copy_damaged(key: &MasterKey, store: &Store) -> bool {
    let mut live: Vec<IndexPack> = Vec::new();
    for (_, b) in files_of(store, FileType::Index) {
        if let Some(f) = decode_file(key, &b).and_then(|p| serde_json::from_slice::<IndexFile>(&p).ok()) {
            live.extend(f.packs);
        }
    }
    let damaged = |p: &IndexPack| match store.get(&(ft_idx(FileType::Pack), *p.id)) {
        None => true,
        Some(data) => sha_hex(data) != p.id.to_hex().as_str(),
    };
    let bad: Vec<&IndexPack> = live.iter().filter(|p| damaged(p)).collect();
    !bad.is_empty()
        && bad.iter().all(|p| {
            p.blobs.iter().all(|b| live.iter().any(|q| q.id != p.id && !damaged(q) && q.blob_type() == p.blob_type() && q.blobs.iter().any(|c| c.id == b.id)))
        })
}

pub fn exec(toks: &[&str]) -> String {
    if toks.len() < 3 || toks[0] != "chk" {
        return "bad-op".into();
    }
    let label = toks[1];
    let class = label.split('.').take(2).collect::<Vec<_>>().join(".");
    let Some(bar) = toks.iter().position(|t| *t == "|") else { return "bad-op".into() };
    let abs: Vec<String> = toks[2..bar].iter().map(|s| (*s).to_string()).collect();
    let Some((key, store, expected)) = parse_store(&toks[bar + 1..]) else { return "bad-op".into() };
    // Every case runs on a thread of its own under a watchdog: it ends with an observation, never with a hang.  After three
    // hung cases the shared pools may be blocked for good; the rest of the run is answered at once (and loudly).
    if HUNG_CASES.load(std::sync::atomic::Ordering::SeqCst) >= 3 {
        return format!("oracle-fail:hang:not-run-after-3-hung-cases:{class}");
    }
    let (tx, rx) = std::sync::mpsc::channel::<String>();
    // 1 = in `check`, 2 = in the read-back (which starts only after a CLEAN check)
    let phase = std::sync::Arc::new(std::sync::atomic::AtomicU8::new(0));
    let phase2 = phase.clone();
    let spawned = std::thread::Builder::new().name("c05-case".into()).stack_size(16 << 20).spawn(move || {
        _ = tx.send(exec_case(abs, key, store, expected, &phase2));
    });
    if spawned.is_err() {
        return "panic:cannot-spawn-case-thread".into();
    }
    let out = match rx.recv_timeout(case_timeout()) {
        Ok(out) => out,
        Err(std::sync::mpsc::RecvTimeoutError::Timeout) => {
            _ = HUNG_CASES.fetch_add(1, std::sync::atomic::Ordering::SeqCst);
            return if phase.load(std::sync::atomic::Ordering::SeqCst) == 2 {
                // check came back clean and reading the snapshots back does not end: silent damage
                format!("oracle-fail:silent:{class}:read-back-never-ends")
            } else {
                format!("oracle-fail:hang:check:{class}")
            };
        }
        Err(std::sync::mpsc::RecvTimeoutError::Disconnected) => "panic:case-thread-died".to_string(),
    };
    if out == "oracle-fail:silent" || out == "oracle-fail:silent-dup" { format!("{out}:{class}") } else { out }
}

fn exec_case(abs: Vec<String>, key: MasterKey, store: Store, expected: BTreeMap<String, String>, phase: &std::sync::atomic::AtomicU8) -> String {
    crate::util::guarded(move || {
        let h = RepoHandle { be: MemBackend::from_store(store.clone()), hot: None, key: key.clone() };
        // op lines from before the metadata fields (corpus): file-node tokens have 4 fields
        let old_form = abs.iter().any(|t| t.starts_with("n:f:") && t.split(':').count() == 4);
        if abstract_state_with(&key, &store, !old_form) != abs {
            return "oracle-fail:abstraction-mismatch".to_string();
        }
        phase.store(1, std::sync::atomic::Ordering::SeqCst);
        let raw = real_check(&h);
        let errs = match &raw {
            Ok(e) => canon_errs(e.clone()),
            Err(_) => "cmd-err".to_string(),
        };
        // The read-back verdict matters only when check is clean (see below), and only then is it computed: on a repository
        // that check reports as damaged the readers need not even terminate (a tree id that yields the content of its own
        // parent sends `ls` / restore, which keep no visited set, down an endless path — this, not the seeded change, is what
        // made the first run on seed C05-7 hang for 900 s: the read-back used to run unconditionally).
        phase.store(2, std::sync::atomic::Ordering::SeqCst);
        let ok = errs != "none" || real_restore_listed_ok(&h, &expected);
        if errs == "none" && !ok {
            return if redundant_copy_damaged(&key, &store) { "oracle-fail:silent-dup".to_string() } else { "oracle-fail:silent".to_string() };
        }
        if ambiguous(&key, &store) {
            let e1 = match raw {
                Ok(mut e) => {
                    e.retain(|k| INDEX_KINDS.contains(&k.as_str()));
                    canon_errs(e)
                }
                Err(_) => "cmd-err".to_string(),
            };
            return format!("ambig errs={e1}");
        }
        // The restore verdict is compared with the model's only when check is clean: the model's verdict is the
        // *authentic* restore (every blob read hashes to its id), the real read-back compares content, and reported
        // damage can leave the content intact (two tree packs of identical layout exchanged on a path of even depth
        // cancel out). With errs = none the two coincide (theorem restore side: check_sound).
        if errs != "none" {
            return format!("errs={errs} restore=-");
        }
        format!("errs={errs} restore={}", if ok { "ok" } else { "bad" })
    })
}

// ---------------------------------------------------------------------------------------------------------
// generator: real histories, then every fault kind on every stored file

fn content(rng: &mut Rng, n: usize) -> Vec<u8> {
    match rng.below(4) {
        0 => vec![0; n],
        1 => {
            let pl = 1 + rng.below(40) as usize;
            let p = rng.bytes(pl);
            (0..n).map(|i| p[i % p.len()]).collect()
        }
        _ => rng.bytes(n),
    }
}

fn tree_source(rng: &mut Rng, stats: &mut Stats) -> MemSource {
    let n = 1 + rng.below(5) as usize;
    let mut es = Vec::new();
    for i in 0..n {
        let depth = rng.below(3) as usize;
        let mut path: Vec<Vec<u8>> = (0..depth).map(|d| format!("d{}", (i + d) % 2).into_bytes()).collect();
        path.push(format!("f{i}").into_bytes());
        let len = *rng.pick(&[0usize, 1, 40, 700, 3000, 9000]);
        stats.hit(format!("file.len.{}", Stats::bucket(len)));
        let c = content(rng, len);
        let refs: Vec<&[u8]> = path.iter().map(Vec::as_slice).collect();
        es.push(SrcEntry::file(&refs, &c));
    }
    if rng.chance(1, 3) {
        es.push(SrcEntry::dir(&[b"empty"]));
    }
    if rng.chance(1, 3) {
        let mut l = SrcEntry::file(&[b"link"], b"");
        l.kind = SrcKind::Symlink(b"f0".to_vec());
        es.push(l);
    }
    MemSource::new(es)
}

pub struct Built {
    pub h: RepoHandle,
    pub expected: BTreeMap<String, String>,
}

/// init a repository; `v1` = repository format version 1 (no compression), which `init` + `ConfigOptions`
/// cannot produce (it refuses the downgrade), so the config file is built directly
pub fn init_repo(cfg: &ConfigOptions, v1: bool) -> Option<RepoHandle> {
    let dbg = |e: &rustic_core::RusticError| {
        if std::env::var("VH_DEBUG").is_ok() {
            eprintln!("init failed: {} cfg={cfg:?}", crate::util::errkind(e));
        }
    };
    if !v1 {
        return RepoHandle::init(MemBackend::new(), None, cfg).map_err(|e| dbg(&e)).ok().map(|x| x.0);
    }
    let h = RepoHandle { be: MemBackend::new(), hot: None, key: MasterKey::new() };
    let mut config = rustic_core::repofile::ConfigFile::new(1, Id::random().into(), 0x003D_A335_8B4D_C173);
    cfg.apply(&mut config).map_err(|e| dbg(&e)).ok()?;
    let repo = Repository::new(&RepoHandle::default_opts(), &h.backends()).map_err(|e| dbg(&e)).ok()?;
    _ = repo
        .init_with_config(&rustic_core::Credentials::Masterkey(h.key.clone()), &rustic_core::KeyOptions::default(), config)
        .map_err(|e| dbg(&e))
        .ok()?;
    Some(h)
}

pub fn cfg_opts(rng: &mut Rng, stats: &mut Stats) -> (ConfigOptions, bool) {
    let mut c = ConfigOptions::default();
    let v2 = rng.chance(2, 3);
    stats.hit(if v2 { "cfg.v2" } else { "cfg.v1" });
    if v2 {
        let lvl = *rng.pick(&[0i32, 1, 3, -3, 10]);
        c.set_compression = Some(lvl);
    }
    // tiny packs so that several packs of each type exist
    if rng.chance(2, 3) {
        c.set_datapack_size = Some(bytesize::ByteSize(*rng.pick(&[1u64, 2000, 6000])));
        c.set_treepack_size = Some(bytesize::ByteSize(*rng.pick(&[1u64, 500, 4000])));
        stats.hit("cfg.tiny-packs");
    }
    if rng.chance(1, 2) {
        c.set_chunker = Some(rustic_core::repofile::Chunker::FixedSize);
        c.set_chunk_size = Some(bytesize::ByteSize(*rng.pick(&[512u64, 1024, 4096])));
        stats.hit("cfg.fixed-chunker");
    }
    (c, !v2)
}

/// DESIGN §7 #11: two stdin-style backups of equal length, compression off: two same-size tree packs holding
/// only a root tree each.
pub fn build_stdin_pair(stats: &mut Stats, v1: bool) -> Option<Built> {
    let mut cfg = ConfigOptions::default();
    if !v1 {
        cfg.set_compression = Some(0);
    }
    let h = init_repo(&cfg, v1)?;
    for (k, c) in [b"AAAAA", b"BBBBB"].iter().enumerate() {
        let repo = open_nc(&h).ok()?.to_indexed_ids().ok()?;
        let s = SingleFileSource { name: "stdin".into(), content: c.to_vec(), mtime_s: 1_600_000_000 + k as i64 };
        _ = repo.archive(&BackupOptions::default(), &s, SnapshotFile::default(), &[PathBuf::from("stdin")]).ok()?;
    }
    stats.hit("repo.stdin-pair");
    let expected = all_digests(&h).ok()?;
    Some(Built { h, expected })
}

/// A file node that carries a `subtree` (no archiver of rustic writes one, but `ReadSource` is a public trait and the
/// archiver stores the node as it comes; the node streamers of ls / restore follow the subtree of *any* node).
#[derive(Clone, Debug)]
pub struct FileWithSubtreeSource {
    pub name: String,
    pub content: Vec<u8>,
    pub mtime_s: i64,
    pub subtree: rustic_core::TreeId,
}
impl ReadSource for FileWithSubtreeSource {
    type Open = std::io::Cursor<Vec<u8>>;
    type Iter = std::vec::IntoIter<RusticResult<ReadSourceEntry<Self::Open>>>;
    fn size(&self) -> RusticResult<Option<u64>> {
        Ok(None)
    }
    fn entries(&self) -> Self::Iter {
        let mut e = SrcEntry::file(&[self.name.as_bytes()], &self.content);
        e.mtime_s = self.mtime_s;
        e.ctime_s = self.mtime_s;
        let mut node = MemSource::node_of(&e);
        node.subtree = Some(self.subtree);
        vec![Ok(ReadSourceEntry { path: PathBuf::from(&self.name), node, open: Some(std::io::Cursor::new(self.content.clone())) })].into_iter()
    }
}

/// Two same-size tree packs holding one tree each (as in `build_stdin_pair`), whose snapshots are then forgotten; a
/// third snapshot reaches the first tree only through the `subtree` of a *file* node.
pub fn build_file_subtree(stats: &mut Stats, v1: bool) -> Option<Built> {
    let mut cfg = ConfigOptions::default();
    if !v1 {
        cfg.set_compression = Some(0);
    }
    let h = init_repo(&cfg, v1)?;
    let mut snaps = vec![];
    for (k, c) in [b"AAAAA", b"BBBBB"].iter().enumerate() {
        let repo = open_nc(&h).ok()?.to_indexed_ids().ok()?;
        let s = SingleFileSource { name: "stdin".into(), content: c.to_vec(), mtime_s: 1_600_000_000 + k as i64 };
        snaps.push(repo.archive(&BackupOptions::default(), &s, SnapshotFile::default(), &[PathBuf::from("stdin")]).ok()?);
    }
    let repo = open_nc(&h).ok()?.to_indexed_ids().ok()?;
    let s = FileWithSubtreeSource { name: "odd".into(), content: b"CCCCCCC".to_vec(), mtime_s: 1_600_000_009, subtree: snaps[0].tree };
    _ = repo.archive(&BackupOptions::default(), &s, SnapshotFile::default(), &[PathBuf::from("odd")]).ok()?;
    let repo = open_nc(&h).ok()?;
    repo.delete_snapshots(&[snaps[0].id, snaps[1].id]).ok()?;
    stats.hit("repo.file-node-with-subtree");
    let expected = all_digests(&h).ok()?;
    Some(Built { h, expected })
}

pub fn build_repo(rng: &mut Rng, stats: &mut Stats, force_stdin: bool) -> Option<Built> {
    let (cfg, v1) = cfg_opts(rng, stats);
    let Some(h) = init_repo(&cfg, v1) else {
        return None;
    };
    let n_backups = 1 + rng.below(3) as usize;
    let mut src = tree_source(rng, stats);
    for k in 0..n_backups {
        let repo = open_nc(&h).ok()?.to_indexed_ids().ok()?;
        let snap = SnapshotFile::default();
        if force_stdin || rng.chance(1, 3) {
            stats.hit("backup.stdin-style");
            let sl = *rng.pick(&[5usize, 5, 300, 5000]);
            let s = SingleFileSource { name: "stdin".into(), content: content(rng, sl), mtime_s: 1_600_000_100 + k as i64 };
            _ = repo.archive(&BackupOptions::default(), &s, snap, &[PathBuf::from("stdin")]).ok()?;
        } else {
            stats.hit("backup.tree");
            _ = repo.archive(&BackupOptions::default(), &src, snap, &[PathBuf::from(crate::repo::SRC_ROOT)]).ok()?;
            // evolve the source
            let mut es = src.entries.clone();
            es.retain(|e| !matches!(e.kind, SrcKind::Dir));
            let el = 1 + rng.below(2500) as usize;
            let extra = content(rng, el);
            es.push(SrcEntry::file(&[format!("n{k}").as_bytes()], &extra));
            if es.len() > 2 && rng.chance(1, 2) {
                _ = es.remove(0);
            }
            src = MemSource::new(es);
        }
    }
    let expected = all_digests(&h).ok()?;
    Some(Built { h, expected })
}

/// data-pack sizes small enough that the contents of different backups / files land in packs of their own
fn meta_cfg(rng: &mut Rng, stats: &mut Stats) -> (ConfigOptions, bool) {
    let mut c = ConfigOptions::default();
    let v2 = rng.chance(2, 3);
    stats.hit(if v2 { "cfg.v2" } else { "cfg.v1" });
    if v2 {
        c.set_compression = Some(*rng.pick(&[0i32, 3, -3]));
    }
    if rng.chance(1, 2) {
        c.set_datapack_size = Some(bytesize::ByteSize(*rng.pick(&[1u64, 2000])));
        c.set_treepack_size = Some(bytesize::ByteSize(*rng.pick(&[1u64, 500])));
        stats.hit("cfg.tiny-packs");
    }
    c.set_chunker = Some(rustic_core::repofile::Chunker::FixedSize);
    c.set_chunk_size = Some(bytesize::ByteSize(*rng.pick(&[512u64, 1024, 4096])));
    (c, !v2)
}

/// REAL stdin-style snapshots (file node with recorded size 0 and real content — `StdinSource`), two or three of them with
/// contents of different lengths (one chunk … several chunks), optionally an ordinary tree backup in between; every data pack
/// of the repository then holds content that only a size-0 node refers to.
pub fn build_stdin_real(rng: &mut Rng, stats: &mut Stats) -> Option<Built> {
    let (cfg, v1) = meta_cfg(rng, stats);
    let h = init_repo(&cfg, v1)?;
    let n = 2 + rng.below(2) as usize;
    for k in 0..n {
        let repo = open_nc(&h).ok()?.to_indexed_ids().ok()?;
        let len = *rng.pick(&[5usize, 300, 3000, 9000]);
        let s = StdinSource { name: "stdin".into(), content: rng.bytes(len) };
        stats.hit(format!("backup.stdin-real.len.{}", Stats::bucket(len)));
        // `backup -` sets `parent_opts.force` ("for stdin, use no parent"): the node has neither size nor times to compare
        let bo = BackupOptions::default().parent_opts(rustic_core::ParentOptions::default().force(true));
        _ = repo.archive(&bo, &s, SnapshotFile::default(), &[PathBuf::from("stdin")]).ok()?;
        if k == 0 && rng.chance(1, 2) {
            let repo = open_nc(&h).ok()?.to_indexed_ids().ok()?;
            let src = tree_source(rng, stats);
            stats.hit("backup.tree");
            _ = repo.archive(&BackupOptions::default(), &src, SnapshotFile::default(), &[PathBuf::from(crate::repo::SRC_ROOT)]).ok()?;
        }
    }
    stats.hit("repo.stdin-real(size-0-nodes-with-content)");
    let expected = all_digests(&h).ok()?;
    Some(Built { h, expected })
}

/// Files whose recorded size differs from the length of their content: size 0 with content, size smaller / larger than the
/// content, an empty file recorded with a size — next to ordinary files; two backups (the second with other contents).
pub fn build_size_mismatch(rng: &mut Rng, stats: &mut Stats) -> Option<Built> {
    let (cfg, v1) = meta_cfg(rng, stats);
    let h = init_repo(&cfg, v1)?;
    for k in 0..2u64 {
        let mut es = Vec::new();
        let mut size_of = BTreeMap::new();
        let specs: [(&[u8], usize, Option<u64>); 5] =
            [(b"zero", *rng.pick(&[40usize, 700, 3000]), Some(0)), (b"grew", 2500, Some(1)), (b"shrank", 600, Some(100_000)), (b"empty", 0, Some(10)), (b"plain", 900, None)];
        for (name, len, rec) in specs {
            let mut e = SrcEntry::file(&[b"d", name], &rng.bytes(len));
            e.mtime_s += k as i64;
            e.ctime_s = e.mtime_s;
            if let Some(r) = rec {
                _ = size_of.insert(e.path.clone(), r);
                stats.hit(if r == 0 { "file.recorded-size-0-with-content" } else if (r as usize) < len { "file.recorded-size-smaller" } else { "file.recorded-size-larger" });
            }
            es.push(e);
        }
        let src = SizedSource { inner: MemSource::new(es), size_of };
        let repo = open_nc(&h).ok()?.to_indexed_ids().ok()?;
        _ = repo.archive(&BackupOptions::default(), &src, SnapshotFile::default(), &[PathBuf::from(crate::repo::SRC_ROOT)]).ok()?;
    }
    stats.hit("repo.size-mismatch");
    let expected = all_digests(&h).ok()?;
    Some(Built { h, expected })
}

/// A hardlinked file (two names, links = 2, one inode) that is overwritten IN PLACE between backups: inode and link count
/// stay, the content is new (2–3 backups; optionally the inode number is reused by a different file in the last one).
/// (device, inode) identifies a file only within one snapshot.
pub fn build_hardlink_history(rng: &mut Rng, stats: &mut Stats) -> Option<Built> {
    let (cfg, v1) = meta_cfg(rng, stats);
    let h = init_repo(&cfg, v1)?;
    let n = 2 + rng.below(2);
    let inode = 77 + rng.below(1000);
    let deep = rng.chance(1, 2);
    // an ordinary file that never changes, backed up first on its own: its chunk is stored once, so the data packs of the
    // following backups hold ONLY the content of the hardlinked file as it was at that time
    let single = SrcEntry::file(&[b"single"], &rng.bytes(100));
    {
        let repo = open_nc(&h).ok()?.to_indexed_ids().ok()?;
        _ = repo.archive(&BackupOptions::default(), &MemSource::new(vec![single.clone()]), SnapshotFile::default(), &[PathBuf::from(crate::repo::SRC_ROOT)]).ok()?;
    }
    for k in 0..n {
        let len = *rng.pick(&[40usize, 700, 3000]);
        let c = rng.bytes(len);
        let reuse = k == n - 1 && n == 3 && rng.chance(1, 2);
        let names: [&[u8]; 2] = if reuse { [b"other1", b"other2"] } else { [b"f", b"g"] };
        let mut es = Vec::new();
        for name in names {
            // later versions optionally live deeper in the tree (the order in which trees are streamed differs)
            let path: Vec<&[u8]> = if deep && k > 0 { vec![b"srv", b"backup", b"hosts", b"alpha", name] } else { vec![name] };
            let mut e = SrcEntry::file(&path, &c);
            e.inode = inode;
            e.links = 2;
            e.mtime_s += k as i64;
            e.ctime_s = e.mtime_s;
            es.push(e);
        }
        es.push(single.clone());
        let src = MemSource::new(es);
        let repo = open_nc(&h).ok()?.to_indexed_ids().ok()?;
        _ = repo.archive(&BackupOptions::default(), &src, SnapshotFile::default(), &[PathBuf::from(crate::repo::SRC_ROOT)]).ok()?;
        if reuse {
            stats.hit("hardlink.inode-reused-by-other-file");
        }
    }
    stats.hit("repo.hardlink-overwritten-in-place");
    let expected = all_digests(&h).ok()?;
    Some(Built { h, expected })
}

fn evolve(src: &MemSource, rng: &mut Rng, k: usize) -> MemSource {
    let mut es = src.entries.clone();
    es.retain(|e| !matches!(e.kind, SrcKind::Dir));
    let el = 1 + rng.below(2500) as usize;
    let extra = content(rng, el);
    es.push(SrcEntry::file(&[format!("n{k}").as_bytes()], &extra));
    if es.len() > 2 && rng.chance(1, 2) {
        _ = es.remove(0);
    }
    MemSource::new(es)
}

/// A repository with a forget/prune history: backup(s), forget, prune with keep-delete > 0 (unused packs are only
/// *marked*: they stay stored and are listed in `packs_to_delete`; partly used packs are repacked and their old
/// versions marked), then the forgotten data is backed up again (blobs in marked packs are not indexed, so they are
/// uploaded again into new packs described by a new index file) — every key of the new snapshot then has a second,
/// not indexed copy in a marked pack.
pub fn build_pruned(rng: &mut Rng, stats: &mut Stats) -> Option<Built> {
    let (cfg, v1) = cfg_opts(rng, stats);
    let h = init_repo(&cfg, v1)?;
    let archive = |src: &MemSource| -> Option<SnapshotFile> {
        let repo = open_nc(&h).ok()?.to_indexed_ids().ok()?;
        repo.archive(&BackupOptions::default(), src, SnapshotFile::default(), &[PathBuf::from(crate::repo::SRC_ROOT)]).ok()
    };
    let src0 = tree_source(rng, stats);
    let first = archive(&src0)?;
    let mut src = src0.clone();
    let n_more = rng.below(3) as usize;
    for k in 0..n_more {
        src = evolve(&src, rng, k);
        _ = archive(&src)?;
    }
    // forget the first snapshot (possibly the only one), prune: marks / repacks
    let repo = open_nc(&h).ok()?;
    repo.delete_snapshots(&[first.id]).ok()?;
    let mut opts = rustic_core::PruneOptions::default();
    if rng.chance(1, 2) {
        opts = opts.max_unused(rustic_core::LimitOption::Percentage(0)).max_repack(rustic_core::LimitOption::Unlimited);
        stats.hit("prune.max-unused-0");
    }
    let plan = repo.prune_plan(&opts).ok()?;
    repo.prune(&opts, plan).ok()?;
    stats.hit("repo.pruned-with-marked-packs");
    // the forgotten data again (and possibly one more backup)
    _ = archive(&src0)?;
    if rng.chance(1, 3) {
        src = evolve(&src, rng, 7);
        _ = archive(&src)?;
    }
    let marked = index_packs_marked(&h.key, &h.be.store());
    stats.hit(format!("repo.marked-packs.{}", Stats::bucket(marked)));
    let expected = all_digests(&h).ok()?;
    Some(Built { h, expected })
}

/// A CHAIN of single-tree packs of identical layout in which each tree is the parent of the previous one, every link being
/// the root of a kept snapshot: backup k stores the root tree `{node → subtree: root of backup k-1}` (the node is handed to the
/// archiver with its subtree, as in `build_file_subtree`; compression off, so the tree packs of all links but the first have the
/// same size).  Exchanging (or replacing) the packs of a parent and its child makes the child's id yield the parent's content —
/// a tree that seemingly contains itself: a reader without a visited set (`ls`, restore; `TreeStreamerOnce` has one) never comes
/// back from the child's snapshot.
pub fn build_tree_chain(rng: &mut Rng, stats: &mut Stats) -> Option<Built> {
    let mut cfg = ConfigOptions::default();
    let v1 = rng.chance(1, 2);
    stats.hit(if v1 { "cfg.v1" } else { "cfg.v2" });
    if !v1 {
        cfg.set_compression = Some(0);
    }
    let h = init_repo(&cfg, v1)?;
    let clen = 7 + rng.below(50) as usize;
    let content = rng.bytes(clen);
    let links = 3 + rng.below(2) as i64;
    let repo = open_nc(&h).ok()?.to_indexed_ids().ok()?;
    let s0 = SingleFileSource { name: "node".into(), content: content.clone(), mtime_s: 1_600_000_000 };
    let mut prev = repo.archive(&BackupOptions::default(), &s0, SnapshotFile::default(), &[PathBuf::from("node")]).ok()?;
    for k in 1..links {
        let repo = open_nc(&h).ok()?.to_indexed_ids().ok()?;
        let s = FileWithSubtreeSource { name: "node".into(), content: content.clone(), mtime_s: 1_600_000_000 + k, subtree: prev.tree };
        // no parent: the node must be stored as handed over
        let bo = BackupOptions::default().parent_opts(rustic_core::ParentOptions::default().force(true));
        prev = repo.archive(&bo, &s, SnapshotFile::default(), &[PathBuf::from("node")]).ok()?;
    }
    // how many tree packs share their size with another one?
    let packs = index_packs(&h.key, &h.be.store());
    let sizes: Vec<u32> = packs.iter().filter(|p| p.blob_type() == BlobType::Tree).map(|p| p.blobs.iter().map(|b| b.location.length).sum()).collect();
    let same = sizes.iter().enumerate().filter(|(i, a)| sizes.iter().enumerate().any(|(j, b)| j != *i && b == *a)).count();
    stats.hit(format!("repo.tree-chain.same-size-tree-packs.{}", Stats::bucket(same)));
    stats.hit("repo.tree-chain(parent-child-packs-of-equal-layout)");
    let expected = all_digests(&h).ok()?;
    if expected.len() != links as usize {
        return None;
    }
    Some(Built { h, expected })
}

fn zoned_utc(secs: i64) -> rustic_core::jiff::Zoned {
    rustic_core::jiff::Timestamp::from_second(secs).unwrap().to_zoned(rustic_core::jiff::tz::TimeZone::UTC)
}

/// Snapshots carrying DELETE MARKS (`backup --delete-after` / `--delete-never`): 3–5 backups in random mark order — always one
/// whose delete-after time has long passed (snapshot time 2000, delete-after 2001 … 2019), one whose delete-after time is far in
/// the future (year 2100+), one `delete-never`, optionally plain ones.  Every backup has a directory of its own (`only<k>/`, 1–2
/// files of random content, so data blobs, that directory's tree and the root tree are referenced by this snapshot alone) next
/// to a shared, unchanged part, which a first plain backup has stored on its own.  Nobody has run `forget`: all of them are
/// listed and restorable.
pub fn build_delete_marks(rng: &mut Rng, stats: &mut Stats) -> Option<Built> {
    let (cfg, v1) = meta_cfg(rng, stats);
    let h = init_repo(&cfg, v1)?;
    let mut marks: Vec<u8> = vec![0, 1, 2]; // 0 = after (past), 1 = after (future), 2 = never, 3 = not set
    for _ in 0..rng.below(3) {
        marks.push(*rng.pick(&[0u8, 3, 3]));
    }
    for i in (1..marks.len()).rev() {
        marks.swap(i, rng.below(i as u64 + 1) as usize);
    }
    let shared = [SrcEntry::file(&[b"shared", b"s0"], &rng.bytes(300)), SrcEntry::file(&[b"shared", b"s1"], &rng.bytes(2500))];
    // the shared part is backed up first on its own (a plain snapshot): the packs of every later backup then hold ONLY what that
    // snapshot alone refers to (its directory's chunks and tree, its root tree) — otherwise the first marked snapshot's own blobs
    // would sit in packs that the other snapshots keep in check's read set anyway
    {
        let repo = open_nc(&h).ok()?.to_indexed_ids().ok()?;
        _ = repo.archive(&BackupOptions::default(), &MemSource::new(shared.to_vec()), SnapshotFile::default(), &[PathBuf::from(crate::repo::SRC_ROOT)]).ok()?;
    }
    for (k, m) in marks.iter().enumerate() {
        let mut es = shared.to_vec();
        let dir = format!("only{k}").into_bytes();
        for j in 0..1 + rng.below(2) {
            let len = *rng.pick(&[40usize, 700, 3000]);
            es.push(SrcEntry::file(&[&dir, format!("u{j}").as_bytes()], &rng.bytes(len)));
        }
        let mut snap = SnapshotFile::default();
        match m {
            0 => {
                // saved in 2000 with a delete-after time between 2001 and 2019
                snap.time = zoned_utc(946_684_800 + rng.below(1_000_000) as i64);
                snap.delete = DeleteOption::After(zoned_utc(978_307_200 + rng.below(600_000_000) as i64));
                stats.hit("snap.delete-after.passed");
            }
            1 => {
                snap.delete = DeleteOption::After(zoned_utc(4_102_444_800 + rng.below(600_000_000) as i64));
                stats.hit("snap.delete-after.future");
            }
            2 => {
                snap.delete = DeleteOption::Never;
                stats.hit("snap.delete-never");
            }
            _ => stats.hit("snap.delete-not-set"),
        }
        let repo = open_nc(&h).ok()?.to_indexed_ids().ok()?;
        let saved = repo.archive(&BackupOptions::default(), &MemSource::new(es), snap, &[PathBuf::from(crate::repo::SRC_ROOT)]).ok()?;
        // the mark must really be in the stored file
        let want = match m {
            0 | 1 => matches!(saved.delete, DeleteOption::After(_)),
            2 => matches!(saved.delete, DeleteOption::Never),
            _ => matches!(saved.delete, DeleteOption::NotSet),
        };
        if !want {
            stats.hit("snap.delete-mark-lost");
            return None;
        }
    }
    stats.hit("repo.delete-marks");
    let expected = all_digests(&h).ok()?;
    if expected.len() != marks.len() + 1 {
        return None;
    }
    Some(Built { h, expected })
}

/// PARTLY USED packs: a first backup of `keep/` (2–4 files) and `drop/` (1–3 files), a second one in which `drop/` is gone and a
/// new directory has appeared, then the first snapshot is forgotten and NOBODY PRUNES.  With pack sizes that put several blobs
/// into one pack (the default, or 6000 bytes) the data packs of the first backup hold chunks of `keep/` (still used) next to
/// chunks of `drop/` (used by no snapshot any more), and its tree pack holds the tree of `keep/` (used) next to the first root
/// tree and the tree of `drop/` (unused).  Files are stored in path order, so the used and the unused blobs of a pack are its
/// first resp. last ones or the other way round (`drop` < `keep` < `later`): optionally the dropped directory sorts last.
pub fn build_partly_used(rng: &mut Rng, stats: &mut Stats) -> Option<Built> {
    let mut cfg = ConfigOptions::default();
    let v2 = rng.chance(2, 3);
    stats.hit(if v2 { "cfg.v2" } else { "cfg.v1" });
    if v2 {
        cfg.set_compression = Some(*rng.pick(&[0i32, 3, -3]));
    }
    if rng.chance(1, 2) {
        cfg.set_datapack_size = Some(bytesize::ByteSize(6000));
        cfg.set_treepack_size = Some(bytesize::ByteSize(4000));
        stats.hit("cfg.tiny-packs");
    }
    cfg.set_chunker = Some(rustic_core::repofile::Chunker::FixedSize);
    cfg.set_chunk_size = Some(bytesize::ByteSize(*rng.pick(&[512u64, 1024, 4096])));
    let h = init_repo(&cfg, !v2)?;
    let dropped: &[u8] = if rng.chance(1, 2) { b"drop" } else { b"zdrop" };
    let mut keep = Vec::new();
    for j in 0..2 + rng.below(3) {
        let len = *rng.pick(&[40usize, 700, 1500]);
        keep.push(SrcEntry::file(&[b"keep", format!("k{j}").as_bytes()], &rng.bytes(len)));
    }
    let mut first = keep.clone();
    for j in 0..1 + rng.below(3) {
        let len = *rng.pick(&[40usize, 700, 1500]);
        first.push(SrcEntry::file(&[dropped, format!("d{j}").as_bytes()], &rng.bytes(len)));
    }
    let mut second = keep.clone();
    second.push(SrcEntry::file(&[b"later", b"l0"], &rng.bytes(900)));
    let mut ids = vec![];
    for es in [first, second] {
        let repo = open_nc(&h).ok()?.to_indexed_ids().ok()?;
        ids.push(repo.archive(&BackupOptions::default(), &MemSource::new(es), SnapshotFile::default(), &[PathBuf::from(crate::repo::SRC_ROOT)]).ok()?.id);
    }
    let repo = open_nc(&h).ok()?;
    repo.delete_snapshots(&[ids[0]]).ok()?;
    // how many packs hold blobs the remaining snapshot uses next to blobs nothing uses any more?
    let n = partly_used_packs(&h)?;
    stats.hit(format!("repo.partly-used-packs.{}", Stats::bucket(n)));
    if n == 0 {
        return None;
    }
    stats.hit("repo.forgotten-not-pruned(partly-used-packs)");
    let expected = all_digests(&h).ok()?;
    Some(Built { h, expected })
}

/// number of indexed packs holding both a blob reachable from a stored snapshot and a blob that is not
fn partly_used_packs(h: &RepoHandle) -> Option<usize> {
    let store = h.be.store();
    let packs = index_packs(&h.key, &store);
    let loc: BTreeMap<String, (Id, u32, u32, bool)> = packs
        .iter()
        .flat_map(|p| p.blobs.iter().map(|b| (b.id.to_hex().to_string(), (*p.id, b.location.offset, b.location.length, b.location.uncompressed_length.is_some()))))
        .collect();
    let read = |id: &str| -> Option<Vec<u8>> {
        let (pack, off, len, c) = loc.get(id)?;
        let data = store.get(&(ft_idx(FileType::Pack), *pack))?;
        let raw = hk::decrypt(&h.key, data.get(*off as usize..(*off + *len) as usize)?)?;
        if *c { hk::zstd_decode(&raw) } else { Some(raw) }
    };
    let mut used: BTreeSet<String> = BTreeSet::new();
    let mut queue: Vec<String> = files_of(&store, FileType::Snapshot)
        .iter()
        .filter_map(|(_, b)| decode_file(&h.key, b).and_then(|p| serde_json::from_slice::<SnapshotFile>(&p).ok()))
        .map(|s| s.tree.to_hex().to_string())
        .collect();
    while let Some(t) = queue.pop() {
        if !used.insert(t.clone()) {
            continue;
        }
        let tree: Tree = serde_json::from_slice(&read(&t)?).ok()?;
        for n in &tree.nodes {
            if let Some(st) = n.subtree {
                queue.push(st.to_hex().to_string());
            }
            for c in n.content.iter().flatten() {
                _ = used.insert(c.to_hex().to_string());
            }
        }
    }
    Some(packs.iter().filter(|p| p.blobs.iter().any(|b| used.contains(b.id.to_hex().as_str())) && p.blobs.iter().any(|b| !used.contains(b.id.to_hex().as_str()))).count())
}

/// number of indexed packs that hold content of files of stored snapshots ONLY as INNER chunks (neither the first nor the
/// last chunk of any file of any stored snapshot, and no reachable tree): packs nothing but a walk over the WHOLE content
/// list of a file leads to
fn inner_only_packs(h: &RepoHandle) -> Option<usize> {
    let store = h.be.store();
    let packs: Vec<IndexPack> = files_of(&store, FileType::Index)
        .iter()
        .filter_map(|(_, b)| decode_file(&h.key, b).and_then(|p| serde_json::from_slice::<IndexFile>(&p).ok()))
        .flat_map(|f| f.packs)
        .collect();
    let loc: BTreeMap<String, (Id, u32, u32, bool)> = packs
        .iter()
        .flat_map(|p| p.blobs.iter().map(|b| (b.id.to_hex().to_string(), (*p.id, b.location.offset, b.location.length, b.location.uncompressed_length.is_some()))))
        .collect();
    let read = |id: &str| -> Option<Vec<u8>> {
        let (pack, off, len, c) = loc.get(id)?;
        let data = store.get(&(ft_idx(FileType::Pack), *pack))?;
        let raw = hk::decrypt(&h.key, data.get(*off as usize..(*off + *len) as usize)?)?;
        if *c { hk::zstd_decode(&raw) } else { Some(raw) }
    };
    let (mut outer, mut inner): (BTreeSet<String>, BTreeSet<String>) = (BTreeSet::new(), BTreeSet::new());
    let mut seen: BTreeSet<String> = BTreeSet::new();
    let mut queue: Vec<String> = files_of(&store, FileType::Snapshot)
        .iter()
        .filter_map(|(_, b)| decode_file(&h.key, b).and_then(|p| serde_json::from_slice::<SnapshotFile>(&p).ok()))
        .map(|s| s.tree.to_hex().to_string())
        .collect();
    while let Some(t) = queue.pop() {
        if !seen.insert(t.clone()) {
            continue;
        }
        _ = outer.insert(t.clone());
        let tree: Tree = serde_json::from_slice(&read(&t)?).ok()?;
        for n in &tree.nodes {
            if let Some(st) = n.subtree {
                queue.push(st.to_hex().to_string());
            }
            let c: Vec<String> = n.content.iter().flatten().map(|c| c.to_hex().to_string()).collect();
            for (i, id) in c.iter().enumerate() {
                _ = if i == 0 || i + 1 == c.len() { outer.insert(id.clone()) } else { inner.insert(id.clone()) };
            }
        }
    }
    let pack_of = |id: &String| loc.get(id).map(|l| l.0);
    let outer_packs: BTreeSet<Id> = outer.iter().filter_map(pack_of).collect();
    let inner_packs: BTreeSet<Id> = inner.iter().filter_map(pack_of).collect();
    Some(inner_packs.difference(&outer_packs).count())
}

/// A file of 4–9 chunks (fixed-size chunker) that is CHANGED AT BOTH ENDS between two backups — its first and its last chunk are
/// new, the inner chunks are de-duplicated against the packs of the first backup — after which the first snapshot is forgotten
/// and nobody prunes: the packs of the first backup are needed by the remaining snapshot through INNER chunks of the file only
/// (its first and last chunk and all trees live in the packs of the second backup).  Either the file is the only one of the
/// source (default pack size: one data pack per backup), or small files stand next to it and the data packs are tiny (about
/// one chunk per pack), so that the small files share no pack with the inner chunks; optionally a third version that changes
/// an inner chunk as well is backed up (inner chunks spread over the packs of two earlier backups).
pub fn build_inner_chunks(rng: &mut Rng, stats: &mut Stats) -> Option<Built> {
    let mut cfg = ConfigOptions::default();
    let v2 = rng.chance(2, 3);
    stats.hit(if v2 { "cfg.v2" } else { "cfg.v1" });
    if v2 {
        cfg.set_compression = Some(*rng.pick(&[0i32, 3, -3]));
    }
    let chunk = *rng.pick(&[512usize, 1024]);
    cfg.set_chunker = Some(rustic_core::repofile::Chunker::FixedSize);
    cfg.set_chunk_size = Some(bytesize::ByteSize(chunk as u64));
    let alone = rng.chance(1, 2);
    if !alone {
        cfg.set_datapack_size = Some(bytesize::ByteSize(*rng.pick(&[1u64, chunk as u64])));
        cfg.set_treepack_size = Some(bytesize::ByteSize(*rng.pick(&[1u64, 4000])));
        stats.hit("cfg.tiny-packs");
    }
    let h = init_repo(&cfg, !v2)?;
    let n_chunks = 4 + rng.below(6) as usize;
    // the last chunk may be a short one
    let len = n_chunks * chunk - *rng.pick(&[0usize, 1, 100]);
    let mut big = rng.bytes(len);
    let mut small = vec![];
    if !alone {
        for j in 0..1 + rng.below(3) {
            let l = *rng.pick(&[40usize, 700]);
            small.push(SrcEntry::file(&[if j % 2 == 0 { b"a" } else { b"z" }, format!("s{j}").as_bytes()], &rng.bytes(l)));
        }
    }
    let versions = 2 + rng.below(2) as usize;
    let mut ids = vec![];
    for k in 0..versions {
        if k > 0 {
            // written in place at its very beginning and its very end (k = 2: and somewhere in the middle)
            big[0] ^= 0x55;
            let l = big.len();
            big[l - 1] ^= 0x55;
            if k == 2 {
                big[(1 + rng.below(n_chunks as u64 - 2) as usize) * chunk + 7] ^= 0x55;
            }
        }
        let mut e = SrcEntry::file(&[b"m", b"big"], &big);
        e.mtime_s += k as i64;
        e.ctime_s = e.mtime_s;
        let mut es = small.clone();
        es.push(e);
        let repo = open_nc(&h).ok()?.to_indexed_ids().ok()?;
        ids.push(repo.archive(&BackupOptions::default(), &MemSource::new(es), SnapshotFile::default(), &[PathBuf::from(crate::repo::SRC_ROOT)]).ok()?.id);
    }
    // every snapshot but the last is forgotten; no prune
    let repo = open_nc(&h).ok()?;
    repo.delete_snapshots(&ids[..ids.len() - 1]).ok()?;
    let n = inner_only_packs(&h)?;
    stats.hit(format!("repo.inner-chunk-only-packs.{}", Stats::bucket(n)));
    if n == 0 {
        return None;
    }
    stats.hit("repo.inner-chunks-in-older-packs");
    let expected = all_digests(&h).ok()?;
    Some(Built { h, expected })
}

/// two distinct short byte strings whose SHA-256 digests (= their blob ids when stored as one-chunk files) share the first
/// four bytes; found by brute force over `<salt>-<i>` (birthday bound: 50 % after ≈ 77 000 strings; ≈ 0.1–0.3 s)
pub fn id_prefix_pair(rng: &mut Rng) -> Option<(Vec<u8>, Vec<u8>)> {
    let salt = rng.next();
    let mut seen: std::collections::HashMap<[u8; 4], u32> = std::collections::HashMap::new();
    let cand = |i: u32| format!("c05-{salt:016x}-{i}\n").into_bytes();
    for i in 0..2_000_000u32 {
        let d = sha(&cand(i));
        if let Some(j) = seen.insert([d[0], d[1], d[2], d[3]], i) {
            return Some((cand(j), cand(i)));
        }
    }
    None
}

/// Two data blobs whose ids share their first four bytes (`Id::as_u32`, the key some id-keyed shortcuts use), each stored as a
/// one-chunk file in a data pack of its own: `first` is backed up alone, then `first` and `second` together (the second
/// backup stores only the new blob); optionally a third file / the names exchanged, so that either blob of the pair can be
/// the one a tree walk meets first.
pub fn build_prefix_pair(rng: &mut Rng, stats: &mut Stats) -> Option<Built> {
    let (cfg, v1) = meta_cfg(rng, stats);
    let h = init_repo(&cfg, v1)?;
    let (a, b) = id_prefix_pair(rng)?;
    debug_assert!(a != b && sha(&a)[..4] == sha(&b)[..4]);
    let (na, nb): (&[u8], &[u8]) = if rng.chance(3, 4) { (b"a.bin", b"b.bin") } else { (b"y.bin", b"b.bin") };
    let mut es = vec![SrcEntry::file(&[na], &a)];
    if rng.chance(1, 2) {
        es.push(SrcEntry::file(&[b"other"], &rng.bytes(300)));
    }
    for k in 0..2 {
        if k == 1 {
            es.push(SrcEntry::file(&[nb], &b));
        }
        let repo = open_nc(&h).ok()?.to_indexed_ids().ok()?;
        _ = repo.archive(&BackupOptions::default(), &MemSource::new(es.clone()), SnapshotFile::default(), &[PathBuf::from(crate::repo::SRC_ROOT)]).ok()?;
    }
    stats.hit("repo.blob-ids-sharing-4-byte-prefix");
    let expected = all_digests(&h).ok()?;
    Some(Built { h, expected })
}

fn index_packs_marked(key: &MasterKey, store: &Store) -> usize {
    let mut n = 0;
    for (_, b) in files_of(store, FileType::Index) {
        if let Some(f) = decode_file(key, &b).and_then(|p| serde_json::from_slice::<IndexFile>(&p).ok()) {
            n += f.packs_to_delete.len();
        }
    }
    n
}

fn reencode_index(key: &MasterKey, f: &IndexFile) -> (Id, Bytes) {
    let data = hk::encrypt(key, &serde_json::to_vec(f).unwrap());
    let id: Id = sha_hex(&data).parse().unwrap();
    (id, Bytes::from(data))
}

/// all single-file faults of one repository: (label, damaged store)
fn damages(b: &Built, rng: &mut Rng, thorough: bool) -> Vec<(String, Store)> {
    let base = b.h.be.store();
    let key = &b.h.key;
    let mut out: Vec<(String, Store)> = vec![("none".into(), base.clone())];
    for ft in [FileType::Snapshot, FileType::Index, FileType::Pack] {
        let tn = crate::repo::ft_name(ft);
        let files = files_of(&base, ft);
        for (i, (id, data)) in files.iter().enumerate() {
            let k = (ft_idx(ft), *id);
            // remove
            let mut s = base.clone();
            _ = s.remove(&k);
            out.push((format!("remove.{tn}"), s));
            // truncate to each length class
            let n = data.len();
            let mut cuts = vec![0usize, 1, 31, 32, n / 2, n.saturating_sub(4), n.saturating_sub(1)];
            if thorough {
                cuts.extend([33, n.saturating_sub(5), n.saturating_sub(36), rng.below(n as u64 + 1) as usize]);
            }
            cuts.sort_unstable();
            cuts.dedup();
            for c in cuts.into_iter().filter(|c| *c < n) {
                let mut s = base.clone();
                _ = s.insert(k, data.slice(0..c));
                out.push((format!("truncate.{tn}.{}", if c == 0 { "0" } else if c < 32 { "<32" } else if c + 4 >= n { "tail" } else { "mid" }), s));
            }
            // bit flips: structured positions + random ones
            let mut poss: Vec<usize> = vec![0, 15, 16, n / 2, n.saturating_sub(1), n.saturating_sub(4), n.saturating_sub(5), n.saturating_sub(20)];
            // positions inside the first and the last blob of a pack: `flip.pack.blob`, never sampled away (EVERY pack that holds
            // data of any snapshot gets a bit flip inside a blob)
            let mut blob_poss: Vec<usize> = vec![];
            if ft == FileType::Pack {
                // inside every blob and inside the header as the index describes them
                if let Some(p) = index_packs(key, &base).iter().find(|p| p.id.to_hex().as_str() == id.to_hex().as_str()) {
                    for bl in &p.blobs {
                        poss.push(bl.location.offset as usize + bl.location.length as usize / 2);
                        poss.push(bl.location.offset as usize);
                    }
                    let mut sorted = p.blobs.clone();
                    sorted.sort_by_key(|b| b.location.offset);
                    // every blob of a pack of up to 8 blobs; of a larger one the first, the last and 4 random ones (a pack can
                    // hold blobs that some snapshot uses next to blobs that nothing uses any more)
                    let mut picks: Vec<usize> = if sorted.len() <= 8 { (0..sorted.len()).collect() } else { vec![0, sorted.len() - 1] };
                    if sorted.len() > 8 {
                        for _ in 0..4 {
                            picks.push(rng.below(sorted.len() as u64) as usize);
                        }
                    }
                    for bl in picks.into_iter().map(|i| &sorted[i]) {
                        // past the 16-byte nonce, inside the ciphertext
                        blob_poss.push(bl.location.offset as usize + 16 + (bl.location.length as usize).saturating_sub(32) / 2);
                    }
                    blob_poss.sort_unstable();
                    blob_poss.dedup();
                }
            }
            for p in blob_poss.into_iter().filter(|p| *p < n) {
                let mut v = data.to_vec();
                v[p] ^= 1 << rng.below(8);
                let mut s = base.clone();
                _ = s.insert(k, Bytes::from(v));
                out.push(("flip.pack.blob".to_string(), s));
            }
            for _ in 0..(if thorough { 6 } else { 2 }) {
                poss.push(rng.below(n.max(1) as u64) as usize);
            }
            poss.sort_unstable();
            poss.dedup();
            for p in poss.into_iter().filter(|p| *p < n) {
                let mut v = data.to_vec();
                v[p] ^= 1 << rng.below(8);
                let mut s = base.clone();
                _ = s.insert(k, Bytes::from(v));
                out.push((format!("flip.{tn}"), s));
            }
            // swap with a same-type sibling (all later siblings)
            for (id2, data2) in files.iter().skip(i + 1) {
                let mut s = base.clone();
                _ = s.insert(k, data2.clone());
                _ = s.insert((ft_idx(ft), *id2), data.clone());
                out.push((format!("swap.{tn}{}", if data.len() == data2.len() { ".samesize" } else { "" }), s));
            }
            // replace by a sibling (one direction only)
            if let Some((_, data2)) = files.get(i + 1) {
                let mut s = base.clone();
                _ = s.insert(k, data2.clone());
                out.push((format!("replace.{tn}"), s));
            }
        }
    }
    // index-entry faults (need the key: decode, edit, re-encrypt under the new hash)
    for (iid, data) in files_of(&base, FileType::Index) {
        let Some(f) = decode_file(key, &data).and_then(|p| serde_json::from_slice::<IndexFile>(&p).ok()) else { continue };
        let put = |f2: &IndexFile, label: &str, out: &mut Vec<(String, Store)>| {
            let mut s = base.clone();
            _ = s.remove(&(ft_idx(FileType::Index), iid));
            let (nid, nb) = reencode_index(key, f2);
            _ = s.insert((ft_idx(FileType::Index), nid), nb);
            out.push((label.to_string(), s));
        };
        let clone_f = |f: &IndexFile| IndexFile { supersedes: f.supersedes.clone(), packs: f.packs.clone(), packs_to_delete: f.packs_to_delete.clone() };
        for pi in 0..f.packs.len() {
            // drop / duplicate the pack entry
            let mut f2 = clone_f(&f);
            _ = f2.packs.remove(pi);
            put(&f2, "index.drop-pack", &mut out);
            let mut f2 = clone_f(&f);
            let p = f2.packs[pi].clone();
            f2.packs.push(p);
            put(&f2, "index.dup-pack", &mut out);
            let nb = f.packs[pi].blobs.len();
            let picks: Vec<usize> = if nb <= 3 || thorough { (0..nb).collect() } else { vec![0, nb / 2, nb - 1] };
            for bi in picks {
                let mut f2 = clone_f(&f);
                _ = f2.packs[pi].blobs.remove(bi);
                put(&f2, "index.drop-blob", &mut out);
                let mut f2 = clone_f(&f);
                let bl = f2.packs[pi].blobs[bi];
                f2.packs[pi].blobs.push(bl);
                put(&f2, "index.dup-blob", &mut out);
            }
        }
    }
    out
}

fn index_packs(key: &MasterKey, store: &Store) -> Vec<IndexPack> {
    let mut v = Vec::new();
    for (_, b) in files_of(store, FileType::Index) {
        if let Some(f) = decode_file(key, &b).and_then(|p| serde_json::from_slice::<IndexFile>(&p).ok()) {
            v.extend(f.packs);
            v.extend(f.packs_to_delete);
        }
    }
    v
}

pub fn line(label: &str, key: &MasterKey, store: &Store, expected: &BTreeMap<String, String>) -> String {
    let mut t = vec!["c05".to_string(), "chk".to_string(), label.to_string()];
    t.extend(abstract_state(key, store));
    t.push("|".into());
    let st = store_tokens(key, store);
    t.push(st[0].clone());
    for (id, d) in expected {
        t.push(format!("x:{id}:{d}"));
    }
    t.extend(st.into_iter().skip(1));
    t.join(" ")
}

pub fn generate(thorough: bool, rng: &mut Rng, ops: &mut Vec<String>, stats: &mut Stats) {
    let n_repos = if thorough { 70 } else { 13 };
    let per_repo_cap = if thorough { 300 } else { 110 };
    let mut late: Vec<String> = Vec::new();
    for r in 0..n_repos {
        // repository kinds by position (quick = the first 13 of a round of 14, thorough = 5 rounds): the first repository of every run is the
        // stdin-style pair (packs holding only a root tree); the kinds that need a history come early
        let built = match r % 14 {
            0 if r == 0 => build_stdin_pair(stats, rng.chance(1, 2)),
            // backup, backup, forget the first, no prune: packs holding used next to unused blobs
            1 => build_partly_used(rng, stats),
            // snapshots with delete marks (delete-after passed / in the future, delete-never), each holding data of its own
            2 => build_delete_marks(rng, stats),
            // a file changed at both ends between backups, first snapshot forgotten: packs needed through INNER chunks only
            3 => build_inner_chunks(rng, stats),
            // two data blobs whose ids share their first four bytes, in packs of their own
            4 => build_prefix_pair(rng, stats),
            // a tree reached only through the subtree of a file node
            5 if r == 5 => build_file_subtree(stats, rng.chance(1, 2)),
            // a hardlinked file overwritten in place between backups (same inode and link count, new content)
            6 => build_hardlink_history(rng, stats),
            // real stdin snapshots: nodes with recorded size 0 and real content
            7 => build_stdin_real(rng, stats),
            // forget/prune history with packs marked for deletion, the forgotten data uploaded again
            8 | 11 => build_pruned(rng, stats),
            // files whose recorded size is not the length of their content
            9 => build_size_mismatch(rng, stats),
            // a chain of directory trees of identical layout shared by two snapshots (parent/child tree packs of equal size)
            12 => build_tree_chain(rng, stats),
            // 1–3 backups of small trees or stdin-style single files (repository 10: stdin-style only)
            _ => build_repo(rng, stats, r == 10),
        };
        let Some(b) = built else {
            stats.hit("repo.build-failed");
            continue;
        };
        stats.hit("repo");
        let _ = FILE_TYPES;
        let mut ds = damages(&b, rng, thorough);
        // keep the run bounded: sample among bit flips and truncations only (removal, swaps, replacements and
        // index-entry faults are always all kept)
        let samplable = |l: &str| (l.starts_with("flip.") && l != "flip.pack.blob") || l.starts_with("truncate.");
        while ds.len() > per_repo_cap && ds.iter().any(|(l, _)| samplable(l)) {
            let i = rng.below(ds.len() as u64) as usize;
            if samplable(&ds[i].0) {
                _ = ds.swap_remove(i);
            }
        }
        // `./check` turns only the first 40 disagreeing cases of a run into reports, so within a repository the faults that
        // nothing but a look-up or a read of the data can find (bit flips, exchanged / replaced files, dropped index entries, a
        // removed index file — the candidates for SILENT damage) go before those the listings already show (removed or
        // truncated packs, duplicated entries); stable, so the generation order is kept inside a class
        let class = |l: &str| -> u8 {
            if l == "none" {
                0
            } else if l == "flip.pack.blob" || l == "index.drop-pack" || l == "remove.index" {
                1
            } else if l.starts_with("flip.") || l.starts_with("swap.") || l.starts_with("replace.") || l == "index.drop-blob" || l.ends_with(".snapshot") || l.starts_with("truncate.snapshot") {
                2
            } else {
                3
            }
        };
        ds.sort_by_key(|(l, _)| class(l));
        for (label, store) in ds {
            stats.hit(format!("fault.{label}"));
            let l = line(&label, &b.h.key, &store, &b.expected);
            // `./check` turns only the first 40 disagreeing cases of a run into reports: the cases of the open known finding
            // (snapshot files exchanged / overwritten by a sibling, DESIGN §7 #12 — three or four per repository) go last
            if label == "swap.snapshot" || label == "swap.snapshot.samesize" || label == "replace.snapshot" { late.push(l) } else { ops.push(l) }
        }
    }
    ops.append(&mut late);
}
