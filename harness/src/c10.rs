//! C10 — backup ∥ prune, prune ∥ backup, backup ∥ backup by gating: command A runs in its own thread on a
//! `MemBackend` handle whose gate parks it before its k-th storage operation; command B then runs completely; A is
//! resumed.  Afterwards: a follow-up prune (keep-delete respected, time injected through the prune hook), then
//! `check(read_data)` must be clean and every snapshot — old, A's, B's — must read back exactly.
//! The interleaved backend log is abstracted (as in C03) and judged by the Lean driver: nothing a snapshot needs is
//! lost after any prefix, and the repository is consistent after the follow-up prune.
//!
//!   c10 mon <bp|pb|bb> <seed>,<k>[,<j>] <pre-ops> <run-ops> <followup-ops>
//!   c10 mon bfp <seed>,<k>,<code> <pre-ops> <run-ops> <followup-ops>      (forget + prune(s) while a backup is parked, see `Fp`)
//! With `j`: B runs on a gated thread too and parks before its j-th storage operation until A has finished
//! (interleaving A[0..k) B[0..j) A[k..] B[j..]).
use std::sync::atomic::{AtomicBool, AtomicUsize, Ordering};
use std::sync::mpsc::channel;
use std::sync::{Arc, Mutex};
use std::time::Duration;

use rustic_core::jiff::{Timestamp, tz::TimeZone};
use rustic_core::repofile::SnapshotFile;
use rustic_core::verif::prune as hook;
use rustic_core::{PruneOptions, RusticResult};

use super::c02::hist::{check_errors_retry, source};
use super::c02::parse_opts;
use super::c03::{abstract_tokens, all_index, cfg, do_backup, union};
use crate::repo::{self, LogOp, MemBackend, MemSource, RepoHandle};
use crate::util::{Rng, Stats, errkind, guarded};

const KD: i64 = 82_800;

fn popts() -> PruneOptions {
    parse_opts(&format!("0,0,{KD},0000000,u,p0")).unwrap().opts
}

fn prune_at(h: &RepoHandle, secs: i64) -> RusticResult<()> {
    let r = h.open()?;
    let o = popts();
    let z = Timestamp::from_second(secs).unwrap().to_zoned(TimeZone::UTC);
    let rep = hook::plan_at(&r, &o, z)?;
    r.prune(&o, rep.plan)
}

struct Pre {
    h: RepoHandle,
    live: Vec<(SnapshotFile, MemSource)>,
    now: i64,
}

fn prestate(seed: u64) -> Result<Pre, String> {
    let e = |x: Box<rustic_core::RusticError>| format!("oracle-fail:prestate-{}", errkind(&x));
    let (h, _) = RepoHandle::init(MemBackend::new(), None, &cfg(seed)).map_err(e)?;
    let now = Timestamp::now().as_second();
    let mut live = vec![];
    for k in 0..3 {
        let src = source(seed, k, None);
        let snap = do_backup(&h, &src).map_err(e)?;
        live.push((snap, src));
    }
    // forget the first snapshot and prune at now + 1 h: its packs are marked with that time
    let (s, _) = live.remove(0);
    h.open().map_err(e)?.delete_snapshots(&[s.id]).map_err(e)?;
    // (plan times lie in the future of the packs' creation times, else every pack is `too young` and kept)
    prune_at(&h, now + 3600).map_err(e)?;
    // forget another one: the concurrent prune will mark / repack what only it used
    let (s, _) = live.remove(0);
    h.open().map_err(e)?.delete_snapshots(&[s.id]).map_err(e)?;
    h.be.clear_log();
    Ok(Pre { h, live, now })
}

enum Out {
    Snap(SnapshotFile, MemSource),
    Pruned,
}

fn run_actor(kind: char, h: &RepoHandle, seed: u64, version: u64, now: i64) -> Result<Out, String> {
    match kind {
        'b' => {
            let src = source(seed, version, None);
            let snap = do_backup(h, &src).map_err(|e| format!("oracle-fail:backup-{}", errkind(&e)))?;
            Ok(Out::Snap(snap, src))
        }
        _ => {
            // more than keep-delete after the first prune: the packs it marked are deleted now
            prune_at(h, now + 7200 + KD).map_err(|e| format!("oracle-fail:prune-{}", errkind(&e)))?;
            Ok(Out::Pruned)
        }
    }
}

/// what a scenario run is for: `Exec` — the direct oracles decide (no trace); `Trace` — produce the abstract trace for the Lean
/// driver whatever the oracles say; `Count` — only count the storage operations of the actors
#[derive(Clone, Copy, PartialEq, Eq, Debug)]
pub enum Mode {
    Exec,
    Trace,
    Count,
}

pub struct Run {
    pub pre: Vec<String>,
    pub run: Vec<String>,
    pub follow: Vec<String>,
    pub n_a: usize,
    /// storage operations of B (only counted when B is gated)
    pub n_b: usize,
    /// what the history really contained (`bfp`: stats keys, see `scenario_fp`)
    pub notes: Vec<&'static str>,
}

/// A command running on its own thread over its own `MemBackend` handle (same store, same log, own gate) that parks
/// before its `k`-th storage operation until resumed.
struct Gated {
    th: std::thread::JoinHandle<Result<Out, String>>,
    parked: std::sync::mpsc::Receiver<()>,
    resume: std::sync::mpsc::Sender<()>,
    own: Arc<AtomicUsize>,
}

fn spawn_gated(base: &RepoHandle, name: &'static str, k: usize, f: impl FnOnce(&RepoHandle) -> Result<Out, String> + Send + 'static) -> Gated {
    let h = RepoHandle {
        be: MemBackend { inner: base.be.inner.clone(), gate: Arc::new(Mutex::new(None)), name },
        hot: None,
        key: base.key.clone(),
    };
    let (parked_tx, parked) = channel::<()>();
    let (resume, resume_rx) = channel::<()>();
    let resume_rx = Arc::new(Mutex::new(resume_rx));
    let own = Arc::new(AtomicUsize::new(0));
    let released = Arc::new(AtomicBool::new(false));
    {
        let (own, released, resume_rx) = (own.clone(), released.clone(), resume_rx.clone());
        let parked_tx = Mutex::new(parked_tx);
        h.be.set_gate(Some(Arc::new(move |_k: usize, _op: &LogOp| {
            let mine = own.fetch_add(1, Ordering::SeqCst);
            if mine == k && !released.swap(true, Ordering::SeqCst) {
                _ = parked_tx.lock().unwrap().send(());
                _ = resume_rx.lock().unwrap().recv_timeout(Duration::from_secs(120));
            }
        })));
    }
    let th = std::thread::spawn(move || f(&h));
    Gated { th, parked, resume, own }
}

/// wait until the command is parked (or has finished with fewer than k operations)
fn wait_parked(g: &Gated) {
    loop {
        if g.parked.recv_timeout(Duration::from_millis(20)).is_ok() || g.th.is_finished() {
            break;
        }
    }
}

/// One gated run: A parked before its k-th storage operation; then B runs — completely (`j = None`) or up to its j-th
/// operation, where it parks until A has finished.  Returns the abstract traces, or the failing oracle.
fn scenario(kind: &str, seed: u64, k: usize, j: Option<usize>, mode: Mode) -> Result<Run, String> {
    let pre = prestate(seed)?;
    let before = pre.h.be.store();
    let (ka, kb) = (kind.chars().next().unwrap(), kind.chars().nth(1).unwrap());
    let now = pre.now;
    // A backs up version 0 again: the content of the snapshot whose packs were marked long ago (a backup that
    // dedups against marked packs would rely on packs the concurrent prune deletes); odd seeds: a new version (more packs)
    let va = if seed % 2 == 0 { 0 } else { 5 };
    let ga = spawn_gated(&pre.h, "actor-a", k, move |h| run_actor(ka, h, seed, va, now));
    wait_parked(&ga);
    // files A wrote before it was parked may be replaced by B: keep their content for the trace abstraction
    let mid = pre.h.be.store();
    let mut mid2 = mid.clone();
    let mut n_b = 0;
    let (a_out, b_out) = match j {
        None => {
            let b_out = run_actor(kb, &pre.h, seed, 4, now);
            _ = ga.resume.send(());
            let a_out = ga.th.join().map_err(|_| "oracle-fail:actor-a-panicked".to_string())?;
            (a_out, b_out)
        }
        Some(j) => {
            let gb = spawn_gated(&pre.h, "actor-b", j, move |h| run_actor(kb, h, seed, 4, now));
            wait_parked(&gb);
            mid2 = pre.h.be.store();
            _ = ga.resume.send(());
            let a_out = ga.th.join().map_err(|_| "oracle-fail:actor-a-panicked".to_string())?;
            _ = gb.resume.send(());
            let b_out = gb.th.join().map_err(|_| "oracle-fail:actor-b-panicked".to_string())?;
            n_b = gb.own.load(Ordering::SeqCst);
            (a_out, b_out)
        }
    };
    let own = ga.own;
    let a_out = a_out?;
    let b_out = b_out?;
    let n_a = own.load(Ordering::SeqCst);
    let log_run = pre.h.be.log();
    let after_run = pre.h.be.store();
    let mut live = pre.live;
    for o in [a_out, b_out] {
        if let Out::Snap(s, src) = o {
            live.push((s, src));
        }
    }
    // follow-up prune one hour later (keep-delete respected), then the repository must be completely healthy
    pre.h.be.clear_log();
    let oracle = (|| -> Result<(), String> {
        prune_at(&pre.h, now + 10_800 + KD).map_err(|e| format!("oracle-fail:followup-prune-{}", errkind(&e)))?;
        match check_errors_retry(&pre.h, true) {
            Some(0) => {}
            Some(_) => return Err("oracle-fail:check-errors-after-followup".into()),
            None => return Err("oracle-fail:check-failed-after-followup".into()),
        }
        let r = pre.h.open().and_then(|r| r.to_indexed()).map_err(|_| "oracle-fail:open".to_string())?;
        for (s, src) in &live {
            let mut got = repo::read_back(&r, s).map_err(|_| "oracle-fail:snapshot-unreadable-after-followup".to_string())?;
            got.retain(|e| e.path != b"src");
            if got != repo::expected(src) {
                return Err("oracle-fail:snapshot-differs-after-followup".into());
            }
        }
        Ok(())
    })();
    let log_follow = pre.h.be.log();
    if mode != Mode::Trace {
        // `exec`: the direct oracles decide
        if mode == Mode::Exec {
            oracle?;
        }
        return Ok(Run { pre: vec![], run: vec![], follow: vec![], n_a, n_b, notes: vec![] });
    }
    // `generate`: the trace is judged by the Lean driver, whatever the oracles say
    let after_all = union(&union(&union(&mid, &mid2), &after_run), &pre.h.be.store());
    let mut log = log_run.clone();
    log.extend(log_follow.iter().cloned());
    let n_run = log_run.iter().filter(|o| o.applied).count();
    let (p, mut toks) = abstract_tokens(&pre.h, &before, &after_all, &log)?;
    let follow = toks.split_off(n_run);
    Ok(Run { pre: p, run: toks, follow, n_a, n_b, notes: vec![] })
}

// ---------------------------------------------------------------------------------------------------------
// family `bfp`: while a backup is parked (after its index load, before its k-th storage operation) snapshots are
// forgotten and one or two prunes run; then the backup finishes; follow-up prune; everything must be healthy.

/// Parameters of one `bfp` scenario (encoded in the op line as a number, see `Fp::code`).
#[derive(Clone, Copy, Debug)]
pub struct Fp {
    /// snapshots before (versions 0..n of the evolving source)
    pub n_snaps: u64,
    /// forget every snapshot (the prune keeps nothing) — else only the newest one, whose content the backup re-uses
    pub forget_all: bool,
    /// 0: the backup saves exactly the forgotten content again (adds no blob, pure reuse); 1: plus one new file; 2: a newer version
    pub a_new: u64,
    /// prunes while the backup is parked (the second one 10 min after the first)
    pub prunes: u64,
    /// the plan times lie more than keep-delete after the creation of the packs
    pub old_packs: bool,
    pub no_resize: bool,
    /// the follow-up prune runs keep-delete + 1 h after the (last) marking prune — the marks it meets are OLDER than keep-delete;
    /// what the late-finishing backup's snapshot needs must be recovered all the same (else: one hour after, marks young)
    pub late_followup: bool,
    /// ANOTHER backup (different content: a second small index file and a snapshot of its own) runs completely after the first
    /// prune, before the second one (or, with one prune, before the parked backup resumes): the second prune then has two
    /// small index files to merge and REWRITES the index file that lists the still-marked packs (`filter_index_files`)
    pub mid_backup: bool,
    /// with `forget_all`, two prunes and ≥ 2 snapshots: only the newest snapshot is forgotten before the first prune, the others
    /// BETWEEN the two prunes — the second prune then marks further packs and (must-modify) rewrites index files, among them the
    /// one listing the packs the first prune marked, which stay marked (no effect otherwise)
    pub staged_forget: bool,
}

impl Fp {
    pub fn code(&self) -> u64 {
        (self.n_snaps - 1)
            + 3 * (u64::from(self.forget_all)
                + 2 * (self.a_new
                    + 3 * ((self.prunes - 1) + 2 * (u64::from(self.old_packs) + 2 * (u64::from(self.no_resize) + 2 * (u64::from(self.late_followup) + 2 * (u64::from(self.mid_backup) + 2 * u64::from(self.staged_forget))))))))
    }
    /// (codes below 144 are the scenarios of the earlier rounds: follow-up one hour later, no backup between the prunes)
    pub fn from_code(c: u64) -> Option<Self> {
        if c >= 1152 {
            return None;
        }
        let (n, c) = (c % 3 + 1, c / 3);
        let (f, c) = (c % 2 == 1, c / 2);
        let (a, c) = (c % 3, c / 3);
        let (p, c) = (c % 2 + 1, c / 2);
        let (o, c) = (c % 2 == 1, c / 2);
        let (r, c) = (c % 2 == 1, c / 2);
        let (l, c) = (c % 2 == 1, c / 2);
        let (m, c) = (c % 2 == 1, c / 2);
        Some(Self { n_snaps: n, forget_all: f, a_new: a, prunes: p, old_packs: o, no_resize: r, late_followup: l, mid_backup: m, staged_forget: c % 2 == 1 })
    }
}

/// what a prune planned for the packs it found marked: (recover, keep marked, remove)
#[derive(Clone, Copy, Default, Debug)]
struct Marked {
    recover: u64,
    keep: u64,
    remove: u64,
}

fn prune_at_with(h: &RepoHandle, secs: i64, no_resize: bool) -> RusticResult<Marked> {
    let r = h.open()?;
    let o = parse_opts(&format!("0,0,{KD},000{}000,u,p0", u8::from(no_resize))).unwrap().opts;
    let z = Timestamp::from_second(secs).unwrap().to_zoned(TimeZone::UTC);
    let rep = hook::plan_at(&r, &o, z)?;
    let d = rep.plan.stats.packs_to_delete;
    let m = Marked { recover: d.recover, keep: d.keep, remove: d.remove };
    r.prune(&o, rep.plan)?;
    Ok(m)
}

/// the source of "another client": content unrelated to `source(seed, _)`; every file carries other times than any file of
/// `source(seed, _)` (same paths: the parent-based change detection of `backup` must see that the content differs)
fn other_source(seed: u64) -> MemSource {
    let mut s = source(seed ^ 0x5a5a_5a5a, 7, None);
    for e in &mut s.entries {
        if matches!(e.kind, repo::SrcKind::File(_)) {
            e.mtime_s += 100_000;
            e.ctime_s = e.mtime_s;
        }
    }
    s
}

/// ids of the index files that list packs marked for deletion
fn marking_index_files(h: &RepoHandle) -> Vec<rustic_core::Id> {
    all_index(h, &h.be.store()).map(|v| v.into_iter().filter(|(_, f)| !f.packs_to_delete.is_empty()).map(|(id, _)| id).collect()).unwrap_or_default()
}

fn scenario_fp(seed: u64, k: usize, fp: Fp, mode: Mode) -> Result<Run, String> {
    let e = |x: Box<rustic_core::RusticError>| format!("oracle-fail:prestate-{}", errkind(&x));
    let (h, _) = RepoHandle::init(MemBackend::new(), None, &cfg(seed)).map_err(e)?;
    let now = Timestamp::now().as_second();
    let mut live = vec![];
    for v in 0..fp.n_snaps {
        let src = source(seed, v, None);
        let snap = do_backup(&h, &src).map_err(e)?;
        live.push((snap, src));
    }
    h.be.clear_log();
    let before = h.be.store();
    let last = fp.n_snaps - 1;
    let a_src = match fp.a_new {
        0 => source(seed, last, None),
        1 => source(seed, last, Some(Rng::new(seed ^ 0xa1).bytes(900))),
        _ => source(seed, last + 3, None),
    };
    let a_src2 = a_src.clone();
    // the backup loads its index now, then parks before its k-th storage operation
    let ga = spawn_gated(&h, "actor-a", k, move |hh| {
        let snap = do_backup(hh, &a_src2).map_err(|e| format!("oracle-fail:backup-{}", errkind(&e)))?;
        Ok(Out::Snap(snap, a_src2))
    });
    wait_parked(&ga);
    let mid = h.be.store();
    // meanwhile: forget, prune (marks what only the forgotten snapshots used), maybe ANOTHER backup, maybe prune again 10 min later
    let forget: Vec<_> = if fp.forget_all { live.drain(..).collect() } else { vec![live.pop().unwrap()] };
    let mut ids: Vec<_> = forget.iter().map(|l| l.0.id).collect();
    // staged: the newest snapshot now, the others between the two prunes
    let staged = fp.staged_forget && fp.forget_all && fp.prunes == 2 && ids.len() >= 2;
    let ids_later: Vec<_> = if staged { ids.drain(..ids.len() - 1).collect() } else { vec![] };
    let t1 = now + if fp.old_packs { KD + 3600 } else { 3600 };
    let mut notes: Vec<&'static str> = vec![];
    // files written between the prunes may be replaced by the second prune: keep their content for the trace abstraction
    let mut mid2 = mid.clone();
    let mut mid_snap = None;
    let b_res = (|| -> RusticResult<()> {
        h.open()?.delete_snapshots(&ids)?;
        _ = prune_at_with(&h, t1, fp.no_resize)?;
        if fp.mid_backup {
            // another client: different content, its own (small) index file and snapshot
            let src = other_source(seed);
            let snap = do_backup(&h, &src)?;
            mid_snap = Some((snap, src));
        }
        mid2 = h.be.store();
        if fp.prunes == 2 {
            if staged {
                h.open()?.delete_snapshots(&ids_later)?;
                notes.push("forget-staged-over-the-two-prunes");
            }
            let marking = marking_index_files(&h);
            let m = prune_at_with(&h, t1 + 600, fp.no_resize)?;
            let st = h.be.store();
            if m.keep > 0 {
                notes.push("prune2.keeps-marked");
                // the index file(s) listing the still-marked packs: replaced (rewritten) or left alone by the second prune
                let gone = !marking.is_empty() && marking.iter().all(|id| !st.contains_key(&(repo::ft_idx(rustic_core::repofile::FileType::Index), *id)));
                notes.push(if gone { "prune2.keeps-marked.REWRITES-their-index-file" } else { "prune2.keeps-marked.leaves-their-index-file" });
            }
        }
        Ok(())
    })();
    _ = ga.resume.send(());
    let a_out = ga.th.join().map_err(|_| "oracle-fail:actor-a-panicked".to_string())?;
    b_res.map_err(|e| format!("oracle-fail:prune-{}", errkind(&e)))?;
    if let Some(l) = mid_snap {
        live.push(l);
    }
    if let Out::Snap(s, src) = a_out? {
        live.push((s, src));
    }
    let n_a = ga.own.load(Ordering::SeqCst);
    let log_run = h.be.log();
    let after_run = h.be.store();
    // follow-up prune one hour later — or keep-delete + one hour later: the marks it meets are then older than keep-delete,
    // and what the snapshots need must be recovered all the same — then the repository must be completely healthy
    h.be.clear_log();
    let t_last = if fp.prunes == 2 { t1 + 600 } else { t1 };
    let t_follow = if fp.late_followup { t_last + KD + 3600 } else { t1 + 4200 };
    let oracle = (|| -> Result<(), String> {
        let m = prune_at_with(&h, t_follow, fp.no_resize).map_err(|e| format!("oracle-fail:followup-prune-{}", errkind(&e)))?;
        if m.remove > 0 {
            notes.push("followup.removes-unneeded-marked-packs");
        }
        if m.recover > 0 {
            notes.push(if fp.late_followup { "followup.recovers.marks-OLDER-than-keep-delete" } else { "followup.recovers.marks-young" });
        }
        match check_errors_retry(&h, true) {
            Some(0) => {}
            Some(_) => return Err("oracle-fail:check-errors-after-followup".into()),
            None => return Err("oracle-fail:check-failed-after-followup".into()),
        }
        let r = h.open().and_then(|r| r.to_indexed()).map_err(|_| "oracle-fail:open".to_string())?;
        for (s, src) in &live {
            let mut got = repo::read_back(&r, s).map_err(|_| "oracle-fail:snapshot-unreadable-after-followup".to_string())?;
            got.retain(|e| e.path != b"src");
            if got != repo::expected(src) {
                if std::env::var("C10_DEBUG").is_ok() {
                    let exp = repo::expected(src);
                    eprintln!("DIFF snapshot {} of {}: got {} entries, expected {}", s.id, live.len(), got.len(), exp.len());
                    for (a, b) in got.iter().zip(exp.iter()) {
                        if a != b {
                            eprintln!(" got {:?} {} {:?} {:?} {:?}\n exp {:?} {} {:?} {:?} {:?}", String::from_utf8_lossy(&a.path), a.kind, a.content.as_ref().map(Vec::len), a.mode, a.mtime_s, String::from_utf8_lossy(&b.path), b.kind, b.content.as_ref().map(Vec::len), b.mode, b.mtime_s);
                        }
                    }
                }
                return Err("oracle-fail:snapshot-differs-after-followup".into());
            }
        }
        Ok(())
    })();
    let log_follow = h.be.log();
    if mode != Mode::Trace {
        if mode == Mode::Exec {
            oracle?;
        }
        return Ok(Run { pre: vec![], run: vec![], follow: vec![], n_a, n_b: 0, notes });
    }
    let after_all = union(&union(&union(&mid, &mid2), &after_run), &h.be.store());
    let mut log = log_run.clone();
    log.extend(log_follow.iter().cloned());
    let n_run = log_run.iter().filter(|o| o.applied).count();
    let (p, mut toks) = abstract_tokens(&h, &before, &after_all, &log)?;
    let follow = toks.split_off(n_run);
    Ok(Run { pre: p, run: toks, follow, n_a, n_b: 0, notes })
}

/// Replay of theorem `slow_prune_can_lose` on the real code, sequentially, with injected plan times:
/// prune A *plans* at T0 (pack P of a forgotten snapshot is unused, still unmarked); a backup loads its index
/// (P visible); A executes (P is marked with A's plan time T0); prune C plans at T0 + keep-delete + 10 min and deletes
/// P; the backup — whose source shares content with P — finishes less than keep-delete after its index load and
/// saves a snapshot that needs blobs of P.
fn slow_prune(seed: u64) -> String {
    use std::path::PathBuf;
    let e = |x: Box<rustic_core::RusticError>| format!("oracle-fail:slowprune-{}", errkind(&x));
    let r: Result<String, String> = (|| {
        let (h, _) = RepoHandle::init(MemBackend::new(), None, &cfg(seed)).map_err(e)?;
        let t0 = Timestamp::now().as_second() + 3600;
        let src0 = source(seed, 0, None);
        let s0 = do_backup(&h, &src0).map_err(e)?;
        let src1 = source(seed ^ 0x5555, 7, None);
        let _s1 = do_backup(&h, &src1).map_err(e)?;
        h.open().map_err(e)?.delete_snapshots(&[s0.id]).map_err(e)?;
        // prune A plans at T0 ...
        let ra = h.open().map_err(e)?;
        let o = popts();
        let plan_a = hook::plan_at(&ra, &o, Timestamp::from_second(t0).unwrap().to_zoned(TimeZone::UTC)).map_err(e)?;
        // ... a backup loads the index (the packs of the forgotten snapshot are still unmarked) ...
        let rb = h.open().map_err(e)?.to_indexed_ids().map_err(e)?;
        // ... A writes its index: marks carry the plan time T0 ...
        ra.prune(&o, plan_a.plan).map_err(e)?;
        // ... prune C, keep-delete + 10 min after A's plan, deletes them ...
        prune_at(&h, t0 + KD + 600).map_err(e)?;
        // ... the backup (same content as the forgotten snapshot) finishes
        let snap = rb
            .archive(&rustic_core::BackupOptions::default(), &src0, SnapshotFile::default(), &[PathBuf::from(repo::SRC_ROOT)])
            .map_err(e)?;
        // follow-up prune cannot bring anything back: the pack files are gone
        let follow = prune_at(&h, t0 + KD + 4200);
        let errs = check_errors_retry(&h, true);
        let r = h.open().and_then(|r| r.to_indexed()).map_err(e)?;
        let readable = repo::read_back(&r, &snap).is_ok();
        if follow.is_err() || errs != Some(0) || !readable {
            Ok("oracle-fail:slowprune-snapshot-lost-although-backup-shorter-than-keep-delete".into())
        } else {
            Ok("no-loss".into())
        }
    })();
    r.unwrap_or_else(|x| x)
}

pub fn exec(toks: &[&str]) -> String {
    let toks: Vec<String> = toks.iter().map(|s| (*s).to_string()).collect();
    guarded(move || {
        if toks.len() == 2 && toks[0] == "slowprune" {
            return toks[1].parse::<u64>().map_or("bad-op".into(), slow_prune);
        }
        if toks.len() == 6 && toks[0] == "mon" && toks[1] == "bfp" {
            let sp: Vec<&str> = toks[2].split(',').collect();
            if sp.len() != 3 {
                return "bad-op".into();
            }
            let (Ok(seed), Ok(k), Ok(code)) = (sp[0].parse::<u64>(), sp[1].parse::<usize>(), sp[2].parse::<u64>()) else { return "bad-op".into() };
            let Some(fp) = Fp::from_code(code) else { return "bad-op".into() };
            return match scenario_fp(seed, k, fp, Mode::Exec) {
                Ok(_) => "ok".into(),
                Err(e) => e,
            };
        }
        if toks.len() != 6 || toks[0] != "mon" || !["bp", "pb", "bb"].contains(&toks[1].as_str()) {
            return "bad-op".into();
        }
        let sp: Vec<&str> = toks[2].split(',').collect();
        if sp.len() < 2 || sp.len() > 3 {
            return "bad-op".into();
        }
        let (Ok(seed), Ok(k)) = (sp[0].parse::<u64>(), sp[1].parse::<usize>()) else { return "bad-op".into() };
        let j = match sp.get(2).map(|x| x.parse::<usize>()) {
            None => None,
            Some(Ok(j)) => Some(j),
            Some(Err(_)) => return "bad-op".into(),
        };
        match scenario(&toks[1], seed, k, j, Mode::Exec) {
            Ok(_) => "ok".into(),
            Err(e) => e,
        }
    })
}

/// the `bfp` family: every combination of (what the backup adds) × (one or two prunes) × (forget one / all) × (old / young
/// packs), `n_snaps` and `no_resize` by seed; every park position k.  The two further dimensions are SAMPLED so that the case
/// count stays (two random bits per round decide which half): `late_followup` on exactly half of the 24 combinations (both
/// values for every value of every other dimension), `mid_backup` on half of the 12 two-prune combinations (all three `a_new`,
/// both `forget`, both ages; with both values of `late_followup`) — so every round, whatever the seed, holds ≥ 12 histories
/// whose follow-up prune meets marks older than keep-delete and ≥ 6 in which a backup between two prunes makes the second
/// prune rewrite the index file of the still-marked packs.  Where a two-prune history without such a backup forgets ALL of ≥ 2
/// snapshots the forget is staged over the two prunes (`staged_forget`: the second prune marks more packs and so rewrites the
/// index file of the packs the first one marked, too).  thorough: four rounds = the four choices of the two bits, and
/// `mid_backup` on one-prune histories as well (the other backup runs after the only prune, before the parked backup resumes).
fn generate_fp(thorough: bool, rng: &mut Rng, ops: &mut Vec<String>, stats: &mut Stats) {
    for round in 0..if thorough { 4u64 } else { 1 } {
        let (r_late, r_mid) = if thorough { (round % 2, round / 2) } else { (rng.below(2), rng.below(2)) };
        for a_new in 0..3u64 {
            for prunes in 1..=2u64 {
                for forget_all in [false, true] {
                    for old_packs in [false, true] {
                        let seed = rng.below(1_000_000);
                        let late_followup = (a_new + prunes + u64::from(forget_all) + u64::from(old_packs) + r_late) % 2 == 1;
                        let mid_backup = (prunes == 2 || thorough) && (a_new + u64::from(forget_all) + r_mid) % 2 == 1;
                        let n_snaps = 1 + rng.below(3);
                        // where it applies (forget all of ≥ 2 snapshots, two prunes) the forget is staged over the two prunes in the
                        // histories WITHOUT a backup between the prunes (the other way to make prune 2 rewrite the marked packs' index file)
                        let staged_forget = forget_all && prunes == 2 && n_snaps >= 2 && !mid_backup;
                        let fp = Fp { n_snaps, forget_all, a_new, prunes, old_packs, no_resize: rng.below(2) == 1, late_followup, mid_backup, staged_forget };
                        let code = fp.code();
                        let n_a = guarded(move || match scenario_fp(seed, usize::MAX, fp, Mode::Count) {
                            Ok(r) => r.n_a.to_string(),
                            Err(e) => e,
                        })
                        .parse::<usize>()
                        .unwrap_or(0);
                        for k in 0..=n_a {
                            let spec = format!("{seed},{k},{code}");
                            let spec2 = spec.clone();
                            let line = guarded(move || match scenario_fp(seed, k, fp, Mode::Trace) {
                                Ok(r) => {
                                    let jn = |v: &[String]| if v.is_empty() { "-".to_string() } else { v.join(";") };
                                    format!("c10 mon bfp {spec} {} {} {} #{}", jn(&r.pre), jn(&r.run), jn(&r.follow), r.notes.join(","))
                                }
                                Err(e) => format!("c10 mon bfp {spec} - X{} -", e.split_whitespace().next().unwrap_or("?")),
                            });
                            let mut line = if line.starts_with("c10 ") { line } else { format!("c10 mon bfp {spec2} - X{} -", line.split_whitespace().next().unwrap_or("?")) };
                            // what the history really contained (not part of the op line)
                            if let Some((l, notes)) = line.clone().rsplit_once(" #") {
                                for n in notes.split(',').filter(|n| !n.is_empty()) {
                                    stats.hit(format!("bfp.{n}"));
                                }
                                line = l.to_string();
                            }
                            stats.hit("kind.bfp");
                            stats.hit(format!("bfp.adds{a_new}.prunes{prunes}.forget{}.{}", if forget_all { "all" } else { "one" }, if old_packs { "old" } else { "young" }));
                            stats.hit(format!("bfp.followup.{}", if late_followup { "keep-delete+1h-after-the-marking" } else { "1h-after-the-marking" }));
                            if mid_backup {
                                stats.hit("bfp.backup-between-the-two-prunes");
                            }
                            ops.push(line);
                        }
                    }
                }
            }
        }
    }
}

pub fn generate(thorough: bool, rng: &mut Rng, ops: &mut Vec<String>, stats: &mut Stats) {
    generate_fp(thorough, rng, ops, stats);
    let seeds = if thorough { 12 } else { 2 };
    for round in 0..seeds {
        for kind in ["bp", "pb", "bb"] {
            let seed = rng.below(1_000_000);
            // number of storage operations of A and of B (parked beyond the last operation = sequential run)
            let (n_a, n_b) = match guarded(move || match scenario(kind, seed, usize::MAX, Some(usize::MAX), Mode::Count) {
                Ok(r) => format!("{},{}", r.n_a, r.n_b),
                Err(e) => e,
            })
            .split_once(',')
            .map(|(a, b)| (a.parse::<usize>(), b.parse::<usize>()))
            {
                Some((Ok(a), Ok(b))) => (a, b),
                _ => (0, 0),
            };
            let ks: Vec<usize> = (0..=n_a).collect();
            // (k, j): A parked at k, B parked at j until A has finished.  thorough: every pair (first seed), quick: a sample
            let mut pairs: Vec<(usize, Option<usize>)> = ks.iter().map(|k| (*k, None)).collect();
            let mut all = vec![];
            for k in 0..n_a {
                for j in 1..n_b {
                    all.push((k, Some(j)));
                }
            }
            let _ = round;
            if thorough || all.len() <= 60 {
                pairs.extend(all);
            } else {
                for _ in 0..60 {
                    pairs.push(*rng.pick(&all));
                }
                pairs.sort_unstable();
                pairs.dedup();
            }
            for (k, j) in pairs {
                let spec = match j {
                    None => format!("{seed},{k}"),
                    Some(j) => format!("{seed},{k},{j}"),
                };
                let spec2 = spec.clone();
                let line = guarded(move || match scenario(kind, seed, k, j, Mode::Trace) {
                    Ok(r) => {
                        let jn = |v: &[String]| if v.is_empty() { "-".to_string() } else { v.join(";") };
                        format!("c10 mon {kind} {spec} {} {} {}", jn(&r.pre), jn(&r.run), jn(&r.follow))
                    }
                    Err(e) => format!("c10 mon {kind} {spec} - X{} -", e.split_whitespace().next().unwrap_or("?")),
                });
                let line = if line.starts_with("c10 ") { line } else { format!("c10 mon {kind} {spec2} - X{} -", line.split_whitespace().next().unwrap_or("?")) };
                stats.hit(format!("kind.{kind}"));
                stats.hit(if j.is_some() { "park.A-at-k.B-at-j" } else { "park.A-at-k.B-full" });
                ops.push(line);
            }
        }
    }
}
