//! C06 — chunker correspondence: real `ChunkIter` (hook `verif::chunker::chunk_iter`) and real
//! `rustic_cdc::Rabin64` vs. the Lean model; plus the direct oracle (lossless, bounds).
//! `rabinfail … <failat> <data>` / `fixedfail <size> <seed> <failat> <data>`: the same iterators on a reader that delivers
//! `data[..failat]` (fragmented by seed) and then answers every `read` with an error other than `Interrupted`
//! (`Model/ChunkerErr.lean`, theorem `reader_error_is_reported`) -> `ok <lengths of the Ok chunks> end=<err|none>`; oracle:
//! the iteration must end with `Some(Err)` (`oracle-fail:silent-truncation` if it ends with `None`) and the Ok chunks must
//! concatenate to a prefix of the delivered bytes.
use crate::util::{FragReader, Rng, Stats, guarded, hex, unhex};
use rustic_cdc::{Rabin64, RollingHash64};
use rustic_core::repofile::{Chunker, ConfigFile};

const DEFAULT_POLY: u64 = 0x003D_A335_8B4D_C173;

fn data_kind(rng: &mut Rng, n: usize, stats: &mut Stats) -> Vec<u8> {
    match rng.below(6) {
        0 => {
            stats.hit("data.zero");
            vec![0; n]
        }
        1 => {
            stats.hit("data.constant");
            vec![rng.next() as u8; n]
        }
        2 => {
            stats.hit("data.periodic");
            let period = 1 + rng.below(300) as usize;
            let pat = rng.bytes(period);
            (0..n).map(|i| pat[i % period]).collect()
        }
        3 => {
            stats.hit("data.low-entropy");
            let k = 2 + rng.below(3) as usize;
            let alpha = rng.bytes(k);
            (0..n).map(|_| *rng.pick(&alpha)).collect()
        }
        _ => {
            stats.hit("data.random");
            rng.bytes(n)
        }
    }
}

fn pick_len(rng: &mut Rng, min: usize, max: usize, cap: usize) -> usize {
    let c = match rng.below(14) {
        0 => 0,
        1 => 1,
        2 => min.saturating_sub(1),
        3 => min,
        4 => min + 1,
        5 => max.saturating_sub(1),
        6 => max,
        7 => max + 1,
        8 => min + 63,
        9 => min + 64,
        10 => 3 * max + rng.below(max as u64 + 1) as usize,
        _ => rng.below(cap as u64 + 1) as usize,
    };
    c.min(cap)
}

pub fn generate(thorough: bool, rng: &mut Rng, ops: &mut Vec<String>, stats: &mut Stats) {
    let n_rabin = if thorough { 2500 } else { 400 };
    let cap = if thorough { 600_000 } else { 60_000 };
    for i in 0..n_rabin {
        let poly = if rng.chance(1, 3) {
            DEFAULT_POLY
        } else {
            (rng.next() & ((1 << 54) - 1)) | (1 << 53) | 1
        };
        let avg_bits = if rng.chance(2, 3) { rng.range(6, 12) } else { rng.range(0, 16) };
        let avg = 1usize << avg_bits;
        let min = match rng.below(10) {
            0 => 1,
            1 => avg,
            2 => (avg / 2).max(1),
            3 => 63.min(avg),
            4 => 64.min(avg),
            5 => 65.min(avg),
            6 => 4095.min(avg),
            7 => 4097.min(avg),
            _ => rng.range(1, avg as u64) as usize,
        };
        let max = match rng.below(6) {
            0 => avg,
            1 => avg + 1,
            2 => 2 * avg,
            3 => 8 * avg,
            _ => rng.range(avg as u64, 8 * avg as u64) as usize,
        };
        stats.hit(format!("rabin.avg_bits.{avg_bits}"));
        stats.hit(if min < 64 { "rabin.min<64" } else if min < 4096 { "rabin.min<4096" } else { "rabin.min>=4096" });
        let len = pick_len(rng, min, max, cap);
        stats.hit(format!("len.{}", Stats::bucket(len)));
        stats.add("bytes", len as u64);
        let data = data_kind(rng, len, stats);
        let seed = rng.below(1 << 32);
        let _ = i;
        ops.push(format!("c06 rabin {poly:x} {avg} {min} {max} {seed} {}", hex(&data)));
    }
    // parameter sets `check_rabin_params` must refuse (the iterator validates for every file, also when the stored
    // configuration bypassed the `config` command): non-power-of-two or zero average, min = 0, min > avg, max < avg, max < min
    let n_bad = if thorough { 300 } else { 60 };
    for _ in 0..n_bad {
        let avg_ok = 1usize << rng.range(0, 14);
        let (avg, min, max) = match rng.below(7) {
            0 => (0, 0, rng.range(0, 100) as usize),
            1 => (avg_ok + 1 + rng.below(avg_ok as u64) as usize, 1, 8 * avg_ok + 8),
            2 => (avg_ok, 0, 2 * avg_ok),
            3 => (avg_ok, avg_ok + 1 + rng.below(4096) as usize, 8 * avg_ok + 8192),
            4 => (avg_ok, 1.max(avg_ok / 2), avg_ok - 1),
            5 => (avg_ok, avg_ok, rng.below(avg_ok as u64) as usize),
            _ => (3 * avg_ok, avg_ok, 4 * avg_ok),
        };
        if avg.is_power_of_two() && min >= 1 && min <= avg && avg <= max {
            continue;
        }
        stats.hit("rabin.refused-params");
        let len = rng.below(3 * 4096) as usize;
        let data = data_kind(rng, len, stats);
        let seed = rng.below(1 << 32);
        ops.push(format!("c06 rabin {DEFAULT_POLY:x} {avg} {min} {max} {seed} {}", hex(&data)));
    }
    // default parameters on multi-MiB inputs (Lean-side cost ≈ 1 µs/byte: one case in quick, three in thorough)
    {
        let (n, lo, hi) = if thorough { (3, 2u64 << 20, 12u64 << 20) } else { (1, 1u64 << 20, 3u64 << 20) };
        for _ in 0..n {
            let len = rng.range(lo, hi) as usize;
            let data = rng.bytes(len);
            stats.hit("rabin.default-params");
            stats.add("bytes", len as u64);
            let seed = rng.below(1 << 32);
            ops.push(format!(
                "c06 rabin {DEFAULT_POLY:x} {} {} {} {seed} {}",
                1 << 20,
                512 << 10,
                8 << 20,
                hex(&data)
            ));
        }
    }
    // failing readers: failure position at 0, inside / at the border of a chunk, at the buffer size, at the end, past the end
    for _ in 0..(if thorough { 1200 } else { 200 }) {
        let fixed = rng.chance(1, 4);
        let poly = if rng.chance(1, 3) { DEFAULT_POLY } else { (rng.next() & ((1 << 54) - 1)) | (1 << 53) | 1 };
        let avg_bits = rng.range(4, 12);
        let avg = 1usize << avg_bits;
        let min = match rng.below(6) {
            0 => 1,
            1 => avg,
            2 => 64.min(avg),
            3 => 4097.min(avg),
            _ => rng.range(1, avg as u64) as usize,
        };
        let max = match rng.below(4) {
            0 => avg,
            1 => 2 * avg,
            _ => rng.range(avg as u64, 8 * avg as u64) as usize,
        };
        let size = match rng.below(4) {
            0 => 1,
            1 => 4096,
            _ => rng.range(1, 9000) as usize,
        };
        let (lo, hi) = if fixed { (size, size) } else { (min, max) };
        let len = pick_len(rng, lo, hi, 20_000);
        let data = data_kind(rng, len, stats);
        let fail_at = match rng.below(10) {
            0 => 0,
            1 => len,
            2 => len + 1 + rng.below(10) as usize,
            3 => lo.min(len),
            4 => lo.saturating_sub(1).min(len),
            5 => hi.min(len),
            6 => 4096.min(len),
            7 => len.saturating_sub(1),
            _ => rng.below(len as u64 + 1) as usize,
        };
        let seed = rng.below(1 << 32);
        stats.hit(if fixed { "fail.fixed" } else { "fail.rabin" });
        stats.hit(if fail_at == 0 { "fail.at-0" } else if fail_at >= len { "fail.at-or-past-end" } else { "fail.inside" });
        if fixed {
            ops.push(format!("c06 fixedfail {size} {seed} {fail_at} {}", hex(&data)));
        } else {
            ops.push(format!("c06 rabinfail {poly:x} {avg} {min} {max} {seed} {fail_at} {}", hex(&data)));
        }
    }
    let n_fixed = if thorough { 600 } else { 120 };
    for _ in 0..n_fixed {
        let size = match rng.below(6) {
            0 => 1,
            1 => 2,
            2 => 4096,
            3 => 8000,
            _ => rng.range(1, 20_000) as usize,
        };
        let len = pick_len(rng, size, size, cap.min(20 * size + 7));
        stats.hit(format!("fixed.len.{}", Stats::bucket(len)));
        let data = data_kind(rng, len, stats);
        let seed = rng.below(1 << 32);
        ops.push(format!("c06 fixed {size} {seed} {}", hex(&data)));
    }
    let n_fp = if thorough { 1500 } else { 300 };
    for _ in 0..n_fp {
        let poly = if rng.chance(1, 3) {
            DEFAULT_POLY
        } else {
            (rng.next() & ((1 << 54) - 1)) | (1 << 53) | 1
        };
        let len = *rng.pick(&[0usize, 1, 2, 62, 63, 64, 65, 127, 128, 129, 300]);
        let len = if rng.chance(1, 2) { len } else { rng.below(400) as usize };
        let data = data_kind(rng, len, stats);
        stats.hit("fp");
        ops.push(format!("c06 fp {poly:x} {}", hex(&data)));
    }
}

fn config(chunker: Chunker, poly: u64, avg: usize, min: usize, max: usize) -> ConfigFile {
    let mut c = ConfigFile::new(2, Default::default(), poly);
    c.chunker = Some(chunker);
    c.chunk_size = Some(avg);
    c.chunk_min_size = Some(min);
    c.chunk_max_size = Some(max);
    c
}

fn run_chunker(cfg: &ConfigFile, data: &[u8], seed: u64) -> Result<Vec<Vec<u8>>, String> {
    let mode = (seed % 5) as u8;
    let hint = match (seed / 5) % 4 {
        0 => 0,
        1 => data.len(),
        2 => data.len() / 2,
        _ => usize::MAX,
    };
    let reader = FragReader::new(data.to_vec(), seed, mode);
    let it = rustic_core::verif::chunker::chunk_iter(cfg, reader, hint).map_err(|e| crate::util::errkind(&e))?;
    let mut chunks = Vec::new();
    for c in it {
        chunks.push(c.map_err(|e| crate::util::errkind(&e))?);
        if chunks.len() > data.len() + 2 {
            return Err("oracle-fail:nonterminating".into());
        }
    }
    Ok(chunks)
}

/// `data` through a fragmenting reader, then a persistent non-`Interrupted` error instead of end-of-file.
struct FailingReader {
    inner: FragReader,
}

impl std::io::Read for FailingReader {
    fn read(&mut self, buf: &mut [u8]) -> std::io::Result<usize> {
        if buf.is_empty() {
            return Ok(0);
        }
        match self.inner.read(buf) {
            Ok(0) => Err(std::io::Error::new(std::io::ErrorKind::Other, "injected read failure")),
            r => r,
        }
    }
}

fn run_failing(cfg: &ConfigFile, data: &[u8], fail_at: usize, seed: u64) -> String {
    let delivered = &data[..fail_at.min(data.len())];
    let mode = (seed % 5) as u8;
    let hint = match (seed / 5) % 4 {
        0 => 0,
        1 => data.len(),
        2 => data.len() / 2,
        _ => usize::MAX,
    };
    let reader = FailingReader { inner: FragReader::new(delivered.to_vec(), seed, mode) };
    let it = match rustic_core::verif::chunker::chunk_iter(cfg, reader, hint) {
        Ok(i) => i,
        Err(e) => return crate::util::errkind(&e),
    };
    let mut chunks: Vec<Vec<u8>> = Vec::new();
    let mut end = "none";
    for c in it {
        match c {
            Ok(c) => chunks.push(c),
            Err(_) => {
                end = "err";
                break;
            }
        }
        if chunks.len() > data.len() + 2 {
            return "oracle-fail:nonterminating".into();
        }
    }
    if end == "none" {
        // the reader failed, the consumer saw a normal end: a truncated stream that looks complete
        return "oracle-fail:silent-truncation".into();
    }
    let cat = chunks.concat();
    if cat.len() > delivered.len() || cat[..] != delivered[..cat.len()] {
        return "oracle-fail:chunks-not-a-prefix".into();
    }
    let v: Vec<String> = chunks.iter().map(|c| c.len().to_string()).collect();
    format!("ok {}{}end={end}", v.join(" "), if v.is_empty() { "" } else { " " })
}

fn lens(chunks: &[Vec<u8>]) -> String {
    let v: Vec<String> = chunks.iter().map(|c| c.len().to_string()).collect();
    if v.is_empty() { "ok ".to_string() } else { format!("ok {}", v.join(" ")) }
}

/// Direct property oracle on the implementation's output (independent of the model).
fn oracle(chunks: &[Vec<u8>], data: &[u8], min: usize, max: usize) -> Option<&'static str> {
    if chunks.concat() != data {
        return Some("oracle-fail:concat");
    }
    for (i, c) in chunks.iter().enumerate() {
        if c.is_empty() {
            return Some("oracle-fail:empty-chunk");
        }
        if c.len() > max {
            return Some("oracle-fail:above-max");
        }
        if i + 1 < chunks.len() && c.len() < min {
            return Some("oracle-fail:below-min");
        }
    }
    None
}

pub fn exec(t: &[&str]) -> String {
    let t: Vec<String> = t.iter().map(|s| (*s).to_string()).collect();
    guarded(move || match t.iter().map(String::as_str).collect::<Vec<_>>().as_slice() {
        ["rabin" | "litwin", poly, avg, min, max, seed, data] => {
            let (Ok(poly), Ok(avg), Ok(min), Ok(max), Ok(seed), Some(data)) = (
                u64::from_str_radix(poly, 16),
                avg.parse::<usize>(),
                min.parse::<usize>(),
                max.parse::<usize>(),
                seed.parse::<u64>(),
                unhex(data),
            ) else {
                return "bad-op".into();
            };
            let cfg = config(Chunker::Rabin, poly, avg, min, max);
            match run_chunker(&cfg, &data, seed) {
                Ok(chunks) => {
                    if let Some(f) = oracle(&chunks, &data, min, max) {
                        return f.into();
                    }
                    // fragmentation independence, directly: a second run with plain full reads
                    match run_chunker(&cfg, &data, 0) {
                        Ok(c2) if c2 == chunks => lens(&chunks),
                        _ => "oracle-fail:fragmentation".into(),
                    }
                }
                Err(e) => e,
            }
        }
        ["rabinfail", poly, avg, min, max, seed, fail_at, data] => {
            let (Ok(poly), Ok(avg), Ok(min), Ok(max), Ok(seed), Ok(fail_at), Some(data)) = (
                u64::from_str_radix(poly, 16),
                avg.parse::<usize>(),
                min.parse::<usize>(),
                max.parse::<usize>(),
                seed.parse::<u64>(),
                fail_at.parse::<usize>(),
                unhex(data),
            ) else {
                return "bad-op".into();
            };
            if min == 0 {
                return "bad-op".into();
            }
            run_failing(&config(Chunker::Rabin, poly, avg, min, max), &data, fail_at, seed)
        }
        ["fixedfail", size, seed, fail_at, data] => {
            let (Ok(size), Ok(seed), Ok(fail_at), Some(data)) = (size.parse::<usize>(), seed.parse::<u64>(), fail_at.parse::<usize>(), unhex(data)) else {
                return "bad-op".into();
            };
            if size == 0 {
                return "bad-op".into();
            }
            run_failing(&config(Chunker::FixedSize, DEFAULT_POLY, size, size, size), &data, fail_at, seed)
        }
        ["fixed", size, seed, data] => {
            let (Ok(size), Ok(seed), Some(data)) = (size.parse::<usize>(), seed.parse::<u64>(), unhex(data)) else {
                return "bad-op".into();
            };
            let cfg = config(Chunker::FixedSize, DEFAULT_POLY, size, size, size);
            match run_chunker(&cfg, &data, seed) {
                Ok(chunks) => {
                    if let Some(f) = oracle(&chunks, &data, size, size) {
                        return f.into();
                    }
                    lens(&chunks)
                }
                Err(e) => e,
            }
        }
        ["fp", poly, data] => {
            let (Ok(poly), Some(data)) = (u64::from_str_radix(poly, 16), unhex(data)) else {
                return "bad-op".into();
            };
            let mut r = Rabin64::new_with_polynom(6, &poly);
            for b in data {
                r.slide(b);
            }
            format!("ok {:016x}", r.hash)
        }
        _ => "bad-op".into(),
    })
}
