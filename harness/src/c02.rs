//! C02 — prune: real `PrunePlan` (hook `verif::prune`) vs. the Lean model on crafted index states (`plan`),
//! `PackInfo::from_pack` directly (`info`), and real histories {backup, forget, prune} with direct oracles
//! (`hist`): after every prune `check(read_data)` is clean, every live snapshot reads back exactly, and no
//! pack is removed by a non-instant prune unless it was marked long enough ago.
use std::collections::{BTreeMap, BTreeSet};

use bytes::Bytes;
use bytesize::ByteSize;
use rustic_core::jiff::{Span, Timestamp, tz::TimeZone};
use rustic_core::repofile::{BlobType, FileType, IndexFile, IndexId, IndexPack, PackId, SnapshotFile};
use rustic_core::verif::prune as hook;
use rustic_core::verif::prune::PlanReport;
use rustic_core::{BackupOptions, BlobId, ConfigOptions, Id, LimitOption, PruneOptions};

use crate::repo::{self, MemBackend, MemSource, RepoHandle, SrcEntry};
use crate::util::{Rng, Stats, guarded};

#[path = "c02_hist.rs"]
pub mod hist;

// ---------------------------------------------------------------------------------------------------------
// abstract ids  <->  real ids
// ---------------------------------------------------------------------------------------------------------
pub fn abs_id(kind: u8, n: u64) -> Id {
    format!("ab{kind:02x}{n:060x}").parse().unwrap()
}
pub fn abs_of(id: &Id) -> Option<u64> {
    let h = id.to_hex();
    let s = h.as_str();
    if s.starts_with("ab") { u64::from_str_radix(&s[4..], 16).ok() } else { None }
}
const K_PACK: u8 = 1;
const K_BLOB: u8 = 2;

#[derive(Clone, Debug)]
pub struct ABlob {
    pub tree: bool,
    pub id: u64,
    pub offset: u32,
    pub length: u32,
    pub compressed: bool,
}
#[derive(Clone, Debug)]
pub struct APack {
    pub id: u64,
    pub time: Option<i64>,
    pub size: Option<u32>,
    pub blobs: Vec<ABlob>,
}
#[derive(Clone, Debug)]
pub struct AFile {
    pub id: u64,
    pub packs: Vec<APack>,
    pub del: Vec<APack>,
}

fn key_str(tree: bool, id: u64) -> String {
    format!("{}{}", if tree { "t" } else { "d" }, id)
}
fn join(v: &[String], sep: &str) -> String {
    if v.is_empty() { "-".into() } else { v.join(sep) }
}
fn opt<T: ToString>(o: &Option<T>) -> String {
    o.as_ref().map_or("n".into(), |x| x.to_string())
}
fn blob_str(b: &ABlob) -> String {
    format!("{}/{}/{}/{}", key_str(b.tree, b.id), b.offset, b.length, u8::from(b.compressed))
}
fn pack_str(p: &APack) -> String {
    format!("{}:{}:{}:{}", p.id, opt(&p.time), opt(&p.size), join(&p.blobs.iter().map(blob_str).collect::<Vec<_>>(), "."))
}
fn file_str(f: &AFile) -> String {
    format!(
        "{}|{}|{}",
        f.id,
        join(&f.packs.iter().map(pack_str).collect::<Vec<_>>(), "+"),
        join(&f.del.iter().map(pack_str).collect::<Vec<_>>(), "+")
    )
}

fn split_list<'a>(s: &'a str, sep: char) -> Vec<&'a str> {
    if s == "-" { vec![] } else { s.split(sep).collect() }
}
fn parse_key(s: &str) -> Option<(bool, u64)> {
    let (t, r) = s.split_at(1);
    let n = r.parse().ok()?;
    match t {
        "t" => Some((true, n)),
        "d" => Some((false, n)),
        _ => None,
    }
}
fn parse_blob(s: &str) -> Option<ABlob> {
    let v: Vec<&str> = s.split('/').collect();
    if v.len() != 4 {
        return None;
    }
    let (tree, id) = parse_key(v[0])?;
    Some(ABlob { tree, id, offset: v[1].parse().ok()?, length: v[2].parse().ok()?, compressed: v[3] != "0" })
}
fn parse_opt<T: std::str::FromStr>(s: &str) -> Option<Option<T>> {
    if s == "n" { Some(None) } else { s.parse().ok().map(Some) }
}
fn parse_pack(s: &str) -> Option<APack> {
    let v: Vec<&str> = s.split(':').collect();
    if v.len() != 4 {
        return None;
    }
    let blobs = split_list(v[3], '.').into_iter().map(parse_blob).collect::<Option<Vec<_>>>()?;
    Some(APack { id: v[0].parse().ok()?, time: parse_opt(v[1])?, size: parse_opt(v[2])?, blobs })
}
fn parse_file(s: &str) -> Option<AFile> {
    let v: Vec<&str> = s.split('|').collect();
    if v.len() != 3 {
        return None;
    }
    Some(AFile {
        id: v[0].parse().ok()?,
        packs: split_list(v[1], '+').into_iter().map(parse_pack).collect::<Option<Vec<_>>>()?,
        del: split_list(v[2], '+').into_iter().map(parse_pack).collect::<Option<Vec<_>>>()?,
    })
}

fn to_index_pack(p: &APack) -> IndexPack {
    let blobs: Vec<serde_json::Value> = p
        .blobs
        .iter()
        .map(|b| {
            let mut o = serde_json::json!({
                "id": abs_id(K_BLOB, b.id).to_hex().as_str(),
                "type": if b.tree { "tree" } else { "data" },
                "offset": b.offset,
                "length": b.length,
            });
            if b.compressed {
                o["uncompressed_length"] = serde_json::json!(b.length.max(1) * 2);
            }
            o
        })
        .collect();
    let mut o = serde_json::json!({ "id": abs_id(K_PACK, p.id).to_hex().as_str(), "blobs": blobs });
    if let Some(s) = p.size {
        o["size"] = serde_json::json!(s);
    }
    let mut ip: IndexPack = serde_json::from_value(o).expect("index pack json");
    ip.time = p.time.map(|t| Timestamp::from_second(t).unwrap());
    ip
}
fn to_index_file(f: &AFile) -> IndexFile {
    let mut i = IndexFile::default();
    i.packs = f.packs.iter().map(to_index_pack).collect();
    i.packs_to_delete = f.del.iter().map(to_index_pack).collect();
    i
}

fn parse_limit(s: &str) -> Option<LimitOption> {
    match s.split_at(1) {
        ("u", "") => Some(LimitOption::Unlimited),
        ("s", n) => Some(LimitOption::Size(ByteSize(n.parse().ok()?))),
        ("p", n) => Some(LimitOption::Percentage(n.parse().ok()?)),
        _ => None,
    }
}

pub struct POpts {
    pub now: i64,
    pub opts: PruneOptions,
    pub cacheable_only: bool,
    pub fast: bool,
    pub instant: bool,
    pub early: bool,
}

/// `now,keepPack,keepDelete,FLAGS,maxRepack,maxUnused`
pub fn parse_opts(s: &str) -> Option<POpts> {
    let v: Vec<&str> = s.split(',').collect();
    if v.len() != 6 || v[3].len() != 7 {
        return None;
    }
    let f: Vec<bool> = v[3].chars().map(|c| c == '1').collect();
    let opts = PruneOptions::default()
        .keep_pack(Span::new().seconds(v[1].parse::<i64>().ok()?))
        .keep_delete(Span::new().seconds(v[2].parse::<i64>().ok()?))
        .repack_cacheable_only(Some(f[0]))
        .repack_uncompressed(f[1])
        .repack_all(f[2])
        .no_resize(f[3])
        .instant_delete(f[4])
        .early_delete_index(f[5])
        .fast_repack(f[6])
        .max_repack(parse_limit(v[4])?)
        .max_unused(parse_limit(v[5])?);
    Some(POpts { now: v[0].parse().ok()?, opts, cacheable_only: f[0], fast: f[6], instant: f[4], early: f[5] })
}

fn todo_str(t: &rustic_core::verif::prune::PackDecision) -> &'static str {
    match t.to_do.as_str() {
        "Undecided" => "U",
        "Keep" => "K",
        "Repack" => "R",
        "MarkDelete" => "M",
        "KeepMarked" => "k",
        "KeepMarkedAndCorrect" => "c",
        "Recover" => "V",
        "Delete" => "D",
        _ => "?",
    }
}

fn pack_abs(id: &PackId) -> String {
    let id: Id = **id;
    abs_of(&id).map_or_else(|| format!("x{}", id.to_hex().as_str()), |n| n.to_string())
}

fn size_stats(s: &rustic_core::verif::prune::SizeStats) -> String {
    format!("{}/{}/{}/{}/{}", s.used, s.unused, s.remove, s.repack, s.repackrm)
}

/// Decode what a prune run did from the backend log and the stores before/after.
/// Returns the `X:` part of the observation.
pub fn exec_obs(
    h: &RepoHandle,
    before: &repo::Store,
    log: &[repo::LogOp],
    idx_abs: &BTreeMap<Id, u64>,
    expect_early: bool,
) -> String {
    let writes: Vec<usize> = log.iter().enumerate().filter(|(_, o)| o.write).map(|(i, _)| i).collect();
    let rm_idx: Vec<usize> =
        log.iter().enumerate().filter(|(_, o)| !o.write && o.tpe == FileType::Index).map(|(i, _)| i).collect();
    let rm_pack: Vec<usize> =
        log.iter().enumerate().filter(|(_, o)| !o.write && o.tpe == FileType::Pack).map(|(i, _)| i).collect();
    if log.iter().any(|o| !matches!(o.tpe, FileType::Index | FileType::Pack)) {
        return "oracle-fail:unexpected-file-type".into();
    }
    // phase order
    let first_other = writes.iter().chain(rm_idx.iter()).min().copied().unwrap_or(usize::MAX);
    let last_other = writes.iter().chain(rm_idx.iter()).max().copied();
    let first: Vec<usize> = rm_pack.iter().copied().filter(|i| *i < first_other).collect();
    let later: Vec<usize> = rm_pack.iter().copied().filter(|i| *i > first_other).collect();
    if let Some(lo) = last_other {
        if later.iter().any(|i| *i < lo) {
            return "oracle-fail:order-pack-removed-before-index-phase-done".into();
        }
    }
    if !writes.is_empty() && !rm_idx.is_empty() {
        let (wmin, wmax) = (*writes.first().unwrap(), *writes.last().unwrap());
        let (rmin, rmax) = (*rm_idx.first().unwrap(), *rm_idx.last().unwrap());
        let ok = if expect_early { rmax < wmin } else { wmax < rmin };
        if !ok {
            return "oracle-fail:order-index-removal-vs-writes".into();
        }
    }
    // a pack must be written before the index file that lists it
    let after = h.be.store();
    let new_index_ids: Vec<Id> = log.iter().filter(|o| o.write && o.tpe == FileType::Index).map(|o| o.id).collect();
    let new_pack_ids: BTreeSet<Id> = log.iter().filter(|o| o.write && o.tpe == FileType::Pack).map(|o| o.id).collect();
    let Ok(files) = decode_index_files(h, &after, &new_index_ids) else {
        return "oracle-fail:new-index-undecodable".into();
    };
    let mut new_u = vec![];
    let mut new_b = vec![];
    let mut new_m = vec![];
    for (iid, f) in &files {
        let ipos = log.iter().position(|o| o.write && o.id == **iid).unwrap();
        for p in &f.packs {
            let pid: Id = *p.id;
            if new_pack_ids.contains(&pid) {
                let ppos = log.iter().position(|o| o.write && o.id == pid).unwrap();
                if ppos > ipos {
                    return "oracle-fail:order-pack-indexed-before-written".into();
                }
                for b in &p.blobs {
                    let bid: Id = *b.id;
                    new_b.push(key_str(b.tpe == BlobType::Tree, abs_of(&bid).unwrap_or(u64::MAX)));
                }
            } else {
                new_u.push(format!("{}@{}", pack_abs(&p.id), opt(&p.time.map(|t| t.as_second()))));
            }
        }
        for p in &f.packs_to_delete {
            new_m.push(format!("{}@{}", pack_abs(&p.id), opt(&p.time.map(|t| t.as_second()))));
        }
    }
    // every new pack must be listed in a new index file
    let listed: BTreeSet<Id> = files.iter().flat_map(|(_, f)| f.packs.iter().map(|p| *p.id)).collect();
    if new_pack_ids.iter().any(|p| !listed.contains(p)) {
        return "oracle-fail:new-pack-not-indexed".into();
    }
    let _ = before;
    new_u.sort();
    new_b.sort();
    new_m.sort();
    let mut f: Vec<u64> = first.iter().map(|i| abs_of(&log[*i].id).unwrap_or(u64::MAX)).collect();
    f.sort_unstable();
    let mut ri: Vec<u64> = rm_idx.iter().map(|i| idx_abs.get(&log[*i].id).copied().unwrap_or(u64::MAX)).collect();
    ri.sort_unstable();
    let mut rp: Vec<u64> = later.iter().map(|i| abs_of(&log[*i].id).unwrap_or(u64::MAX)).collect();
    rp.sort_unstable();
    let js = |v: &[u64]| join(&v.iter().map(u64::to_string).collect::<Vec<_>>(), ",");
    format!(
        "first={} newU={} newB={} newM={} rmI={} rmP={} early={}",
        js(&f),
        join(&new_u, ","),
        join(&new_b, ","),
        join(&new_m, ","),
        js(&ri),
        js(&rp),
        u8::from(expect_early)
    )
}

/// Decode index files (by id) out of a store, through a scratch backend holding config + keys + those files.
pub fn decode_index_files(h: &RepoHandle, store: &repo::Store, ids: &[Id]) -> Result<Vec<(IndexId, IndexFile)>, String> {
    let scratch = MemBackend::new();
    let mut m = repo::Store::new();
    for ((t, id), b) in store {
        if *t == repo::ft_idx(FileType::Config) || *t == repo::ft_idx(FileType::Key) {
            _ = m.insert((*t, *id), b.clone());
        }
    }
    for id in ids {
        let k = (repo::ft_idx(FileType::Index), *id);
        match store.get(&k) {
            Some(b) => _ = m.insert(k, b.clone()),
            None => return Err("missing".into()),
        }
    }
    scratch.set_store(m);
    let h2 = RepoHandle { be: scratch, hot: None, key: h.key.clone() };
    let r = h2.open().map_err(|e| format!("{e}"))?;
    let mut out = vec![];
    for item in r.stream_files::<IndexFile>().map_err(|e| format!("{e}"))? {
        let (id, f) = item.map_err(|e| format!("{e}"))?;
        out.push((IndexId::from(id), f));
    }
    Ok(out)
}

fn zoned(secs: i64) -> rustic_core::jiff::Zoned {
    Timestamp::from_second(secs).unwrap().to_zoned(TimeZone::UTC)
}

fn parse_sizers(s: &str) -> Option<(rustic_core::verif::packer::PackSizer, rustic_core::verif::packer::PackSizer)> {
    let v: Vec<u64> = s.split(',').map(|x| x.parse().ok()).collect::<Option<Vec<_>>>()?;
    if v.len() != 12 {
        return None;
    }
    let mk = |o: usize| {
        rustic_core::verif::packer::pack_sizer(v[o] as u32, v[o + 1] as u32, v[o + 2] as u32, v[o + 3], v[o + 4] as u32, v[o + 5] as u32)
    };
    Some((mk(0), mk(6)))
}

fn exec_plan(t: &[&str]) -> String {
    let (Some(po), Some((ts, ds))) = (parse_opts(t[0]), parse_sizers(t[1])) else { return "bad-op".into() };
    let Some(used) = split_list(t[2], ',').into_iter().map(parse_key).collect::<Option<Vec<_>>>() else { return "bad-op".into() };
    let existing: Option<Vec<(u64, u32)>> = split_list(t[3], ',')
        .into_iter()
        .map(|x| {
            let (a, b) = x.split_once(':')?;
            Some((a.parse().ok()?, b.parse().ok()?))
        })
        .collect();
    let Some(existing) = existing else { return "bad-op".into() };
    let Some(files) = split_list(t[4], ';').into_iter().map(parse_file).collect::<Option<Vec<_>>>() else { return "bad-op".into() };

    let Ok((h, repo)) = RepoHandle::init(MemBackend::new(), None, &ConfigOptions::default()) else { return "oracle-fail:init".into() };
    // store the crafted index files and fake packs
    let mut idx_abs: BTreeMap<Id, u64> = BTreeMap::new();
    let mut index_files = vec![];
    for f in &files {
        let file = to_index_file(f);
        let Ok(id) = rustic_core::verif::repository::save_file(&repo, &file) else { return "oracle-fail:save-index".into() };
        // two abstract files with identical content get one id: keep the first abstract name
        _ = idx_abs.entry(id).or_insert(f.id);
        index_files.push((IndexId::from(id), to_index_file(f)));
    }
    for (p, size) in &existing {
        h.be.put_raw(FileType::Pack, abs_id(K_PACK, *p), Bytes::from(vec![0x5a; *size as usize]));
    }
    let used_real: Vec<(BlobType, BlobId)> =
        used.iter().map(|(t, n)| (if *t { BlobType::Tree } else { BlobType::Data }, BlobId::from(abs_id(K_BLOB, *n)))).collect();
    let existing_real: Vec<(PackId, u32)> = existing.iter().map(|(p, s)| (PackId::from(abs_id(K_PACK, *p)), *s)).collect();
    let sizers = hook::pack_sizers(ts, ds);
    let rep: PlanReport = match hook::plan_from_parts(used_real, existing_real, index_files, &po.opts, zoned(po.now), po.cacheable_only, &sizers) {
        Ok(r) => r,
        Err(_) => return "err".into(),
    };
    let dec: Vec<String> = rep
        .decisions
        .iter()
        .map(|d| {
            let iid: Id = *d.index;
            format!("{}/{}/{}{}", idx_abs.get(&iid).copied().unwrap_or(u64::MAX), pack_abs(&d.pack), u8::from(d.marked), todo_str(d))
        })
        .collect();
    let st = &rep.plan.stats;
    let mut rebuild: Vec<u64> = rep.rebuild.iter().map(|i| { let i: Id = **i; idx_abs.get(&i).copied().unwrap_or(u64::MAX) }).collect();
    rebuild.sort_unstable();
    let mut left: Vec<String> = rep
        .used_left
        .iter()
        .map(|(t, id)| { let id: Id = **id; key_str(*t == BlobType::Tree, abs_of(&id).unwrap_or(u64::MAX)) })
        .collect();
    left.sort();
    left.dedup();
    let need_repack = rep.decisions.iter().any(|d| todo_str(d) == "R");
    let head = format!(
        "ok D={} B=t:{},d:{} S=t:{},d:{} P={}/{}/{}/{}/{} TD={}/{}/{}/{}/{}/{} UR={}/{} IF={}/{} R={} L={}",
        join(&dec, ","),
        size_stats(&st.blobs[BlobType::Tree]),
        size_stats(&st.blobs[BlobType::Data]),
        size_stats(&st.size[BlobType::Tree]),
        size_stats(&st.size[BlobType::Data]),
        st.packs.used, st.packs.partly_used, st.packs.unused, st.packs.repack, st.packs.keep,
        st.packs_to_delete.remove, st.packs_to_delete.recover, st.packs_to_delete.keep,
        st.size_to_delete.remove, st.size_to_delete.recover, st.size_to_delete.keep,
        st.packs_unref, st.size_unref, st.index_files, st.index_files_rebuild,
        join(&rebuild.iter().map(u64::to_string).collect::<Vec<_>>(), ","),
        join(&left, ","),
    );
    if need_repack && !po.fast {
        return format!("{head} X: skip");
    }
    // execute against the recording backend
    let before = h.be.store();
    h.be.clear_log();
    if let Err(e) = repo.prune(&po.opts, rep.plan) {
        return format!("{head} X: exec-{}", crate::util::errkind(&e));
    }
    let log = h.be.log();
    format!("{head} X: {}", exec_obs(&h, &before, &log, &idx_abs, po.early && po.instant))
}

fn exec_info(t: &[&str]) -> String {
    let mut counts: BTreeMap<(BlobType, BlobId), u8> = BTreeMap::new();
    let mut keys = vec![];
    for x in split_list(t[0], ',') {
        let Some((k, n)) = x.split_once('=') else { return "bad-op".into() };
        let (Some((tree, id)), Ok(n)) = (parse_key(k), n.parse::<u8>()) else { return "bad-op".into() };
        keys.push((tree, id));
        _ = counts.insert((if tree { BlobType::Tree } else { BlobType::Data }, BlobId::from(abs_id(K_BLOB, id))), n);
    }
    let Some(packs) = split_list(t[1], '+').into_iter().map(parse_pack).collect::<Option<Vec<_>>>() else { return "bad-op".into() };
    let mut outs = vec![];
    for p in &packs {
        let ip = to_index_pack(p);
        let (a, b, c, d) = hook::pack_info(ip.blobs, &mut counts);
        outs.push(format!("{a}/{b}/{c}/{d}"));
    }
    let mut seen = BTreeSet::new();
    let after: Vec<String> = keys
        .iter()
        .filter(|k| seen.insert(**k))
        .map(|(tree, id)| format!("{}={}", key_str(*tree, *id), counts.get(&(if *tree { BlobType::Tree } else { BlobType::Data }, BlobId::from(abs_id(K_BLOB, *id)))).copied().unwrap_or(0)))
        .collect();
    format!("ok {} C={}", join(&outs, ","), join(&after, ","))
}

pub fn exec(toks: &[&str]) -> String {
    let toks: Vec<String> = toks.iter().map(|s| (*s).to_string()).collect();
    guarded(move || {
        let t: Vec<&str> = toks.iter().map(String::as_str).collect();
        match t.first().copied() {
            Some("plan") if t.len() == 6 => exec_plan(&t[1..]),
            Some("info") if t.len() == 3 => exec_info(&t[1..]),
            Some("hist") if t.len() >= 3 => hist::exec_hist(&t[1..]),
            _ => "bad-op".into(),
        }
    })
}

// ---------------------------------------------------------------------------------------------------------
// generator
// ---------------------------------------------------------------------------------------------------------
const NOW: i64 = 1_000_000;

fn gen_blobs(rng: &mut Rng, tree: bool, universe: u64, maxn: u64, compressed_bias: u64) -> Vec<ABlob> {
    let n = rng.below(maxn + 1);
    let mut off = 0u32;
    let mut v = vec![];
    for _ in 0..n {
        let length = *rng.pick(&[1u32, 7, 20, 20, 50, 100, 400]);
        v.push(ABlob { tree, id: 1 + rng.below(universe), offset: off, length, compressed: rng.below(4) < compressed_bias });
        off += length;
    }
    v
}

fn computed_size(blobs: &[ABlob]) -> u32 {
    36 + blobs.iter().map(|b| b.length + if b.compressed { 41 } else { 37 }).sum::<u32>()
}

fn gen_time(rng: &mut Rng, kp: i64, kd: i64) -> Option<i64> {
    match rng.below(10) {
        0 => None,
        1 => Some(NOW - kp),
        2 => Some(NOW - kp + 1),
        3 => Some(NOW - kp - 1),
        4 => Some(NOW - kd),
        5 => Some(NOW - kd + 1),
        6 => Some(NOW - kd - 1),
        7 => Some(NOW + 10),
        _ => Some(NOW - rng.below(200_000) as i64),
    }
}

fn gen_limit(rng: &mut Rng) -> String {
    match rng.below(9) {
        0 => "u".into(),
        1 => "s0".into(),
        2 => format!("s{}", rng.below(600)),
        3 => "s1000000".into(),
        4 => "p0".into(),
        5 => "p5".into(),
        6 => "p10".into(),
        7 => format!("p{}", rng.below(100)),
        _ => "p99".into(),
    }
}

pub fn gen_plan(rng: &mut Rng, stats: &mut Stats, big: bool) -> String {
    let universe = 1 + rng.below(8);
    let n_packs = 1 + rng.below(if big { 16 } else { 9 });
    let kp = *rng.pick(&[0i64, 0, 100, 5000]);
    let kd = *rng.pick(&[0i64, 100, 82_800]);
    // distinct packs
    let mut packs: Vec<APack> = vec![];
    for id in 1..=n_packs {
        let tree = rng.chance(1, 3);
        let cb = *rng.pick(&[0u64, 4, 4, 2]);
        let blobs = gen_blobs(rng, tree, universe, 5, cb);
        let size = match rng.below(4) {
            0 => None,
            _ => Some(computed_size(&blobs) + *rng.pick(&[0u32, 0, 0, 3])),
        };
        packs.push(APack { id, time: gen_time(rng, kp, kd), size, blobs });
    }
    if rng.chance(1, 25) {
        // more than 255 duplicates of one blob
        stats.hit("plan.over255");
        let reps = 256 + rng.below(60);
        let mut off = 0;
        let blobs: Vec<ABlob> = (0..reps)
            .map(|_| {
                let b = ABlob { tree: false, id: 1, offset: off, length: 2, compressed: true };
                off += 2;
                b
            })
            .collect();
        packs[0] = APack { id: 1, time: Some(NOW - 100_000), size: None, blobs };
    }
    let n_files = 1 + rng.below(3);
    let mut files: Vec<AFile> = (0..n_files).map(|i| AFile { id: 1 + i, packs: vec![], del: vec![] }).collect();
    for p in &packs {
        let f = rng.below(n_files) as usize;
        let marked = rng.chance(1, 4);
        if marked { files[f].del.push(p.clone()) } else { files[f].packs.push(p.clone()) }
        // duplicates: same pack listed again (same / other file, same / other section)
        if rng.chance(1, 6) {
            stats.hit("plan.dup-pack-entry");
            let f2 = rng.below(n_files) as usize;
            let mut q = p.clone();
            if rng.chance(1, 2) {
                q.time = gen_time(rng, kp, kd);
            }
            if rng.chance(1, 2) { files[f2].del.push(q) } else { files[f2].packs.push(q) }
        }
    }
    // existing packs
    let mut existing: Vec<String> = vec![];
    let bad = if rng.chance(1, 10) { Some((rng.below(n_packs) + 1, rng.chance(1, 2))) } else { None };
    for p in &packs {
        let real = p.size.unwrap_or_else(|| computed_size(&p.blobs));
        match bad {
            Some((id, true)) if id == p.id => stats.hit("plan.pack-missing"),
            Some((id, false)) if id == p.id => {
                stats.hit("plan.pack-wrong-size");
                existing.push(format!("{}:{}", p.id, real + 1));
            }
            _ => existing.push(format!("{}:{}", p.id, real)),
        }
    }
    for k in 0..rng.below(3) {
        if rng.chance(1, 3) {
            stats.hit("plan.unreferenced-pack");
            existing.push(format!("{}:{}", 100 + k, 10 + rng.below(500)));
        }
    }
    // used keys: mostly keys that occur in some pack (under their own type; the same id under the other type
    // is a cross-type collision)
    let mut present: BTreeSet<(bool, u64)> = BTreeSet::new();
    for p in &packs {
        for b in &p.blobs {
            _ = present.insert((b.tree, b.id));
        }
    }
    let mut used: Vec<String> = vec![];
    let dens = 1 + rng.below(4);
    for (tree, id) in &present {
        if rng.chance(dens, 5) {
            used.push(key_str(*tree, *id));
        }
    }
    if rng.chance(1, 30) {
        stats.hit("plan.used-not-indexed");
        used.push(key_str(false, 99));
    }
    let mut flags: Vec<bool> = (0..7).map(|i| rng.chance(1, if i == 6 { 2 } else { 4 })).collect();
    if flags[1] && flags[6] {
        flags[6] = false; // repack_uncompressed conflicts with fast_repack
    }
    if flags[5] && !flags[4] && rng.chance(1, 2) {
        flags[4] = true;
    }
    let fl: String = flags.iter().map(|b| if *b { '1' } else { '0' }).collect();
    let opts = format!("{NOW},{kp},{kd},{fl},{},{}", gen_limit(rng), gen_limit(rng));
    let total: u32 = packs.iter().map(|p| p.blobs.iter().map(|b| b.length).sum::<u32>()).sum();
    let sz = |rng: &mut Rng| {
        let default = *rng.pick(&[50u32, 200, 600, 4000]);
        let grow = *rng.pick(&[0u32, 0, 1, 32]);
        let limit = *rng.pick(&[100u32, 1000, 4_000_000_000]);
        let minp = *rng.pick(&[0u32, 30, 30, 100]);
        let maxp = *rng.pick(&[u32::MAX, u32::MAX, 100, 300]);
        format!("{default},{grow},{limit},{total},{minp},{maxp}")
    };
    let sizers = format!("{},{}", sz(rng), sz(rng));
    stats.hit(format!("plan.files={n_files}"));
    stats.hit(format!("plan.flags.instant={}", u8::from(flags[4])));
    format!(
        "c02 plan {opts} {sizers} {} {} {}",
        join(&used, ","),
        join(&existing, ","),
        join(&files.iter().map(file_str).collect::<Vec<_>>(), ";")
    )
}

fn gen_info(rng: &mut Rng) -> String {
    let universe = 1 + rng.below(5);
    let mut counts = vec![];
    for id in 1..=universe {
        if rng.chance(3, 4) {
            let n = *rng.pick(&[0u64, 1, 1, 2, 3, 5, 255]);
            counts.push(format!("{}={}", key_str(rng.chance(1, 2), id), n));
        }
    }
    let n = 1 + rng.below(4);
    let packs: Vec<String> = (0..n)
        .map(|i| {
            let tree = rng.chance(1, 2);
            pack_str(&APack { id: i + 1, time: None, size: None, blobs: gen_blobs(rng, tree, universe, 7, 2) })
        })
        .collect();
    format!("c02 info {} {}", join(&counts, ","), join(&packs, "+"))
}

pub fn generate(thorough: bool, rng: &mut Rng, ops: &mut Vec<String>, stats: &mut Stats) {
    let (n_plan, n_info, n_hist, n_big) = if thorough { (12_000, 4000, 1700, 12) } else { (1200, 400, 140, 3) };
    // the real histories come first: `check` examines the first disagreements it meets, and a failing history is a
    // failing input of the property (a differing plan observation is only a model/implementation disagreement)
    for i in 0..n_big {
        ops.push(hist::gen_hist_big(rng, stats, i % 3 != 1));
        stats.hit("op.hist");
    }
    for _ in 0..n_hist {
        ops.push(hist::gen_hist(rng, stats, thorough));
        stats.hit("op.hist");
    }
    for _ in 0..n_info {
        ops.push(gen_info(rng));
        stats.hit("op.info");
    }
    for i in 0..n_plan {
        ops.push(gen_plan(rng, stats, i % 5 == 0));
        stats.hit("op.plan");
    }
}

#[allow(dead_code)]
fn _unused(_: &MemSource, _: &SrcEntry, _: &BackupOptions, _: &SnapshotFile) {}
