"""C11 — per-property knobs of ./check (see DESIGN.md §6 C11, notes/C11.md)."""
THEOREMS_TIED = ["Rustic.Props.C11.cursor_walk_refines_lookup", "Rustic.Props.C11.parent_eq_full",
                 "Rustic.Props.C11.reuse_requires_indexed", "Rustic.Props.C11.missing_blob_forces_reread",
                 "Rustic.Props.C11.tree_iterator_sorted_source_queriesOK", "Rustic.Props.C11.parent_eq_full_sorted_source",
                 "Rustic.Props.C11.changed_stat_never_matches", "Rustic.Props.C11.subsecond_change_never_matches"]

TRUSTED = [
    "hand-written models lean/Rustic/Model/{Tree,Parent,Archive}.lean of archiver/parent.rs, archiver/tree.rs, archiver/tree_archiver.rs, archiver/file_archiver.rs, archiver.rs",
    "correspondence harness harness/src/c11.rs (real Parent::process through hook verif::parent on trees stored in an in-memory repository; real backup pairs on MemBackend)",
    "tree ids are a function of the node list (Tree::serialize = sha256 of the JSON of `nodes`); ids abstract in the model, never compared across sides",
    "std: Ord for OsStr is byte-wise lexicographic; serde_json/zstd round trip of stored trees",
]
ASSUMPTIONS = [
    "parent_eq_full_sorted_source is stated for sorted parent trees (SortedStore), a source forest walked depth-first in name order (WalkableL, SortedL — that its TreeIterator items are queriesOK is now a theorem, tree_iterator_sorted_source_queriesOK) and a parent that is faithful (every entry with equal type/size/mtime/ctime has the content a fresh read gives)",
    "a parent directory node without subtree (hostile tree) makes Parent::process panic (`subtree.unwrap()`): modelled as panicNoSubtree, not generated",
    "parent selection by group / latest (ParentOptions::get_parent) is exercised end-to-end only, not modelled",
]
RULE = ("ops from harness/src/c11.rs, one splitmix64 PRNG (VERIF_SEED): `proc` = random parent forests (0-3 roots, depth<=2, shared/missing subtrees, sorted and unsorted, "
        "duplicate names, relabelled id order) x item streams derived by mutation (mtime/size/ctime/ctime-none/inode/type change, removed, added, unbalanced EndTree) x "
        "ignore_ctime/ignore_inode x random index; time stamps are full (second, nanosecond) pairs encoded as secs + (nanos << 32): stamps equal to the nanosecond, differing only in the nanoseconds and differing only in the seconds all occur (1/3 of the mtime/ctime mutations change the nanoseconds only); `e2e` = real backup histories (see notes), preceded on every run by 64 directed histories at the two borders of the property: "
        "a file rewritten in place with equal size and mtime (ctime the only witness) under all 8 combinations of ignore_ctime/ignore_inode/skip_if_unchanged, and an unchanged multi-chunk "
        "file of which only some chunks are still indexed (first chunk surviving, later one gone; first gone; all gone), and 80 sub-second histories (a same-size in-place rewrite whose mtime and/or ctime differ from the parent's only in the nanoseconds — +1 ns, -1 ns, across .999999999, +0.5 s —, next second with equal nanoseconds, unchanged to the nanosecond; flags 000/100/010/001); 2/3 of the random e2e histories get sub-second stamps (changed stamps moved into the same second as the parent's with probability 1/2). Non-trivial = at least one Matched or NotMatched answer / at least one reused or re-read file; "
        "distinct by hash of (op, observation).")
EXPLANATION = ("Theorems: TreeIterator over a depth-first, name-sorted source yields exactly the bracketed walk and queries names in non-decreasing order per level; cursor walk of Parent refines lookup-by-name under sortedness (never skips an equal name; several parents; directory stack); parent-based root tree id = forced "
               "root tree id for every faithful parent; reuse only if all blobs indexed, else re-read; stat/type change never matches, time stamps compared to the nanosecond (subsecond_change_never_matches). Correspondence: per item the real Parent::process "
               "answer (Matched/NotMatched/NotFound, matched subtree, content put into the node) equals the model's; end-to-end: real parent-based vs forced backups.")


def nontrivial(op, obs):
    return (":M" in obs) or (":NM" in obs) or ("reads=" in obs and "reads=-" not in obs)


def finding_key(op, impl, model):
    t = op.split(" ")
    k = "c11." + (t[1] if len(t) > 1 else "?")
    if impl.startswith(("panic", "oracle-fail", "err")):
        k += ":" + impl.split(" ")[0][:80]
    return k


def is_property_failure(op, impl, model):
    # e2e: the model's eq=1 is the proved consequence of a faithful parent (parent_eq_full); a real run that yields
    # different trees for the parent-based and the forced backup of that very input is a failing input.  Oracle
    # failures (unreadable / wrong parent-based snapshot, forced run not reading every file) and panics likewise.
    # A differing `proc` answer or counter is a model/implementation disagreement (no-failing-input-found).
    if impl.startswith(("oracle-fail", "panic")):
        return True
    t = op.split(" ")
    return len(t) > 1 and t[1] == "e2e" and " eq=0 " in impl + " " and " eq=1 " in model + " "
