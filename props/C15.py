"""C15 — per-property knobs of ./check (see DESIGN.md §6 C15)."""
THEOREMS_TIED = ["Rustic.Props.C15.append_only_no_removal", "Rustic.Props.C15.dry_run_no_ops",
                 "Rustic.Props.C15.expected_agrees_with_table"]

TRUSTED = [
    "hand-written command table lean/Rustic/Model/CommandTable.lean (one row per public Repository operation, read off repository.rs, commands/{backup,prune,rewrite,config}.rs, commands/repair/*.rs, blob/tree/modify.rs, backend/dry_run.rs) — the theorems are as good as this table",
    "traffic harness harness/src/c15.rs over harness/src/repo.rs MemBackend (op log of every write_bytes/remove the real commands issue) and OneConfigBackend (single config file)",
    "content addressing: a write under an existing id carries identical bytes (checked by the harness: every pre-existing snapshot/index/pack file is byte-identical after every command)",
]
ASSUMPTIONS = [
    "plain (not hot/cold) repository, in-memory backend, no cache; hot/cold traffic belongs to C16",
    "operations that exist only in the CLI (e.g. `forget --prune` orchestration) are compositions of the library operations in the table",
    "key add/remove are in the table (key files are outside the property's protected set) but only exercised by the corpus (scrypt cost)",
]
RULE = ("ops from harness/src/c15.rs (VERIF_SEED): every command token once on a freshly append-only repository holding two snapshots; random sequences of 2..7 commands "
        "(backup new/same/dry, forget, prune variants, prune_plan, repair index/snapshots with and without delete/dry-run/read-all, rewrite snapshots/trees with and without "
        "forget/dry-run, config changes incl. switching append-only off and on again, copy into, check, restore, repair hotcold); every dry-run flag on an intact repository, "
        "after removing an index file, after removing a data pack. Non-trivial = every case (each runs real commands against recorded storage); distinct by hash of (op, observation).")
EXPLANATION = ("Theorems (over the command table): on an append-only repository no command issues a removal of snapshot/index/pack; every command that can remove such files is "
               "refused before any storage operation; a dry-run flag means no operation at all; along any history of conforming commands every protected file survives while the "
               "flag is on; the flag can only be cleared by apply_config(set_append_only=false); the harness' expectations agree with the table. Correspondence: result and kinds of "
               "storage operations of the real commands equal the table's; oracles: pre-existing protected files byte-identical after every command on an append-only repository, "
               "refused command => empty op log, dry-run => whole store byte-identical.")


def nontrivial(op, obs):
    return obs.startswith("ok ")


def finding_key(op, impl, model):
    t = op.split(" ")
    k = "c15." + (t[1] if len(t) > 1 else "?")
    if impl.startswith(("panic", "oracle-fail", "err")):
        return k + ":" + impl.split(" ")[0][:90]
    # first differing command
    a, b = impl[3:].split(","), model[3:].split(",")
    for x, y in zip(a, b):
        if x != y:
            return k + ":" + x
    return k


def is_property_failure(op, impl, model):
    # oracle failures are direct violations; a removal of a protected file kind or any operation under a dry-run
    # flag that the table does not predict is a failing input too.  Other disagreements (e.g. an additional
    # snapshot write) are table/code mismatches without a property failure.
    if impl.startswith(("oracle-fail", "panic")):
        return True
    if not impl.startswith("ok "):
        return False
    a, b = impl[3:].split(","), model[3:].split(",")
    for x, y in zip(a, b):
        if x == y:
            continue
        kinds = x.rsplit(":", 1)[-1].split("+") if ":" in x else x.split("=")[-1].split("+")
        if any(k in ("r.snapshot", "r.index", "r.pack") for k in kinds):
            return True
        if op.split(" ")[1] == "dry" and x.split("=")[-1] != "-":
            return True
        if ".dry" in x.split("=")[0] and kinds != ["-"] and kinds != ["*"]:
            return True
        # an accepted destructive command
        if y.split("=")[1].startswith("err:") and x.split("=")[1].startswith("ok"):
            return True
    return False
