"""C15 — per-property knobs of ./check (see DESIGN.md §6 C15)."""
THEOREMS_TIED = ["Rustic.Props.C15.append_only_no_removal", "Rustic.Props.C15.destructive_refused_before_storage",
                 "Rustic.Props.C15.dry_run_no_ops", "Rustic.Props.C15.expected_agrees_with_table",
                 "Rustic.Props.C15.table_covers_api", "Rustic.Props.C15.table_rows_exist", "Rustic.Props.C15.dry_flags_covered",
                 "Rustic.Props.C15.every_dry_flag_has_effective_twin", "Rustic.Props.C15.append_only_left_only_by_config",
                 "Rustic.Props.C15.expected_rejected_config_agrees", "Rustic.Props.C15.rejected_config_change_keeps_every_guard",
                 "Rustic.Props.C15.handle_flag_is_table_flag", "Rustic.Props.C15.prune_guard_precedes_unindexed_packs",
                 "Rustic.Props.C15.prune_steps_conform_to_table", "Rustic.Props.C15.repair_index_dry_run_issues_nothing",
                 "Rustic.Props.C15.repair_index_steps_conform_to_table",
                 "Rustic.Props.C15.backup_dry_run_no_mutation_for_every_source", "Rustic.Props.C15.backup_steps_conform_to_table",
                 "Rustic.Props.C15.backup_hands_every_option_to_archive", "Rustic.Props.C15.every_backup_source_has_effective_dry_twin"]

TRUSTED = [
    "hand-written command table lean/Rustic/Model/CommandTable.lean: WHAT each row may write/remove and where it is refused is read off repository.rs, "
    "commands/{backup,prune,rewrite,config,merge,copy,init,restore}.rs, commands/repair/*.rs, blob/tree/modify.rs, backend/dry_run.rs and validated by traffic; "
    "WHICH methods exist is not trusted: tools/c15_api_table.py regenerates lean/Rustic/Gen/RepositoryApi.lean from the current repository.rs on every run "
    "(regex: `pub fn` inside inherent `impl … Repository<…>` blocks; `dry_run: bool` parameters; `pub dry_run: bool` fields under crates/core/src) and the "
    "theorems table_covers_api / table_rows_exist / dry_flags_covered must re-prove",
    "the reviewed read-only list (`Cmd.methods .readOnly`, 53 constructors / accessors / readers): reviewed by hand; the ones the harness calls (token `readonly`, "
    "check, restore, prune_plan, prepare_restore) are checked to issue no write/remove",
    "hand-written statement-order model lean/Rustic/Model/CommandSteps.lean of prune_repository (guard, unindexed packs / instant_delete, early index removal, "
    "remainder) and repair_index (per index file, header loop with Indexer::add_with auto-save at the generated constant C15_INDEXER_MAX_COUNT or MAX_AGE, finalize): "
    "read off commands/prune.rs, commands/repair/index.rs, index/indexer.rs; validated by traffic on repositories with unindexed packs and with more than "
    "MAX_COUNT blobs; and of backup() (commands/backup.rs: source selection from the `source` argument and `stdin_command`, the options handed to archive() = a clone "
    "with parent_opts.force for `-` / the caller's options otherwise, archive() running the archiver behind DryRunBackend::new(.., opts.dry_run), backend/dry_run.rs); "
    "the archiver itself is an arbitrary function in that model; validated by traffic through Repository::backup from a stdin command and from a directory on disk",
    "traffic harness harness/src/c15.rs over harness/src/repo.rs MemBackend (op log of every write_bytes/remove the real commands issue, on the cold AND the hot store) "
    "and OneConfigBackend (single config file)",
    "content addressing: a write under an existing id carries identical bytes (checked by the harness: every pre-existing snapshot/index/pack file of every store is "
    "byte-identical after every command)",
]
ASSUMPTIONS = [
    "the table has ONE append-only flag per repository: the guards read the in-memory config of the handle they are called on, and handle_flag_is_table_flag "
    "(over the config model Rustic.Config.applyConfigH, tied by C18's apply/seq/seq1 channels and by `c15 hnd`) shows that flag to be the table's; `aox` re-opens "
    "the repository before every command, `hnd` keeps the handle a config change was applied to for the next command (a command consumes its handle: "
    "to_indexed*(self)), so handles that outlive a command are not exercised",
    "backup source kinds: Repository::archive with the harness' in-memory ReadSource, Repository::backup of a temp directory (LocalSource) and of `-` with "
    "stdin_command = echo / printf (ChildStdoutSource) are driven; `backup -` WITHOUT a command (StdinSource) reads the process' standard input, which is the "
    "harness' op stream, and is covered by the model/theorems only (in backup() both stdin forms use the same cloned options)",
    "in-memory backends, no local cache; hot/cold pairs are two recorded in-memory stores (crash/fault interleavings of hot/cold belong to C16)",
    "operations that exist only in the CLI (`forget --prune`, `merge --delete`) are compositions of the library operations in the table; `merge --delete` is "
    "exercised as merge_snapshots followed by delete_snapshots",
    "there is no dry-run flag in prune (prune_plan is the dry form; `prune` executes a plan), copy, merge, apply_config, add_key/delete_key, delete_snapshots, "
    "init* — confirmed mechanically by dry_flags_covered; prepare_restore's dry_run concerns the local destination (the repository is read-only either way)",
    "append-only protects snapshot/index/pack files; key and config files are outside the protected set — in particular `init_with_config` over an existing "
    "append-only repository replaces the config (and so can clear the flag) without any guard: the table has that row and the traffic check confirms it (token `reinit`)",
    "the indexer's age trigger (MAX_AGE = 5 min) is not reachable by traffic; the theorems quantify over it (PackRead.aged), the traffic covers the blob-count trigger",
    "on damaged setups (all data packs lost before the flag was set) the observation is coarse (refused|ran + kinds without snapshot writes); the oracles are not",
]
RULE = ("ops from harness/src/c15.rs (VERIF_SEED): ONE-handle histories (`hnd`): append-only repository -> apply_config(set_append_only(false) + an option value rejected "
        "inside ConfigOptions::apply; all 9 rejectable options: version, chunker parameter, compression, tree/data pack size and size limit > u32, min/max tolerate "
        "percent) -> each of 11 destructive commands on the same handle (plain: every option x every command; hot/cold, damaged, damaged hot/cold: two options per "
        "command), rejected set_append_only(true) / other options on armed and disarmed handles, accepted off/on changes followed by destructive commands on the "
        "same handle, 120 (thorough 1500) random one-handle histories; then every command token once on a freshly append-only repository holding two snapshots, on four setups (plain, hot/cold, "
        "damaged = every data pack lost so that both snapshots need repair, damaged hot/cold); the allowed path of every destructive command (append-only switched "
        "off, and switched off and on again); random sequences of 2..7 commands over 62 tokens (backup new/same x dry-run on/off x source kind: "
        "in-memory ReadSource via Repository::archive, a directory on disk and a stdin command (`-` + stdin_command echo/printf) via Repository::backup; per setup and source "
        "kind also the fixed line dry.new,new,dry.same,same,restore and a one-handle line with the flag disarmed; forget, prune variants, prune_plan, repair "
        "index/snapshots with and without delete/dry-run/read-all, rewrite snapshots/trees with and without forget/dry-run/tree-changing exclude, merge with and "
        "without deleting the merged snapshots, config changes incl. switching append-only off and on again, key add/remove, copy into, check, restore, restore "
        "planning with its dry-run flag, a batch of ~30 read-only methods, repair hotcold (4 forms), init / init_with_config / init_hot over the existing repository); "
        "setups orph / hcorph = pack files listed by no index file (interrupted third backup) x 14 prune tokens covering every field of PruneOptions (instant_delete, "
        "early_delete_index, repack_all, fast_repack, repack_uncompressed, repack_cacheable_only, no_resize, max_unused, max_repack, keep_delete, keep_pack, ignore_snaps): alone, "
        "after a rejected config change on one handle, allowed and re-armed paths, inside random sequences; "
        "every dry-run flag on intact and damaged repositories (`dry`), repair_index dry runs on repositories with more than the indexer's MAX_COUNT blobs (64-byte fixed-size "
        "chunks; read-all, or every index file lost; plain and hot/cold), and 50 `dryt` scenarios (11 of them backups from a stdin command / a local directory on plain, hot/cold and damaged repositories) where the NON-dry twin is run afterwards on the same repository and what "
        "it wrote/removed is part of the observation. Non-trivial = every case (each runs real commands against recorded storage); distinct by hash of (op, observation).")
EXPLANATION = ("Theorems (over the command table, for plain and hot/cold repositories): on an append-only repository no command issues a removal of snapshot/index/pack; "
               "every command that can remove such files is refused before any storage operation; a dry-run flag means no operation at all; along any history of "
               "conforming commands every protected file survives while the flag is on; the flag can only be cleared by apply_config(set_append_only=false) or by "
               "init_with_config over the repository; a refused command changes nothing, a config change rejected by a validation (alone or together with "
               "set_append_only(false)) is refused in every state and leaves the outcome of every command as it was (rejected_config_change_keeps_every_guard), and the "
               "table's flag is the in-memory flag of the handle in the config model of apply_config (handle_flag_is_table_flag: Err => in-memory config unchanged); the harness' expectations agree with the table; the table classifies exactly the public methods of Repository in "
               "the current source and every dry-run flag of the current source, and every dry-run row has a scenario (also on hot/cold) whose non-dry twin really "
               "writes/removes — for backup per drivable source kind (every_backup_source_has_effective_dry_twin). The table's backup row carries the source kind (caller's ReadSource, local "
               "paths, stdin, stdin command), so all of the above quantifies over it; Model/CommandSteps.lean follows backup() -> archive() -> DryRunBackend: for every source kind, "
               "every option set and ANY archiver behaviour the options archive() gets are the caller's except parent_opts.force (backup_hands_every_option_to_archive), a dry-run "
               "backup lets no operation reach the repository (backup_dry_run_no_mutation_for_every_source), without the flag everything the archiver issues does and it conforms to "
               "the row (backup_steps_conform_to_table); the variant that rebuilds the options for a stdin source from the stdin-relevant fields provably writes in dry-run mode for "
               "stdin / stdin command only (fresh_stdin_options_write_in_dry_run). Statement order (Model/CommandSteps.lean): prune_repository on an append-only repository returns AppendOnly with no operation for all options, all sets of "
               "unindexed packs and all plans (the guard precedes the unindexed-pack block; the variant with the guard below it provably removes them), a dry-run repair_index issues "
               "nothing for all index files / packs / blob counts / indexer-age patterns (the variant guarding only finalize provably writes at MAX_COUNT blobs), and both functions conform "
               "to their table rows. Correspondence: result and kinds of storage operations of the real commands equal the table's, on both stores of hot/cold pairs; "
               "a refused config change leaves the handle's in-memory config as it was (`hnd`/`aox`: observed through repo.config() after every refused apply_config); "
               "oracles: pre-existing protected files byte-identical in every store after every command on an append-only repository, refused command => empty op log, "
               "dry-run => every store byte-identical, read-only methods => empty op log, a non-dry Repository::backup from a stdin command / a directory returns a stored snapshot "
               "that reads back to exactly the command's output / the directory's file contents.")


def nontrivial(op, obs):
    return obs.startswith("ok ")


def _split(obs):
    return obs[3:].split(",") if obs.startswith("ok ") else []


def finding_key(op, impl, model):
    t = op.split(" ")
    k = "c15." + (t[1] if len(t) > 1 else "?")
    if impl.startswith(("panic", "oracle-fail", "err")):
        return k + ":" + impl.split(" ")[0][:90]
    # first differing command
    for x, y in zip(_split(impl), _split(model)):
        if x != y:
            return k + ":" + x
    return k


def _parts(elem):
    """'<cmd>=<result>:<kinds>' -> (cmd, result, [kinds]); dry channel '<cmd>=<kinds>[ twin=…]' -> (cmd, '', [kinds])"""
    cmd, _, rest = elem.partition("=")
    rest = rest.split(" ")[0]
    if ":" in rest:
        res, _, kinds = rest.rpartition(":")
    else:
        res, kinds = "", rest
    return cmd, res, kinds.split("+")


PROTECTED_REMOVALS = ("r.snapshot", "r.index", "r.pack")


def is_property_failure(op, impl, model):
    # oracle failures are direct violations; a removal of a protected file kind the table does not predict, any operation
    # under a dry-run flag, and an accepted destructive command are failing inputs too.  Other disagreements (an additional
    # snapshot write, a different twin) are table/code mismatches without a property failure.
    if impl.startswith(("oracle-fail", "panic")):
        return True
    if not impl.startswith("ok "):
        return False
    chan = op.split(" ")[1] if " " in op else ""
    if chan in ("dry", "dryt"):
        _, _, kinds = _parts(impl[3:])
        return kinds != ["-"]
    for x, y in zip(_split(impl), _split(model)):
        if x == y:
            continue
        cmd, res, kinds = _parts(x)
        _, mres, mkinds = _parts(y)
        if any(k in PROTECTED_REMOVALS and k not in mkinds for k in kinds):
            return True
        if "dry" in cmd.split(".") and kinds not in (["-"], ["*"]):
            return True
        # an accepted destructive command
        if (mres.startswith("err:") or mres == "refused") and res in ("ok", "ran"):
            return True
    return False
