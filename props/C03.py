"""C03 — per-property knobs of ./check (see DESIGN.md §6 C03, notes/C03.md)."""
import re
THEOREMS_TIED = ["Rustic.Props.C03.every_prefix_consistent", "Rustic.Props.C03.publish_protocol_safe",
                 "Rustic.Props.C03.prune_protocol_safe", "Rustic.Props.C03.prune_protocol_safe_all_options", "Rustic.Props.C03.prune_full_protocol_safe", "Rustic.Props.C03.pruneOpsFull_in_phase_language", "Rustic.Props.C03.monitor_sound",
                 "Rustic.Props.C03.replace_protocol_loses_no_snapshot", "Rustic.Props.C03.loss_monitor_sound",
                 "Rustic.Props.C03.index_lists_only_written_packs", "Rustic.Props.C03.failed_op_reports_error"]

TRUSTED = [
    "hand-written abstract protocol model lean/Rustic/Model/Repo.lean (storage = pack / index / snapshot files; Consistent = index sound + every snapshot closure indexed)",
    "hand-written packer / file-writer / indexer actor model lean/Rustic/Model/PackerActor.lean (queue, result stream with read-ahead, shared indexer with the "
    "auto-save rule, finalize); tied to the code by the writer-language and auto-save-rule replay of `c03 big` traces with the generated constant C03_INDEXER_MAX_COUNT",
    "occurrence-class abstraction of blob keys for `c03 big` traces (harness/src/c03.rs abstract_tokens_classes): keys occurring in exactly the same packs, index "
    "entries and snapshot closures are identified",
    "trace abstraction in harness/src/c03.rs: backend log of MemBackend -> abstract ops (index files decoded with the key through Repository::stream_files, "
    "snapshot closures by Repository::ls on the union of the stores before and after)",
    "MemBackend fault injection (crash_at / fail_only) of harness/src/repo.rs",
    "succession of snapshots (harness/src/c03.rs Succession / replacement_token): the successor of a snapshot is the new snapshot of the complete run that "
    "names it in `original` (fallback: carries its time); a snapshot gone at the end of the complete run WITHOUT successor counts as removed on purpose",
]
ASSUMPTIONS = [
    "single-store repositories (hot/cold interruption belongs to C16); instant-delete + early-delete-index excluded (documented unsafe; theorems prune_early_delete_index_unsafe, prune_flag_table)",
    "linearisations are the ones observed on MemBackend (the packers' writer threads are real threads)",
    "a blob listed by an index entry is in the pack file (index truthful) — established for the generated states by check(read_data) before the command",
]
RULE = ("one op line per (command, seed): commands backup, forget, prune (non-instant: deletes packs marked by an earlier prune, repacks, marks; repack-all / fast-repack / max-unused / keep-delete 0 or one day by seed), "
        "prune-instant (no early-delete-index), prune-early (early-delete-index WITHOUT instant-delete: inside the property, inert in the code; for the three prune "
        "commands EVERY operation is a crash and a fault point also in quick), merge, copy (into a non-empty destination), rewrite (glob by seed, with or without forget), repair snapshots (after losing a "
        "data pack), repair index --read-all, repair index (without --read-all, on the state an interrupted prune leaves: packs listed by two index files), config change (OneConfigBackend), key add, key remove; states from 2-4 backups of an evolving source with small "
        "pack sizes; plus `c03 big`: a backup of more than MAX_COUNT (50 000) tiny blobs so that the indexer auto-saves an index file mid-run, faults on the pack "
        "writes / index write around the auto-save, oracles: every listed pack exists, check(read_data), retry of the backup is clean and reads back. The trace (embedded at generation time from a real run) is judged by the Lean monitor at EVERY prefix; "
        "exec re-runs the real command with crash_at=k and fail_only=k (quick: ~12 sampled k incl. first/last; thorough: every k) and checks the stored state "
        "with check(read_data) + read-back of every visible snapshot + 'no previously existing snapshot is lost' (every snapshot of the pre-state that the complete run "
        "keeps or replaces is present as itself or as a snapshot with its successor's content; every k from the first snapshot write/removal on is a crash and a fault point "
        "also in quick). Non-trivial = trace with at least 2 operations.")
EXPLANATION = ("Theorems: operation lemmas (writePack always; writeIndex iff listed packs stored; writeSnapshot iff closure indexed; removeIndex/removePack "
               "under coverage premises); every prefix of a step-wise safe run is consistent; protocol theorems for backup/copy/merge/rewrite/repair-snapshots "
               "(packs -> index -> snapshots -> removals), replace_protocol_loses_no_snapshot (rewrite --forget / repair snapshots --delete: new snapshot files, then removal of "
               "the replaced ones: after every prefix every snapshot that existed is stored as itself or as its successor; remove_before_save_loses_snapshot: the reverse order "
               "is consistent at every prefix but loses a snapshot - seen by the loss monitor firstLost, loss_monitor_sound), forget, config/key, prune (writes -> old index files -> old packs, for every covered combination of instant_delete x early_delete_index: pruneOpsOpt models the "
               "two conditions of prune_repository, early_delete_index alone is the safe order); negative results with witnesses "
               "(repair-snapshots order before the fix, repair-index --read-all, early-delete-index, index-before-pack); a failed op stops the sequential protocol in a "
               "prefix state; on the packer/file-writer/indexer actor model, for every schedule (interleaving of all stages of all writers and choice of failing "
               "operations): index_lists_only_written_packs (every stored index file, auto-saved or final, lists only written packs) and failed_op_reports_error "
               "(result Ok iff no storage operation failed). Correspondence: the real command's decoded trace is consistent after every prefix and in the command's phase language; direct "
               "oracles on the real code for crash_at=k and fail_only=k.")


def nontrivial(op, obs):
    t = op.split(" ")
    run = t[5] if len(t) >= 6 and t[1] == "mon" else (t[4] if len(t) >= 5 and t[1] == "big" else "")
    return run.count(";") >= 1 or run == "O"


def finding_key(op, impl, model):
    t = op.split(" ")
    cmd = t[2] if len(t) > 2 else "?"
    if len(t) > 1 and t[1] == "big":
        cmd = "big" + cmd.split(",")[0]
    k = "c03." + (t[1] if len(t) > 1 else "mon") + "." + cmd
    if impl.startswith(("panic", "oracle-fail")):
        k += ":" + re.sub(r"@\d+/\d+$", "", impl.split(" ")[0])[:90]
    elif model.startswith("bad:"):
        k += ":model-" + re.sub(r"\d+$", "", model)
    return k


def is_property_failure(op, impl, model):
    # a crash/fault state that fails check or read-back, or a trace with an inconsistent prefix, is a failing input
    # … and so is a trace with a prefix that has lost a snapshot (neither itself nor its successor stored)
    return impl.startswith(("oracle-fail", "panic")) or model.startswith(("bad:prefix", "bad:lost"))
