"""C10 — per-property knobs of ./check (see DESIGN.md §6 C10, notes/C10.md)."""
import re
THEOREMS_TIED = ["Rustic.Props.C10.overlap_no_loss", "Rustic.Props.C10.next_prune_recovers", "Rustic.Props.C10.step_preserves_Inv",
                 "Rustic.Props.C10.relied_pack_not_deletable", "Rustic.Props.C10.backup_backup_any_interleaving",
                 "Rustic.Props.C10.slow_prune_can_lose", "Rustic.Props.C10.needed_marked_pack_recovered_whatever_its_age",
                 "Rustic.Props.C10.kept_marked_packs_keep_their_blobs", "Rustic.Props.C10.backup_over_two_prunes_recovered"]

TRUSTED = [
    "hand-written models lean/Rustic/Model/Interleave.lean (two-actor interleaving with ghost fields) and Model/Repo.lean (protocol model)",
    "gating harness harness/src/c10.rs: command A on its own thread, parked by MemBackend's gate before its k-th storage operation while command B runs "
    "completely; trace abstraction shared with C03 (harness/src/c03.rs)",
    "prune time injection through hook verif::prune::plan_at (the hook repeats PrunePlan::from_prune_options; C02 compares it with the unhooked planner)",
]
ASSUMPTIONS = [
    "real clock replaced by injected plan times; the observed interleavings are 'A parked at k, B complete' and 'A parked at k, B parked at j until A has finished' "
    "(quick: sampled k and 4 sampled (k, j) per kind; thorough: every k for 3 seeds and every (k, j) pair for the first seed of each kind)",
    "keep-delete (23 h) exceeds backup duration PLUS the time a prune needs between planning and writing its index (see known finding)",
    "non-instant prune only",
]
RULE = ("op lines `c10 mon bfp seed,k,code`: a backup parked after its index load / before its k-th storage operation while the newest or all snapshots are forgotten "
        "and one or two prunes run (pure-reuse backups that add no blob, prune keeping nothing, plan times beyond keep-delete after pack creation; all 24 combinations "
        "per round; where all of >= 2 snapshots are forgotten in a two-prune history the forget may be staged over the two prunes; on half of them the follow-up prune runs keep-delete + 1 h after the last marking prune instead of 1 h after — the marks it meets are older than "
        "keep-delete and what the late backup needs must be recovered all the same; on half of the two-prune combinations ANOTHER backup runs between the two prunes, so "
        "that the second prune merges two small index files and rewrites the index file listing the still-marked packs — stats.json bfp.prune2.keeps-marked.REWRITES-their-index-file, "
        "bfp.followup.recovers.marks-OLDER-than-keep-delete count the histories in which this really happened); op lines `c10 mon <bp|pb|bb> seed,k[,j]`: state = 3 backups of an evolving source, one snapshot forgotten and pruned two keep-delete periods ago (marked packs "
        "that the concurrent prune deletes), another forgotten just before; A in {backup of a version sharing content with the forgotten snapshots, prune}, "
        "parked before its k-th storage operation; B runs fully, or (seed,k,j) on a gated thread up to its j-th operation where it waits for A to finish; then follow-up prune one hour later + check(read_data) + read back of all snapshots. "
        "The interleaved trace (embedded at generation time) is judged by the Lean driver after every prefix. `c10 slowprune` replays theorem slow_prune_can_lose.")
EXPLANATION = ("Theorems: the invariant Inv (I1 snapshot keys stored+listed and not planned for deletion, I2 relied keys listed since t0-span, I3 plans delete only "
               "packs marked keep-delete before the plan, I4 own packs) is preserved by all eight step kinds (step_preserves_Inv); hence overlap_no_loss for every "
               "reachable state of the interleaving model (any number of backups and prunes, induction over step lists) and next_prune_recovers (the follow-up prune "
               "makes every snapshot readable; next_prune_recovers_however_late: at any later time); needed_marked_pack_recovered_whatever_its_age (Recover tests the use, never the "
               "age of the mark; no hypothesis relating mark time, keep-delete and now), kept_marked_packs_keep_their_blobs (an index rewrite that keeps a pack marked keeps its mark "
               "time and blob list), backup_over_two_prunes_recovered (their composition over two prunes + snapshot save + follow-up prune at any later time), rewritten_index_listing_blobs_keeps_available / rewrite_dropping_blobs_loses "
               "(the same on the protocol model with index files, which the driver's monitor judges); hypothesis keep-delete > backup duration + prune span is a guard of the model, span = 0 is the literal hypothesis; "
               "timing core, removal only by plan, plan discipline, backup||backup = any interleaving of step-wise safe writes; negative result "
               "slow_prune_can_lose (literal hypothesis insufficient for the real code: marks carry the plan time; open finding). Correspondence: after "
               "every prefix of the real interleaved trace nothing a snapshot needs is lost; after the follow-up prune the repository is consistent; direct "
               "oracles: check(read_data) clean and every snapshot reads back exactly.")


def nontrivial(op, obs):
    t = op.split(" ")
    return len(t) >= 6 and t[5].count(";") >= 2


def finding_key(op, impl, model):
    t = op.split(" ")
    k = "c10." + (t[1] if len(t) > 1 else "?") + ("." + t[2] if len(t) > 2 and t[1] == "mon" else "")
    if impl.startswith(("panic", "oracle-fail")):
        k += ":" + re.sub(r"@\d+/\d+$", "", impl.split(" ")[0])[:100]
    elif model.startswith("bad:"):
        k += ":model-" + re.sub(r"\d+$", "", model)
    return k


def is_property_failure(op, impl, model):
    return impl.startswith(("oracle-fail", "panic")) or model.startswith("bad:lost")
