"""C09 — per-property knobs of ./check (see DESIGN.md §6 C09)."""
THEOREMS_TIED = ["Rustic.Props.C09.apply_eq_spec", "Rustic.Props.C09.kept_iff_rule", "Rustic.Props.C09.period_contiguous_fixed_offset",
                 "Rustic.Props.C09.delete_after_boundary"]

TRUSTED = [
    "hand-written model lean/Rustic/Model/Forget.lean of commands/forget.rs (KeepOptions::{is_valid,matches,apply}, equal_*) and snapshotfile.rs (must_keep, must_delete, Ord, StringList::matches)",
    "hand-written calendar lean/Rustic/Model/Calendar.lean (civil fields, ISO week date, Zoned::saturating_add(Span) in fixed-offset zones), compared with jiff 0.2.28 on every run (channels cal/add)",
    "correspondence harness harness/src/c09.rs (real KeepOptions::apply; real equal_* through hook verif::forget::period_predicates)",
    "jiff's calendar (Zoned::year/month/day_of_year/hour/minute/iso_week_date, saturating_add) as the meaning of the civil fields",
    "std's slice::sort_unstable_by is deterministic: the generator predicts the order among equal instants by making the same call",
]
ASSUMPTIONS = [
    "snapshot time zones are fixed offsets (what a stored snapshot's RFC 3339 time carries); tz-database zones with DST transitions are outside the calendar model",
    "equal period keys are contiguous in the newest-first order: PROVED from the calendar model when all snapshots of a group share one zone offset (period_contiguous_fixed_offset, heads_are_period_newest_fixed_offset) and, for any offsets, when the list is ordered by local wall-clock time (period_contiguous_local_order); for mixed offsets ordered by instant it is a genuine hypothesis of heads_are_period_newest / rank_counts_newer_periods (witness period_contiguous_fails_with_mixed_offsets, replayed from corpus/C09/witnesses.ops); mixed offsets are still run through the correspondence",
    "the theorems about period keys speak about snapshots whose civil fields are those of their own Zoned (Snap.CivilOk); the driver builds every snapshot that way (Snap.ofInstant) and the cal channel compares those fields with jiff",
]
RULE = ("ops from harness/src/c09.rs (one splitmix64 PRNG, VERIF_SEED): `apply` cases = 0..60 snapshots whose instants cluster (±1 ns … ±years) around minute/hour/day/"
        "ISO-week/month/quarter/half-year/year boundaries and ISO week-year edge days of 24 years, 10 zone offsets (also mixed inside a case), duplicate instants, tags, "
        "id prefixes, delete-never/delete-after marks, trees for delete-unchanged x random subsets of the 9 keep counts (-1, 0, small, i32 extremes), 9 keep-within spans "
        "(h/d/w/mo/y mixes, zero, negative, saturating), keep-tags, keep-ids, keep-none, no option at all; `cal`/`eq`/`add` = calendar fields, the 8 period predicates and "
        "span addition at the same boundaries plus a dense sweep of Dec 24–Jan 8 and month ends of every year in range. Non-trivial = apply case with >= 2 snapshots and "
        "both a kept and a removed one, or any cal/eq/add/mark case; `mark` = must_keep / must_delete / ForgetGroups::from_snapshots on one delete mark with `now` exactly at, one ns / one s around, and far from the delete-after time, any two zone offsets; distinct by hash of (op, observation).")
EXPLANATION = ("Theorems: the counter loop of KeepOptions::apply equals the declarative rank specification (apply_eq_spec) and a snapshot is kept exactly when a stated rule "
               "applies (kept_iff_rule); each equal_X is equality of the documented period key; heads are the newest snapshots of their period and the rank counts distinct "
               "newer periods — with contiguity of equal keys DERIVED from the calendar for one zone offset (every period key is a convex function of the local second: year monotone in the day number, month monotone within a year, 1 January not after the day; one finite evaluation: the year-of-era formula at the first/last day of the 400 years of an era) and shown to fail for mixed offsets; raising a count never removes; expired removed, protected kept, the delete-after boundary (== now is still protected; `passed` is strict). Correspondence: real apply output (order, keep flag, reasons) equals the "
               "model's on every case; real period predicates and jiff calendar equal the model's. Oracles on the real output: newest-first permutation, protected/expired, "
               "keep<=>reason, monotonicity under raising each count.")


def nontrivial(op, obs):
    t = op.split(" ")
    if len(t) > 1 and t[1] == "apply":
        return ":K:" in obs and ":D:" in obs
    return obs.startswith("ok ")


def _opts_keys(op):
    t = op.split(" ")
    if len(t) < 3 or t[2] == "-":
        return ""
    return "+".join(sorted({x.split("=")[0] for x in t[2].split(",")}))


def finding_key(op, impl, model):
    t = op.split(" ")
    k = "c09." + (t[1] if len(t) > 1 else "?")
    if impl.startswith(("panic", "oracle-fail", "err")) and impl != model:
        return k + ":" + impl.split(" ")[0][:60]
    if len(t) > 1 and t[1] == "eq" and impl.startswith("ok ") and model.startswith("ok "):
        names = ["year", "half", "quarter", "month", "week", "day", "hour", "minute"]
        diff = [n for n, a, b in zip(names, impl[3:], model[3:]) if a != b]
        return k + ":" + "+".join(diff)
    if len(t) > 1 and t[1] == "apply":
        return k + ":" + _opts_keys(op)
    return k


def is_property_failure(op, impl, model):
    # the model's apply is proved equal to the rank specification and the model's predicates are proved to
    # be equality of the documented period keys: a differing apply / eq result, a panic or an oracle
    # failure on this input is a failing input.  cal/add disagreements are calendar-model mismatches.
    # mark: must_keep / must_delete disagreeing with "delete-after has passed (strictly)" is a failure of the last clause.
    t = op.split(" ")
    return len(t) > 1 and t[1] in ("apply", "eq", "mark")
