"""C18 — per-property knobs of ./check (see DESIGN.md §6 C18)."""
THEOREMS_TIED = ["Rustic.Props.C18.apply_changes_only_named", "Rustic.Props.C18.refused_leaves_stored_config",
                 "Rustic.Props.C18.refused_leaves_handle_config", "Rustic.Props.C18.handle_config_follows_store_seq",
                 "Rustic.Props.C18.apply_mut_agrees",
                 "Rustic.Props.C18.accepted_no_panic"]

TRUSTED = [
    "hand-written model lean/Rustic/Model/Config.lean of commands/config.rs (ConfigOptions::apply, apply_config), commands/init.rs, repofile/configfile.rs getters, chunker/rabin.rs check_rabin_params, blob/packer.rs PackSizer, the limit arithmetic of commands/prune.rs decide_repack",
    "constants translator tools/constants/C18.py (configuration defaults, MAX_SIZE)",
    "correspondence harness harness/src/c18.rs; hooks verif::chunker::{check_rabin_params,chunk_iter}, verif::packer::pack_size, verif::prune::{plan_from_parts,take_limits} (decide_repack records the limits it computed)",
    "zstd::compression_level_range() = -131072..=22 of the linked zstd (hard-wired in the model, exercised by the apply channel)",
    "64-bit target: usize = u64",
]
ASSUMPTIONS = [
    "the prune limit arithmetic is tied value by value through the limits channel (planner driven from parts by the hook plan_from_parts, which repeats the `repack_uncompressed || repack_all` argument of from_prune_options); the real prune_plan path is covered by the smoke runs (no panic + the recorded limits satisfy the documented inequalities)",
    "huge chunk sizes are exercised with small files (every file is one chunk); an allocation failure aborts the harness process and is reported as impl-crash with the op line, not as a panic observation",
    "smoke runs use small in-memory sources; `works` = backup, check --read-data, restore (ls+dump) equal to the source, forget, prune, check, restore",
]
RULE = ("ops from harness/src/c18.rs (one splitmix64 PRNG, VERIF_SEED): apply = random stored config x random ConfigOptions, every field unset / boundary (0, 1, 63..65, 4095/4096, "
        "2^20, u32::MAX, 2^32, 2^63, u64::MAX, powers of two +-1) / interior / huge, half of them with consistent chunker parameters so that later validation steps are reached; "
        "rabin = parameter triples at the acceptance borders; getters/packsize = config getters and PackSizer::pack_size for total sizes 0..u64::MAX; seq = init + 1..5 "
        "apply_config calls on an in-memory repository, re-opened after each; seq1 = the same steps on ONE open handle (both observe repo.config() after every call: "
        "refused => as before, otherwise => equal to the stored config); apply also observes the partly assigned &mut target on Err; limits = crafted index (1..5 packs, used/unused blob sizes up to u32::MAX per pack) x limit options x repack flags through the real planner, observation = the limits decide_repack computed; smoke = init with boundary options (incl. huge accepted chunk sizes: rabin size = min = 2^62 / 2^63, max up to usize::MAX, fixed-size up to usize::MAX; pack sizes / grow factors / limits 0, 1, 2^31, u32::MAX; tolerate percents; compression extremes; version 1 + options), in one run of three followed by 1..3 apply_config changes -> 2 backups -> check --read-data -> restore -> forget -> "
        "prune_plan/prune with limit options (0%, 5%, 99%, 100%, 101%, 150%, u64::MAX %, sizes 0/1/u64::MAX, unlimited, repack-all) -> check -> restore. "
        "Non-trivial = observation starts with `ok ` or is a refusal (`err:`); distinct by hash of (op, observation).")
EXPLANATION = ("Theorems: apply changes only the named settings; no version downgrade; a refused change (and a refused init) leaves the stored configuration untouched and "
               "writes nothing — and leaves the in-memory config of the open handle untouched too (refused_leaves_handle_config, for any in-memory copy), although "
               "ConfigOptions::apply itself assigns fields before it fails (apply_assigns_before_failing: apply_config must work on a clone); the handle's copy equals the "
               "stored config after any sequence of changes on one handle (handle_config_follows_store_seq); accepted configurations satisfy the chunker's well-formedness (hence, by C06, chunking terminates and is lossless and bounded), pack-size "
               "and prune-limit arithmetic of the repaired code cannot overflow/divide by zero, and a percentage limit means what the option says (prune_limit_percent_meaning); witnesses for each repaired defect. Correspondence: real apply / "
               "check_rabin_params / getters / pack_size / init+apply_config sequences / the limits computed inside decide_repack equal the model's results; oracle: smoke runs never panic, restore equals the source.")


def nontrivial(op, obs):
    return obs.startswith(("ok", "err:"))


def finding_key(op, impl, model):
    t = op.split(" ")
    k = "c18." + (t[1] if len(t) > 1 else "?")
    if impl.startswith(("panic", "oracle-fail")):
        return k + ":" + impl.split(" ")[0][:90]
    if impl.startswith("err") and impl != model:
        return k + ":" + impl.split(" ")[0][:60]
    if len(t) > 3 and t[1] == "apply" and impl.startswith("ok ") and model.startswith("ok "):
        a = dict(x.split("=") for x in impl[3:].split(","))
        b = dict(x.split("=") for x in model[3:].split(","))
        diff = sorted(x for x in set(a) | set(b) if a.get(x) != b.get(x))
        return k + ":field:" + "+".join(diff)
    if impl.startswith("ok") and model.startswith("err"):
        return k + ":accepted-but-model-refuses:" + model
    return k


def is_property_failure(op, impl, model):
    # a panic / failed smoke oracle on an accepted configuration, a changed unnamed setting, a touched stored
    # config after a refusal are failures of the property on this input.  Pure value disagreements of
    # getters/packsize are correspondence breaks.
    t = op.split(" ")
    if impl.startswith(("panic", "oracle-fail")):
        return True
    if len(t) > 1 and t[1] == "apply" and impl.startswith("err:") and model.startswith("err:") \
            and impl.split(" ")[0] == model.split(" ")[0]:
        # same refusal, only the partly assigned `&mut` target differs: the model of `apply`'s assignment order is off
        return False
    return len(t) > 1 and t[1] in ("apply", "seq", "seq1", "smoke", "rabin")
