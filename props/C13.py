"""C13 — per-property knobs of ./check (see DESIGN.md §6 C13, notes/C13.md)."""
THEOREMS_TIED = ["Rustic.Props.C13.treeStreamerOnce_any_order", "Rustic.Props.C13.treeStreamerOnce_terminates",
                 "Rustic.Props.C13.every_written_pack_indexed", "Rustic.Props.C13.stored_set_schedule_independent",
                 "Rustic.Props.C13.treeId_independent_of_index", "Rustic.Props.C13.pipeline_progress",
                 "Rustic.Props.C13.network_progress", "Rustic.Props.C13.archiver_network_progress",
                 "Rustic.Props.C13.snapshot_is_function_of_source",
                 "Rustic.Props.C13.treeStreamerOnce_threads_any_schedule", "Rustic.Props.C13.treeStreamerOnce_threads_progress", "Rustic.Props.C13.treeStreamerOnce_threads_terminates",
                 "Rustic.Props.C13.addRaw_lock_terminates", "Rustic.Props.C13.treeStreamerOnce_stuck_only_on_full_queue",
                 "Rustic.Props.C13.bounded_queue_can_deadlock", "Rustic.Props.C13.addRaw_lock_progress",
                 "Rustic.Props.C13.progress_needs_no_lock_across_blocking_send", "Rustic.Props.C13.lock_held_across_send_can_deadlock",
                 "Rustic.Props.C13.prune_dedup_order_independent", "Rustic.Props.C13.single_pass_dedup_depends_on_order",
                 "Rustic.Props.C13.locked_add_and_save_indexes_every_pack", "Rustic.Props.C13.unlocked_save_can_lose_pack",
                 "Rustic.Props.C13.ok_command_lists_every_pack",
                 "Rustic.Props.C13.restore_writes_independent_of_pack_layout", "Rustic.Props.C13.restore_same_for_all_pack_layouts",
                 "Rustic.Props.C13.guard_on_other_depends_on_pack_layout"]

TRUSTED = [
    "hand-written nondeterministic models lean/Rustic/Model/Streamer.lean (TreeStreamerOnce, channel line), Model/StreamerQueue.lean (TreeStreamerOnce's consumer / loader threads and their two channels), Model/LockNet.lean (concurrent Packer::add_raw: indexer RwLock, raw_packer lock, file-writer queue), Model/IndexerLock.lean (the shared Indexer: add + due save + reset under the write lock, seen from all file writers), Model/PackerActor.lean (writers with queues / read-ahead, auto-save, command tail), Model/Prune.lean `newPlan` (PrunePlan::new, two passes), Model/RestoreGroups.lean (restore_contents: RestoreInfo entries -> coalesced pack reads -> what each blob's writer tasks are handed; `decode` and the pack contents are parameters) and Model/Archive.lean part 2 (packer / file writer / indexer events)",
    "correspondence harness harness/src/c13.rs (real TreeStreamerOnce through hook verif::tree::stream_once_until_error; real backup / prune / copy / check on a MemBackend wrapped with seeded sleeps at every call, optional 20-75 ms sleeps at pack writes, slow overlapping index-file writes, one index file arriving last, failing index removals; the prune planner alone through hook verif::prune::plan_from_parts with the index files in several orders; the real restore (ls node streamer, prepare_restore, restore, LocalDestination in a temp dir) into an empty directory and over an existing tree written by the harness; every case runs in a child process that is killed when its time budget is over)",
    "crossbeam channels, pariter read-ahead / ordered parallel_map and rayon behave as documented (FIFO, ordered results); real thread interleavings are sampled by seeded delays, not enumerated",
]
ASSUMPTIONS = [
    "PARTIAL: the theorems quantify over all schedules of the MODELS; for the real threads the harness samples schedules (seeded latencies at backend calls, pack sizes from one blob per pack to the default); rayon pool sizes 1..16 are varied (installed pool 2..16 with the caller inside; child process with a global pool of 1..16 and as many CPUs); the pariter stages follow only the CPU count, TreeStreamerOnce has 4 fixed loaders",
    "the progress theorems are about a line (Packer::new / Actor::new) and a DAG network (Archiver::archive: workers fanning out to the data packer and the ordered output queue, main thread feeding the tree packer) of bounded buffers with consuming sinks, not about crossbeam/pariter themselves",
    "tree loads that fail end the stream with an error (outside the streamer model); the `chk` op covers that path on the real code",
    "the thread-level models (StreamerQueue, LockNet) are tied to the code by reading it (which send / lock acquisition blocks, what is held meanwhile) and by the termination oracle on the shapes their counter-models name (> 1100 outstanding tree requests; >= 45 one-blob packs repacked concurrently with fast_repack under pack-write latency) - not by a step-by-step correspondence; std::sync::RwLock is modelled as writer-preferring",
    "the index-file latency patterns are conditions with time-outs (1st index write returns when a 2nd has begun or after t1 = 1.5-2.5 s; the 2nd when the 1st is stored and k more packs were written or after t2; the late index file is read 40 ms after all others): they force the overlap / arrival order a slow backend would produce, when the code allows it; IndexerLock / newPlan are tied to the code by reading it and by these oracles (every pack in storage listed by the stored index files after a > 50,000-blob command; same plan and same outcome for both arrival orders), not step by step",
    "restore: Model/RestoreGroups.lean is tied to restore_contents by reading it and by the `rest` oracles (identical restored bytes for every pack-size setting, equal to the source), not step by step; its hypothesis `Faithful` (the bytes read back from an existing file at a location that matched are the blob's bytes) holds when nobody else modifies the destination during the restore; the destination is a local temp directory with whole-second mtimes",
    "termination is observed as `answer within the watchdog` (20 s + size allowance per command sequence, again for the oracles); after 3 timeouts in one run the remaining cases are reported `not-run` instead of executed",
]
RULE = ("ops from harness/src/c13.rs, one splitmix64 PRNG (VERIF_SEED): `stream` = random DAG forests of 1-14 trees (0-3 sub-trees each, shared), 0-3 roots (duplicates), read latencies 0-3 ms by seed; "
        "`run` = a random source tree backed up 3 (thorough 5) times on fresh repositories: no delay/default packs, then seeded delays (<=1.5 ms per backend call) x data/tree pack sizes from {1 B, 200 B, 5 kB, 4 MB}; "
        "`hist` = backup A, parent-based backup B, forget A, prune (instant delete, repack) under the same variations; `chk` = check --read-data with a missing tree and 250 ms pack reads. "
        "Wide shapes (quick 2+2, thorough 12+6): streams of one directory with 1100-1600 distinct sub-directories / that many distinct roots / shared wide sub-directories (range syntax `1=2-1301;2-1301=`), and `run`/`hist` over a source directory with 1100-1400 distinct sub-directories (real check / prune_plan walk it). "
        "`snaps` (quick 1, thorough 4) = 1100-1500 snapshots with pairwise different root trees (stored through hooks): real check + prune_plan must return, check clean. "
        "Repack cases (quick 2, thorough 12; also 1 in 6 random run tokens): 5th run-token field `r<ms>` = every pack write sleeps ms..2.5 ms milliseconds and the prune repacks EVERY pack with fast_repack (Packer::add_raw from the rayon workers); sources with 45-80 shared chunks, one blob per pack, pools of >= 2 workers. "
        "`copy` (quick 4, thorough 40) = backup, then copy of the snapshot into a fresh repository with the pack sizes swapped, under the run variations; oracles on the target. "
        "`order` (quick 6, thorough 60) = backup; prune ignoring the snapshot (all packs marked); prune that recovers them while the removal of the old index file fails => a pack regular in one index file and to-delete in another; then on copies: planner hook with the index files del-first / reg-first / shuffled (same decisions, no error) and real prune_plan + prune with either file arriving LAST (both succeed, per-run oracles, same referenced set). "
        "`rest` (quick 12, thorough 150) = 2-6 files (some in a sub-directory) of 1-7 blocks drawn from 3-9 labels (64-byte chunks, blocks shared between files and repeated inside a file, optional short tail), backed up into 3 fresh repositories (default packs undelayed; one blob per pack; data pack size 200 B / 400 B / 5 kB) and RESTORED from each into an empty directory and over an existing tree in which every file is, by a 10-way draw, absent / same bytes with another mtime / same size with some blocks replaced (mtime other or equal) / accepted by size + mtime with the same or with other bytes / of another size, plus now and then a file the snapshot lacks; verify_existing 1 in 3; oracles: both directories identical for all settings, every source file restored with the source's bytes (a file trusted by size + mtime keeps its bytes); model line: number / bytes of the files and how many are trusted with other content. "
        "`big` (quick 1 backup; thorough 2 backup + 1 prune repack-all + 1 copy) = 25,050-26,000 directories with one small unique file each (> 50,000 blobs), one blob per pack, so an index file is auto-saved mid-run while data and tree packer both flush packs; index writes slow and overlapping when the code allows (t1, t2 in 1.5-2.5 s, k in 3-8); oracles: packs in storage = packs listed by the stored index files, check clean, n + 3 trees and n data blobs referenced. "
        "Every run token / stream seed carries a rayon pool field (0 = default, n = ThreadPool::install of n workers, g<n> = child process with RAYON_NUM_THREADS=n pinned to n CPUs). Non-trivial = a stream that yields >= 2 trees or any run/hist/chk op; distinct by hash of (op, observation).")
EXPLANATION = ("Theorems (all schedules of the models): TreeStreamerOnce yields exactly the reachable trees once each, ends iff nothing is outstanding (no deadlock, no early end), terminates within |reachable| steps; "
               "every written pack is indexed at finalize; stored key set independent of flush points and delays; root tree id independent of the index contents; the channel line — and the archiver's whole channel network (any DAG of bounded buffers) — always has an enabled stage and a "
               "decreasing measure. Thread level: with the unbounded request queue the consumer / loader threads of TreeStreamerOnce always have an enabled step; a stuck state is always a consumer facing a full bounded queue; EVERY bounded queue deadlocks on a directory (or root list) wider than queue + loaders + result queue (counter-model). Concurrent Packer::add_raw (fast repack): progress for every schedule of the code as it is; in general progress iff no indexer guard is held while blocked; keeping the read guard across the blocking send deadlocks (counter-model). Index files: the two-pass de-duplication of PrunePlan::new keeps the same packs with the same delete mark for EVERY permutation of the index files (a single pass does not: counter-model, check_existing_packs fails for one order); with the indexer's write lock held across add + due save + reset every pack added by any writer is in the current or a saved index file at every point of every schedule (saving a copy outside the lock and resetting later loses packs: counter-model), and in the full actor model a command that returns Ok has every sent pack stored and listed. Restore: for every list of RestoreInfo entries, every pack content and every coalescing relation that only joins a group with an entry behind it (can_coalesce for any hole size / read limit), the writes restore_contents hands to its writer tasks are, entry by entry, the non-matching file locations with the content of THAT blob - no pack boundary enters (two layouts of the same blobs give the same writes); with the from_file guard on the other operand the result depends on whether two blobs share a pack (counter-model). Correspondence/oracles on the real code: yielded tree set = model's under seeded read latencies; repeated runs give identical tree id and referenced blob set, terminate "
               "(watchdog), leave storage = index, pass check --read-data and read back as the source; the same snapshot restored from repositories that differ only in the pack-size setting gives identical bytes, into an empty directory and over a partly matching one.")


def nontrivial(op, obs):
    t = op.split(" ")
    if len(t) > 1 and t[1] == "stream":
        return obs.count(",") >= 1
    return obs.startswith("ok")


def _install1(t):
    # the case runs INSIDE a rayon pool of one worker (`ThreadPool::install`, pool field exactly "1"; never generated, corpus witness only)
    if len(t) > 2 and t[1] == "stream":
        f = t[2].split(".")
        return len(f) > 1 and f[1] == "1"
    if len(t) > 2 and t[1] in ("run", "hist"):
        return any(len(r.split(".")) > 3 and r.split(".")[3] == "1" for r in t[-1].split(","))
    return False


def finding_key(op, impl, model):
    t = op.split(" ")
    if impl.startswith("not-run"):
        # the harness stops running watchdog-guarded cases after 3 timeouts in one run (each is reported on its own)
        return "c13.not-run"
    k = "c13." + (t[1] if len(t) > 1 else "?")
    if _install1(t):
        k += ".install1"
    if impl.startswith(("panic", "oracle-fail", "err", "run")):
        parts = impl.split(" ")[0].split(":")
        k += ":" + ":".join(p for p in parts[:4] if not p.startswith("run"))[:80]
    return k


def is_property_failure(op, impl, model):
    # every oracle of this property is a clause of the statement (same tree id / blob set across schedules, termination,
    # no unindexed pack, no panic); a stream that yields another tree set than the reachable closure is a failing input too.
    if impl.startswith(("oracle-fail", "panic")):
        return True
    t = op.split(" ")
    return len(t) > 1 and t[1] == "stream" and impl.startswith("ok") and model.startswith("ok")
