"""C02 — per-property knobs of ./check (see DESIGN.md §6 C02, notes/C02.md)."""
THEOREMS_TIED = ["Rustic.Props.C02.used_key_attributed", "Rustic.Props.C02.decision_table",
                 "Rustic.Props.C02.prune_covers_used_keys", "Rustic.Props.C02.prune_preserves_readable",
                 "Rustic.Props.C02.marked_packs_stay", "Rustic.Props.C02.recover_brings_back",
                 "Rustic.Props.C02.normal_index_entry_wins_over_mark"]

TRUSTED = [
    "hand-written model lean/Rustic/Model/{Prune,Repo}.lean of commands/prune.rs (PrunePlan::new, count_used_blobs, PackInfo::from_pack, "
    "decide_packs, decide_repack, check_existing_packs, filter_index_files, prune_repository) and blob/packer.rs PackSizer",
    "correspondence harness harness/src/c02.rs + c02_hist.rs (hooks verif::prune::{plan_from_parts,plan_at,pack_info}, verif::packer::pack_sizer, "
    "verif::repository::save_file); the hook `finish_plan` repeats the call sequence of PrunePlan::from_prune_options with the plan time injected — "
    "the histories therefore also run the unhooked Repository::prune_plan and compare",
    "constants translator tools/gen_constants.py + tools/constants/C02.py",
    "sort_unstable_by_key on the repack candidates behaves as a stable sort (insertion sort for <= 20 elements; plan cases keep <= 20 packs); "
    "the safety theorems hold for every candidate order",
]
ASSUMPTIONS = [
    "the index is truthful about pack contents (a stored pack holds the blobs its index entry lists) — what check() establishes; "
    "in prune_preserves_readable this is `consistent r` for unmarked entries and `Reads.markedTruthful` for packs marked for deletion",
    "ids of the pack / index files a prune run writes are fresh (`Reads.freshIndex/freshPacks`: hashes of ciphertext under random nonces); "
    "index files are stored under distinct ids",
    "blob ids are content hashes: equal (type,id) means equal content",
    "times are whole seconds; spans are given in seconds (no calendar arithmetic)",
    "max-unused percentage < 100 (100 and above belong to C18)",
]
RULE = ("ops from harness/src/c02.rs, one splitmix64 PRNG (VERIF_SEED): `hist` (generated first) = real histories: backup of an evolving source "
        "(also of an earlier version again: blobs living in marked packs are uploaded again), concurrent backup pairs, tree/data id collision, forget, "
        "resurrect (`u`), index duplication, a second handle with a stale index whose backup overlaps the prunes in between (`s`…`a<k>`), a backup that is HALF DONE while prune plans (`h<k>`: its pack files are uploaded, index and snapshot not yet written, so a non-instant prune marks the packs as unreferenced; `e`: it finishes — the packs are then listed normally AND marked — followed by a prune past keep-delete that must keep them; `h` without `e` = interrupted backup), prune with "
        "random options (keep-delete 0/1h/23h, instant-delete, limits) and injected time; 8/10 of the histories start with one of four shapes "
        "{prune while a backup is half done, then the backup finishes, then prune past keep-delete; keep-delete>0 + re-upload of marked blobs + repack of the partly used new packs; backup overlapping the marking prune then prune (often "
        "instant); packs older than keep-delete when marked, second prune right away, then the data is needed again}, 2/10 are purely random. "
        "`plan` = crafted index states (1-3 index files, <= 16 packs, blob ids from a universe of <= 8 ids used under both types, duplicate blobs "
        "inside/across packs, duplicate pack entries incl. used+marked, marked packs with times around keep-delete, missing/None times, packs missing or "
        "with wrong size, unreferenced packs, >255 duplicates, used ids absent from the index) x all option flags x limits (unlimited / sizes / 0..99 %) "
        "x pack sizers; `info` = PackInfo::from_pack on pack sequences. Non-trivial = plan with at least one decision / history with a prune; "
        "distinct by hash of (op, observation).")
EXPLANATION = ("Theorems (lean/Rustic/Props/C02.lean, 21, none partial): from_pack accounting, stats_no_underflow, every used key attributed to a pack that is "
               "kept/repacked/recovered, decision table, no pack undecided, filter_index_files rebuilds the index file of every pack that changes "
               "(RepackRebuilt derived), execution covers every used key, removals only of Delete packs unless instant-delete, marked packs stay until "
               "keep-delete passed, recover brings back, a pack that some index file lists normally is planned as unmarked whatever marked entries exist for it (never Delete / KeepMarked, not removed by a non-instant prune: normal_index_entry_wins_over_mark), and prune_preserves_readable: after every prefix of the executed operation list of an accepted "
               "plan every snapshot of a consistent repository is readable (bridge from the prune model to the C03 protocol; non-instant, and instant "
               "without early-delete-index). Correspondence: per-pack decision, all PruneStats counters, rebuilt index files, remaining used ids, and the "
               "executed storage operations (as sets per phase, phase order checked) of the real code equal the model's on every crafted case. Oracles on "
               "real histories: check(read_data) clean and every snapshot reads back after every step; a non-instant prune removes only packs whose mark "
               "time AS RECORDED BY THE HARNESS (time of the marking prune) is >= keep-delete old; hook plan == Repository::prune_plan.")


def nontrivial(op, obs):
    t = op.split(" ")
    if len(t) > 1 and t[1] == "plan":
        return obs.startswith("ok D=") and not obs.startswith("ok D=- ")
    if len(t) > 1 and t[1] == "hist":
        return ";p" in op or " p" in op
    return obs.startswith("ok ")


def finding_key(op, impl, model):
    t = op.split(" ")
    k = "c02." + (t[1] if len(t) > 1 else "?")
    if impl.startswith(("panic", "oracle-fail", "nonterminating")):
        k += ":" + impl.split(" ")[0].split("@")[0][:80]   # the step number is not part of the key
    return k


def is_property_failure(op, impl, model):
    # an oracle failure on a real history, or a panic, *is* a failing input of the property;
    # a differing plan observation alone is a model/implementation disagreement.
    return impl.startswith(("oracle-fail", "panic"))
