"""C02 — per-property knobs of ./check (see DESIGN.md §6 C02, notes/C02.md)."""
THEOREMS_TIED = ["Rustic.Props.C02.used_key_attributed", "Rustic.Props.C02.decision_table",
                 "Rustic.Props.C02.prune_covers_used_keys", "Rustic.Props.C02.prune_preserves_readable",
                 "Rustic.Props.C02.marked_packs_stay", "Rustic.Props.C02.recover_brings_back",
                 "Rustic.Props.C02.normal_index_entry_wins_over_mark",
                 "Rustic.Props.C02.prune_failed_write_keeps_snapshots", "Rustic.Props.C02.prune_failed_repack_write_keeps_index"]

TRUSTED = [
    "hand-written model lean/Rustic/Model/{Prune,Repo}.lean of commands/prune.rs (find_used_blobs over the output of the tree streamer — no driver channel: tied to the code by the hist oracles only —, PrunePlan::new, count_used_blobs, PackInfo::from_pack, "
    "decide_packs, decide_repack, check_existing_packs, filter_index_files, prune_repository) and blob/packer.rs PackSizer",
    "correspondence harness harness/src/c02.rs + c02_hist.rs (hooks verif::prune::{plan_from_parts,plan_at,pack_info,MIN_INDEX_LEN}, verif::packer::pack_sizer, "
    "verif::repository::save_file); the hook `finish_plan` repeats the call sequence of PrunePlan::from_prune_options with the plan time injected — "
    "the histories therefore also run the unhooked Repository::prune_plan and compare",
    "constants translator tools/gen_constants.py + tools/constants/C02.py",
    "sort_unstable_by_key on the repack candidates behaves as a stable sort (insertion sort for <= 20 elements; plan cases keep <= 20 packs); "
    "the safety theorems hold for every candidate order",
]
ASSUMPTIONS = [
    "the index is truthful about pack contents (a stored pack holds the blobs its index entry lists) — what check() establishes; "
    "in prune_preserves_readable this is `consistent r` for unmarked entries and `Reads.markedTruthful` for packs marked for deletion",
    "ids of the pack / index files a prune run writes are fresh (`Reads.freshIndex/freshPacks`: hashes of ciphertext under random nonces); "
    "index files are stored under distinct ids",
    "blob ids are content hashes: equal (type,id) means equal content",
    "times are whole seconds; spans are given in seconds (no calendar arithmetic)",
    "max-unused percentage < 100 (100 and above belong to C18)",
]
RULE = ("ops from harness/src/c02.rs, one splitmix64 PRNG (VERIF_SEED): `hist` (generated first) = real histories: backup of an evolving source "
        "(also of an earlier version again: blobs living in marked packs are uploaded again), concurrent backup pairs, tree/data id collision, forget, "
        "resurrect (`u`), index duplication, a second handle with a stale index whose backup overlaps the prunes in between (`s`…`a<k>`), a backup that is HALF DONE while prune plans (`h<k>`: its pack files are uploaded, index and snapshot not yet written, so a non-instant prune marks the packs as unreferenced; `e`: it finishes — the packs are then listed normally AND marked — followed by a prune past keep-delete that must keep them; `h` without `e` = interrupted backup), prune with "
        "random options (keep-delete 0/1h/23h, instant-delete, limits) and injected time, a prune with a FAULT SWEEP (`q`: on copies of the store every "
        "(long runs: sampled, always around the last data pack write) storage operation of the run — repacked tree pack, the repacked data pack "
        "written by finalize, index write, index / pack removals — fails once via MemBackend fail_only), a prune whose clean-up of old index files "
        "is interrupted (`z`: the index file of one snapshot survives next to the rebuilt one = duplicate index entries), control of the order in "
        "which index files arrive at the planner (`o`: smallest / largest first); 10/12 of the histories start with one of five shapes "
        "{REPACKING prune (partly used data packs, max-unused 0, mark-only or instant) under the fault sweep, then often the deleting prune under faults; prune while a backup is half done, then the backup finishes, then prune past keep-delete; keep-delete>0 + re-upload of marked blobs + repack of the partly used new packs; backup overlapping the marking prune then prune (often "
        "instant); packs older than keep-delete when marked, second prune right away, then the data is needed again}, 2/12 are purely random (incl. `q`); plus 3 (thorough 12) BIG-INDEX histories: fixed-size chunker with 8-byte "
        "chunks, two backups with a large file of ~0.6 x MIN_INDEX_LEN (hook verif::prune::MIN_INDEX_LEN) records each and a small one, a merging "
        "prune interrupted so that one snapshot's old index file survives beside the merged index file (>= MIN_INDEX_LEN blobs), forget, (instant) "
        "prune with the small / large index file arriving first, backup of the forgotten version again. "
        "`plan` = crafted index states (1-3 index files, <= 16 packs, blob ids from a universe of <= 8 ids used under both types, duplicate blobs "
        "inside/across packs, duplicate pack entries incl. used+marked, marked packs with times around keep-delete, missing/None times, packs missing or "
        "with wrong size, unreferenced packs, >255 duplicates, used ids absent from the index) x all option flags x limits (unlimited / sizes / 0..99 %) "
        "x pack sizers; `info` = PackInfo::from_pack on pack sequences. Non-trivial = plan with at least one decision / history with a prune; "
        "distinct by hash of (op, observation).")
EXPLANATION = ("Theorems (lean/Rustic/Props/C02.lean, 27, none partial): find_used_blobs puts the content of EVERY file node of every streamed tree among the used keys whatever size the node records (used_holds_all_file_content, used_ignores_recorded_size: stdin / command snapshots record size 0), roots and directory subtrees are used tree keys; from_pack accounting, stats_no_underflow, every used key attributed to a pack that is "
               "kept/repacked/recovered, decision table, no pack undecided, filter_index_files rebuilds the index file of every pack that changes "
               "(RepackRebuilt derived), execution covers every used key, removals only of Delete packs unless instant-delete, marked packs stay until "
               "keep-delete passed, recover brings back, a pack that some index file lists normally is planned as unmarked whatever marked entries exist for it (never Delete / KeepMarked, not removed by a non-instant prune: normal_index_entry_wins_over_mark), and prune_preserves_readable: after every prefix of the executed operation list of an accepted "
               "plan every snapshot of a consistent repository is readable (bridge from the prune model to the C03 protocol; non-instant, and instant "
               "without early-delete-index); prune_failed_write_keeps_snapshots: a run whose k-th storage operation fails (any k: repacked pack incl. the last, "
               "index write, removals) reports failure and leaves a consistent repository with every snapshot readable; "
               "prune_failed_repack_write_keeps_index: a failure in the writing phase stops the run before any index file or listed pack is removed. Correspondence: per-pack decision, all PruneStats counters, rebuilt index files, remaining used ids, and the "
               "executed storage operations (as sets per phase, phase order checked) of the real code equal the model's on every crafted case. Oracles on "
               "real histories (4 of 6 file contents are backed up through nodes whose RECORDED size is not the content length: 0 = stdin style, half, larger): check(read_data) clean and every snapshot reads back after every step; a non-instant prune removes only packs whose mark "
               "time AS RECORDED BY THE HARNESS (time of the marking prune) is >= keep-delete old; hook plan == Repository::prune_plan; fault sweep: a prune "
               "with a failed storage operation returns Err, check(read_data) is clean and every snapshot reads back afterwards, a fault-free retry "
               "succeeds and is clean; an interrupted index clean-up is reported as Err.")


def nontrivial(op, obs):
    t = op.split(" ")
    if len(t) > 1 and t[1] == "plan":
        return obs.startswith("ok D=") and not obs.startswith("ok D=- ")
    if len(t) > 1 and t[1] == "hist":
        return ";p" in op or " p" in op
    return obs.startswith("ok ")


def finding_key(op, impl, model):
    t = op.split(" ")
    k = "c02." + (t[1] if len(t) > 1 else "?")
    if impl.startswith(("panic", "oracle-fail", "nonterminating")):
        k += ":" + impl.split(" ")[0].split("@")[0][:80]   # the step number is not part of the key
    return k


def is_property_failure(op, impl, model):
    # an oracle failure on a real history, or a panic, *is* a failing input of the property;
    # a differing plan observation alone is a model/implementation disagreement.
    return impl.startswith(("oracle-fail", "panic"))
