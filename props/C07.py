"""C07 — per-property knobs of ./check (see DESIGN.md §6 C07, notes/C07.md)."""
THEOREMS_TIED = ["Rustic.Props.C07.uploaded_exactly_added", "Rustic.Props.C07.rebackup_adds_nothing",
                 "Rustic.Props.C07.added_blobs_are_not_indexed", "Rustic.Props.C07.full_backup_adds_every_new_chunk",
                 "Rustic.Props.C07.edit_reuploads_only_disturbed_chunks", "Rustic.Props.C07.tree_and_data_with_equal_id_both_stored",
                 "Rustic.Props.C07.settled_blob_is_never_stored_again", "Rustic.Props.C07.indexed_never_shrinks",
                 "Rustic.Props.C07.full_backup_adds_are_content_chunks", "Rustic.Props.C07.chunks_independent_of_recorded_size", "Rustic.Props.C07.archive_succeeds_whatever_the_recorded_sizes",
                 "Rustic.Props.C07.stored_content_adds_nothing_whatever_the_node",
                 "Rustic.Props.C07.reload_with_unreadable_index_file_fails", "Rustic.Props.C07.reloaded_index_has_every_listed_blob"]

TRUSTED = [
    "hand-written models lean/Rustic/Model/Archive.lean (archiver pipeline + packer pipeline as a transition system), Model/Tree.lean, Model/Parent.lean, Model/Chunker.lean + Rabin.lean (C06)",
    "correspondence harness harness/src/c07.rs (real backup histories on MemBackend, real packer pipeline through hook verif::packer::pack_blobs)",
    "ids: sha256 collision-free on the blobs that occur; the model identifies data blobs by an FNV-64 digest of the chunk bytes and trees by a 61-bit mix of their node lists",
    "serde_json tree serialisation is a function of the node list; zstd/AES round trips",
]
ASSUMPTIONS = [
    "uploaded_exactly_added is about key SETS: between a pack flush and its indexing the same blob can be stored twice in one run (TODO in packer.rs; Lean witness kept) — the harness asserts no duplicate only for the default pack size, where no flush happens before finalize",
    "`once the index has been reloaded`: rebackup_adds_nothing takes any index that contains the first index plus what the first run added; reload_with_unreadable_index_file_fails / reloaded_index_has_every_listed_blob (over C17's loader model) say that a reload delivers such an index or fails — the harness injects a failing read of one index file between backups",
    "the size a node RECORDS (node.meta.size) is only an allocation hint of the chunker: chunks_independent_of_recorded_size is stated for backups without parent (a parent-based backup compares the recorded size with the parent's, C11); the model driver takes the chunk list from the content and the recorded size into the node, as the code does",
    "edit locality is inherited from C06 (chunksSpec); the run-time check compares the real chunk sets with the chunker model under edit scripts",
]
RULE = ("ops from harness/src/c07.rs, one splitmix64 PRNG (VERIF_SEED): `many` = one packer run with more blobs than the indexer's MAX_COUNT and blobs recurring behind the intermediate index flush; `hist` = rabin parameter sets (64/64/256 … 512/70/4096; 4096/4096/8192 when a tree-collision file occurs) x initial "
        "trees (1-4 files, up to 2 nested dirs, random/periodic/low-entropy contents 0-4.5 kB) x 1-5 follow-up states each made by 0-2 edits (prepend/insert/delete/overwrite/append/truncate at "
        "random offsets, duplicate, rename, remove, new file, file = serialised tree of a directory, the content of a file once more behind a node whose RECORDED size is not the content length (0 = stdin-style / smaller = grown after stat / larger = shrunk) and vice versa; 1 new file in 4-5 is such a node; zero edits = unchanged source) x forced / parent-based x (1 history in 3) a failing read of one index file while the index is reloaded before backup i (the reload is repeated without the fault when it failed, else the backup runs with what it returned); 12 directed stream histories on every seed (same content as file and as stream in both orders, insert into the stream, append with the stale size, too large size; 3 parameter sets, half of them with index read faults); time stamps are full (second, nanosecond) pairs — most rewrites fall into the SAME second as the previous write (nanoseconds differ by 1 ns .. 0.5 s), some into the next second with equal nanoseconds; 8 directed histories on every seed overwrite one file in place (same length) with same-second / next-second / unchanged / same-stamp-other-size stamps; `pack` = 0-40 adds over 1-12 ids, both "
        "types, pack sizes 1 B … 4 MB. Non-trivial = a run that stored at least one blob or a history with >= 2 runs; distinct by hash of (op, observation).")
EXPLANATION = ("Theorems: stored keys = keys handed to the packers for every schedule (typed indexer set); a blob whose pack is indexed is never stored again by any continuation of the run, and Indexer.indexed never shrinks (the intermediate index-file flush keeps it); added blobs are exactly the ones the index lacks; re-backup after index reload adds "
               "nothing and gives the same tree id; what a backup without parent hands to the data packer is item by item the chunks of the CONTENT the index lacks, whatever size the nodes record (stdin-style nodes); a reload of the index fails when any index file cannot be read and otherwise knows every listed blob; edits re-upload only chunks before the resynchronisation point (from C06); tree and data blob with equal id both stored. Correspondence: per "
               "real backup run the rank of the tree id, data_blobs, tree_blobs, data_added_files and the set of newly indexed blob keys (data by plaintext digest, trees by directory) equal the "
               "model's; oracles: check --read-data clean after every run, packs written = packs indexed, no key stored twice.")


def nontrivial(op, obs):
    return ("new=" in obs and "new=-|-" not in obs.split(" ")[1:2].__str__()) or obs.count("[") >= 2 or (obs.startswith("ok ") and "," in obs)


def finding_key(op, impl, model):
    t = op.split(" ")
    k = "c07." + (t[1] if len(t) > 1 else "?")
    if impl.startswith(("panic", "oracle-fail", "err")):
        k += ":" + ":".join(impl.split(" ")[0].split(":")[:2])[:80]
    elif len(t) > 1 and t[1] == "pack":
        k += ":keys-differ"
    return k


def is_property_failure(op, impl, model):
    # oracle failures (check errors after a backup that returned Ok, pack not indexed, blob stored twice) and panics are
    # failures of the property on this input; so is a `pack` run whose stored key set differs from the keys handed in
    # (the model's set is proved to be exactly those) and a `hist` run with a different number of stored blobs / a
    # different tree-id rank (unchanged data added something / changed the tree id).
    if impl.startswith(("oracle-fail", "panic")):
        return True
    t = op.split(" ")
    return len(t) > 1 and t[1] in ("pack", "hist") and impl.startswith("ok") and model.startswith("ok")
