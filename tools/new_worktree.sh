#!/bin/sh
# usage: tools/new_worktree.sh <name>   -> /work/<name>/{verif,repo} on branches agent-<name>
set -e
n="$1"
mkdir -p /work/$n
git -C /verif worktree add -q /work/$n/verif -b agent-$n
git -C /repo worktree add -q /work/$n/repo -b agent-$n
mkdir -p /work/$n/verif/harness
cp -r /verif/harness/target /work/$n/verif/harness/target
echo "/work/$n ready"
