# C18 — constants of the configuration defaults and the pack-size arithmetic.
CF = "crates/core/src/repofile/configfile.rs"
PK = "crates/core/src/blob/packer.rs"
SPECS = [
    ("CFG_MB", CF, r"const MB: u32 = ([^;]+);", "configfile.rs constants::MB"),
    ("DEFAULT_TREE_SIZE_MB", CF, r"const DEFAULT_TREE_SIZE: u32 = (\d+) \* MB;", "default tree pack size in MiB"),
    ("DEFAULT_DATA_SIZE_MB", CF, r"const DEFAULT_DATA_SIZE: u32 = (\d+) \* MB;", "default data pack size in MiB"),
    ("DEFAULT_GROW_FACTOR", CF, r"const DEFAULT_GROW_FACTOR: u32 = ([^;]+);", "default pack grow factor"),
    ("DEFAULT_SIZE_LIMIT_BITS", CF, r"const DEFAULT_SIZE_LIMIT: u32 = u(32)::MAX;", "default size limit = 2^bits - 1"),
    ("DEFAULT_MIN_PERCENTAGE", CF, r"const DEFAULT_MIN_PERCENTAGE: u32 = ([^;]+);", "default min_packsize_tolerate_percent"),
    ("DEFAULT_CHUNK_SIZE", CF, r"const DEFAULT_CHUNK_SIZE: usize = ([^;]+);", "default (average) chunk size"),
    ("DEFAULT_CHUNK_MIN_SIZE", CF, r"const DEFAULT_CHUNK_MIN_SIZE: usize = ([^;]+);", "default minimum chunk size"),
    ("DEFAULT_CHUNK_MAX_SIZE", CF, r"const DEFAULT_CHUNK_MAX_SIZE: usize = ([^;]+);", "default maximum chunk size"),
    ("PACK_MAX_SIZE_MB", PK, r"const MAX_SIZE: u32 = (\d+) \* MB;", "packer.rs constants::MAX_SIZE in MiB"),
]
