# constants the C05 model's pack-size arithmetic uses (repofile/packfile.rs)
SPECS = [
    ("C05_ENTRY_LEN", "crates/core/src/repofile/packfile.rs", r"const ENTRY_LEN: u32 = ([^;]+);", "pack header entry length, uncompressed blob"),
    ("C05_ENTRY_LEN_COMPRESSED", "crates/core/src/repofile/packfile.rs", r"const ENTRY_LEN_COMPRESSED: u32 = ([^;]+);", "pack header entry length, compressed blob"),
    ("C05_COMP_OVERHEAD", "crates/core/src/repofile/packfile.rs", r"const COMP_OVERHEAD: u32 = ([^;]+);", "crypto overhead (nonce + MAC) of the encrypted pack header"),
    ("C05_LENGTH_LEN", "crates/core/src/repofile/packfile.rs", r"const LENGTH_LEN: u32 = ([^;]+);", "length of the header-length trailer"),
]
