# Constants of the indexer's auto-save rule (used by Driver/C03.lean to replay Model/PackerActor.lean on `c03 big` traces).
SPECS = [
    ("C03_INDEXER_MAX_COUNT", "crates/core/src/index/indexer.rs", r"const MAX_COUNT: usize = ([^;]+);", "indexer.rs constants::MAX_COUNT (blobs held by the indexer at which it saves an index file on its own)"),
]
