# C15 — one numeric constant (the indexer's auto-save threshold).  This spec file is also the per-property hook of tools/gen_constants.py (which `check` runs
# first on every invocation and which executes every tools/constants/*.py): it regenerates
# lean/Rustic/Gen/RepositoryApi.lean — the public methods of `Repository`, the methods with a `dry_run` parameter and
# the option structs with a `pub dry_run` field, read from the CURRENT source tree — through tools/c15_api_table.py.
# `Rustic/Props/C15.lean` proves that the command table classifies every one of them (`table_covers_api`,
# `table_rows_exist`, `dry_flags_covered`), so an unclassified new method / flag breaks the C15 proof build.
# The script never raises: on a parse problem it generates empty lists (only the C15 proofs break).
import importlib.util as _ilu, os as _os, sys as _sys

def _regen():
    main = _sys.modules.get("__main__")
    tools = _os.path.dirname(_os.path.abspath(getattr(main, "__file__", _sys.argv[0])))
    path = _os.path.join(tools, "c15_api_table.py")
    if not _os.path.exists(path):
        return
    spec = _ilu.spec_from_file_location("c15_api_table", path)
    mod = _ilu.module_from_spec(spec)
    spec.loader.exec_module(mod)
    repo = getattr(main, "REPO", mod.REPO)          # the repository root gen_constants.py / check use
    print(mod.main(repo_root=repo))

_regen()
SPECS = [
    ("C15_INDEXER_MAX_COUNT", "crates/core/src/index/indexer.rs", r"const MAX_COUNT: usize = ([^;]+);",
     "index/indexer.rs constants::MAX_COUNT: blobs after which `Indexer::add_with` writes an index file on its own (Model/CommandSteps.lean: the dry-run guard of repair_index must stand in front of add_with)"),
]
