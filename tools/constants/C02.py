"""Constants the C02 (prune) model and theorems depend on."""
SPECS = [
    ("C02_MB", "crates/core/src/blob/packer.rs", r"const MB: u32 = ([^;]+);", "packer.rs constants::MB"),
    ("C02_KB", "crates/core/src/blob/packer.rs", r"const KB: u32 = ([^;]+);", "packer.rs constants::KB"),
    ("C02_COMP_OVERHEAD", "crates/core/src/repofile/packfile.rs", r"const COMP_OVERHEAD: u32 = ([^;]+);", "packfile.rs constants::COMP_OVERHEAD"),
    ("C02_LENGTH_LEN", "crates/core/src/repofile/packfile.rs", r"const LENGTH_LEN: u32 = ([^;]+);", "packfile.rs constants::LENGTH_LEN"),
    ("C02_ENTRY_LEN", "crates/core/src/repofile/packfile.rs", r"const ENTRY_LEN: u32 = ([^;]+);", "HeaderEntry::ENTRY_LEN"),
    ("C02_ENTRY_LEN_COMPRESSED", "crates/core/src/repofile/packfile.rs", r"const ENTRY_LEN_COMPRESSED: u32 = ([^;]+);", "HeaderEntry::ENTRY_LEN_COMPRESSED"),
    ("C02_MIN_INDEX_LEN", "crates/core/src/commands/prune.rs", r"const MIN_INDEX_LEN: usize = ([^;]+);", "prune.rs constants::MIN_INDEX_LEN"),
    ("C02_MAX_PACK_SIZE_MB", "crates/core/src/blob/packer.rs", r"const MAX_SIZE: u32 = (\d+) \* MB;", "packer.rs constants::MAX_SIZE in MB"),
    ("C02_COUNT_SATURATION", "crates/core/src/commands/prune.rs", r"used_ids: BTreeMap<.*, u(\d+)>,", "bit width of the duplicate counter in PrunePlan.used_ids"),
]
