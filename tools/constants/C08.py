# Constants of the pack format (used by Model/Pack.lean: C08, and by C17 through IndexPack::pack_size).
SPECS = [
    ("PACK_ENTRY_LEN", "crates/core/src/repofile/packfile.rs", r"const ENTRY_LEN: u32 = ([^;]+);", "HeaderEntry::ENTRY_LEN (uncompressed header entry)"),
    ("PACK_ENTRY_LEN_COMPRESSED", "crates/core/src/repofile/packfile.rs", r"const ENTRY_LEN_COMPRESSED: u32 = ([^;]+);", "HeaderEntry::ENTRY_LEN_COMPRESSED"),
    ("PACK_COMP_OVERHEAD", "crates/core/src/repofile/packfile.rs", r"const COMP_OVERHEAD: u32 = ([^;]+);", "packfile constants::COMP_OVERHEAD (crypto overhead of the header)"),
    ("PACK_LENGTH_LEN", "crates/core/src/repofile/packfile.rs", r"const LENGTH_LEN: u32 = ([^;]+);", "packfile constants::LENGTH_LEN (trailing header-length field)"),
    ("PACKER_MAX_COUNT", "crates/core/src/blob/packer.rs", r"const MAX_COUNT: u32 = ([^;]+);", "blob/packer.rs constants::MAX_COUNT (blobs per pack before it is saved)"),
    ("INDEXER_MAX_COUNT", "crates/core/src/index/indexer.rs", r"const MAX_COUNT: usize = ([^;]+);", "index/indexer.rs constants::MAX_COUNT (blobs per index file before the indexer saves on its own)"),
]
