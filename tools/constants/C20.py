# C20 constants: id length.  The first entry must be called LEN because the translator evaluates the Rust
# expression of the second one (`LEN * 2`) in the environment of the constants translated so far.
SPECS = [
    ("LEN", "crates/core/src/id.rs", r"pub\(super\) const LEN: usize = ([^;]+);", "id.rs constants::LEN (bytes per id)"),
    ("ID_HEX_LEN", "crates/core/src/id.rs", r"pub\(crate\) const HEX_LEN: usize = ([^;]+);", "id.rs constants::HEX_LEN (hex characters per id)"),
]
