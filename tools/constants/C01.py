# constants the C01 component models use
SPECS = [
    ("C01_LIMIT_PACK_READ", "crates/core/src/blob.rs", r"const LIMIT_PACK_READ: u32 = ([^;]+);", "maximum length of one coalesced pack read"),
    ("C01_MAX_HOLESIZE", "crates/core/src/blob.rs", r"const MAX_HOLESIZE: u32 = ([^;]+);", "maximum hole between two blobs read in one go"),
    ("C01_INDEXER_MAX_COUNT", "crates/core/src/index/indexer.rs", r"const MAX_COUNT: usize = ([^;]+);", "number of blobs after which the indexer saves its index file"),
]
