#!/usr/bin/env python3
"""usage: tools/try_kept_seed.py <Cxx-k> [tier] [check ids …]  — apply seeded/<Cxx-k>/patch.diff to /repo, run the
check(s) (default: the seed's own property), record the outcome in meta.json, ALWAYS undo the patch."""
import json, os, subprocess, sys
sid = sys.argv[1]
tier = sys.argv[2] if len(sys.argv) > 2 else "quick"
ids = sys.argv[3:] or [sid.split("-")[0]]
d = f"/verif/seeded/{sid}"
def sh(*a, **k): return subprocess.run(a, capture_output=True, text=True, **k)
if sh("git", "-C", "/repo", "status", "--porcelain").stdout.strip():
    sys.exit("/repo not clean")
r = sh("git", "-C", "/repo", "apply", f"{d}/patch.diff")
if r.returncode != 0:
    r = sh("git", "-C", "/repo", "apply", "-3", f"{d}/patch.diff")
    if r.returncode != 0:
        sh("git", "-C", "/repo", "checkout", "--", "."); sh("git", "-C", "/repo", "reset", "-q")
        sys.exit("patch does not apply: " + r.stderr[:300])
    sh("git", "-C", "/repo", "reset", "-q")
meta = json.load(open(f"{d}/meta.json"))
res = meta.get("caught_by") or {}
try:
    for i in ids:
        p = sh("./check", i, "--tier", tier, cwd="/verif")
        viol = [l for l in p.stdout.splitlines() if l.startswith("VIOLATION")]
        detail = [l.strip() for l in p.stdout.splitlines() if l.startswith("  ")][:3]
        res[f"{i}:{tier}"] = dict(exit=p.returncode, violations=len(viol),
                                 with_failing_input=sum(1 for v in viol if "no-failing-input-found" not in v),
                                 first=detail[:2], summary=p.stdout.strip().splitlines()[-1] if p.stdout.strip() else "")
        print(sid, i, tier, "exit", p.returncode, len(viol), "violations;", (detail or [""])[0][:160])
finally:
    sh("git", "-C", "/repo", "checkout", "--", ".")
meta["caught_by"] = res
json.dump(meta, open(f"{d}/meta.json", "w"), indent=1)
