#!/bin/sh
# usage: tools/adopt_round2.sh <Cxx>  — copy round-2 seeds /tmp/seed2/<id>/out/{1,2} to /tmp/seed/<id>/out/{4,5}
id="$1"
for k in 1 2 3; do
  [ -d /tmp/seed2/$id/out/$k ] || continue
  n=$((k+3)); rm -rf /tmp/seed/$id/out/$n; mkdir -p /tmp/seed/$id/out; cp -r /tmp/seed2/$id/out/$k /tmp/seed/$id/out/$n
done
git -C /repo worktree remove --force /tmp/seed2/$id/repo 2>/dev/null; git -C /repo branch -D seed2-$id -q 2>/dev/null
ls /tmp/seed/$id/out
