#!/bin/sh
# usage: tools/run_all.sh [tier] [ids...]  — run every claimed check (or the given ones), one summary line each
tier="${1:-quick}"; shift
ids="$@"
[ -z "$ids" ] && ids=$(python3 -c "import json;print(' '.join(c['property_id'] for c in json.load(open('/verif/MANIFEST.json'))['checks']))")
cd /verif
for id in $ids; do
  s=$(date +%s)
  ./check $id --tier $tier > work/run_$id.log 2>&1; rc=$?
  e=$(date +%s)
  echo "$id rc=$rc $((e-s))s | $(grep -c '^VIOLATION' work/run_$id.log) viol, $(grep -c '^KNOWN-FINDING' work/run_$id.log) known | $(tail -1 work/run_$id.log)"
done
