#!/usr/bin/env python3
"""Regenerate the two generated tables of DESIGN.md between their markers:
<!-- FINDINGS-TABLE --> … <!-- /FINDINGS-TABLE -->  from known_findings.json,
<!-- SEEDED-TABLE --> … <!-- /SEEDED-TABLE -->      from seeded/*/meta.json."""
import glob, json, os, re
ROOT = os.path.join(os.path.dirname(os.path.abspath(__file__)), "..")
def cell(s): return str(s).replace("|", "\\|").replace("\n", " ")
kf = json.load(open(os.path.join(ROOT, "known_findings.json")))
rows = ["| property | status | commit | what |", "|---|---|---|---|"]
for k in sorted(kf, key=lambda k: (k["property"], k["status"])):
    what = re.sub(r"^fixed: property=\S+ \S+ ", "", k["what"])
    rows.append(f"| {k['property']} | {k['status']} | {k.get('commit','—')} | {cell(what[:420])} |")
ft = "\n".join(rows)
rows = ["| seeded change | breaks | needs, to manifest | caught by (tier: exit, violations, with failing input) |", "|---|---|---|---|"]
for d in sorted(glob.glob(os.path.join(ROOT, "seeded", "*", "meta.json"))):
    m = json.load(open(d)); sid = os.path.basename(os.path.dirname(d))
    cb = m.get("caught_by") or {}
    c = "; ".join(f"{k}: exit {v['exit']}, {v['violations']} viol., {v['with_failing_input']} with input" for k, v in cb.items()) or "not run yet"
    rows.append(f"| `seeded/{sid}` {cell(m['title'][:110])} | {m['property']} | {cell(m['needs_to_manifest'][:200])} | {cell(c)} |")
st = "\n".join(rows)
p = os.path.join(ROOT, "DESIGN.md")
s = open(p).read()
for tag, body in (("FINDINGS-TABLE", ft), ("SEEDED-TABLE", st)):
    s = re.sub(rf"<!-- {tag} -->.*?<!-- /{tag} -->", f"<!-- {tag} -->\n{body}\n<!-- /{tag} -->", s, flags=re.S)
open(p, "w").write(s)
print("tables regenerated")
