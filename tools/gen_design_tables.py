#!/usr/bin/env python3
"""Regenerate the two generated tables of DESIGN.md between their markers:
<!-- FINDINGS-TABLE --> … <!-- /FINDINGS-TABLE -->  from known_findings.json,
<!-- SEEDED-TABLE --> … <!-- /SEEDED-TABLE -->      from seeded/*/meta.json."""
import glob, json, os, re
ROOT = os.path.join(os.path.dirname(os.path.abspath(__file__)), "..")
def cell(s): return str(s).replace("|", "\\|").replace("\n", " ")
kf = json.load(open(os.path.join(ROOT, "known_findings.json")))
rows = ["| property | status | commit | what |", "|---|---|---|---|"]
for k in sorted(kf, key=lambda k: (k["property"], k["status"])):
    what = re.sub(r"^fixed: property=\S+ \S+ ", "", k["what"])
    rows.append(f"| {k['property']} | {k['status']} | {k.get('commit','—')} | {cell(what[:420])} |")
ft = "\n".join(rows)
rows = ["| seeded change | breaks | needs, to manifest | on first encounter | now caught by (check:tier: exit, violations, with failing input) |", "|---|---|---|---|---|"]
for d in sorted(glob.glob(os.path.join(ROOT, "seeded", "*", "meta.json"))):
    m = json.load(open(d)); sid = os.path.basename(os.path.dirname(d))
    cb = m.get("caught_by") or {}
    c = "; ".join(f"{k}: exit {v['exit']}, {v['violations']} viol., {v['with_failing_input']} with input" for k, v in cb.items()) or "not run yet"
    fe = m.get('first_encounter', '?')
    fe = 'missed' if fe.startswith('MISSED') else ('weak: ' + fe.split('weakly: ')[1] if 'weakly' in fe else ('caught' if fe.startswith('caught') else '?'))
    rows.append(f"| `seeded/{sid}` (round {m.get('round','?')}) {cell(m['title'][:110])} | {m['property']} | {cell(m['needs_to_manifest'][:200])} | {fe} | {cell(c)} |")
st = "\n".join(rows)
# statistics per round
import collections
fe_c = collections.defaultdict(collections.Counter); now_c = collections.defaultdict(collections.Counter)
for d in sorted(glob.glob(os.path.join(ROOT, "seeded", "*", "meta.json"))):
    m = json.load(open(d)); r = str(m.get("round", "?")); fe = m.get("first_encounter", "?")
    fe_c[r]["missed" if fe.startswith("MISSED") else ("weak" if "weakly" in fe else ("caught" if fe.startswith("caught") else "?"))] += 1
    cb = m.get("caught_by") or {}
    now_c[r]["with failing input" if any(v["exit"] == 1 and v.get("with_failing_input", 0) > 0 for v in cb.values()) else ("without failing input" if any(v["exit"] == 1 for v in cb.values()) else "missed")] += 1
srows = ["| round | seeds kept | first encounter: caught / caught weakly / missed | now (quick tier of some check): reported with failing input / reported without / missed |", "|---|---|---|---|"]
for r in sorted(fe_c):
    n = sum(fe_c[r].values())
    srows.append(f"| {r} | {n} | {fe_c[r]['caught']} / {fe_c[r]['weak']} / {fe_c[r]['missed']} | {now_c[r]['with failing input']} / {now_c[r]['without failing input']} / {now_c[r]['missed']} |")
sstats = "\n".join(srows)
# per-property status
props = [json.loads(l) for l in open(os.path.join(ROOT, "properties.jsonl"))]
rows = ["| property | theorems audited | `_partial` theorems (missing hypothesis in Props file) | quick: cases / wall-clock | open findings | seeds caught (quick) |", "|---|---|---|---|---|---|"]
for pr in props:
    pid = pr["id"]
    try: ev = json.load(open(os.path.join(ROOT, "evidence", pid + ".json")))
    except Exception: ev = None
    src = open(os.path.join(ROOT, "lean", "Rustic", "Props", pid + ".lean")).read() if os.path.exists(os.path.join(ROOT, "lean", "Rustic", "Props", pid + ".lean")) else ""
    partial = re.findall(r"^theorem\s+(\S+_partial)(?![A-Za-z0-9_'])", src, re.M)
    nopen = sum(1 for k in kf if k["property"] == pid and k["status"] == "open")
    seeds = []
    for d in sorted(glob.glob(os.path.join(ROOT, "seeded", pid + "-*", "meta.json"))):
        m = json.load(open(d)); cb = m.get("caught_by") or {}
        own = cb.get(f"{pid}:quick")
        hit = bool(own and own["exit"] == 1) or any(v["exit"] == 1 for v in cb.values())
        seeds.append(os.path.basename(os.path.dirname(d)).split("-")[1] + ("✓" if hit else "✗"))
    cov = ev["coverage"] if ev else {}
    rows.append(f"| {pid} {cell(pr['title'][:60])} | {cov.get('discharged','?')}/{cov.get('obligations','?')} | {', '.join(partial) or '—'} | {cov.get('programs','?')} / {ev['wall_s'] if ev else '?'} s | {nopen} | {' '.join(seeds) or '—'} |")
stt = "\n".join(rows)
p = os.path.join(ROOT, "DESIGN.md")
s = open(p).read()
for tag, body in (("FINDINGS-TABLE", ft), ("SEEDED-TABLE", st), ("STATUS-TABLE", stt), ("SEED-STATS", sstats)):
    s = re.sub(rf"<!-- {tag} -->.*?<!-- /{tag} -->", f"<!-- {tag} -->\n{body}\n<!-- /{tag} -->", s, flags=re.S)
open(p, "w").write(s)
print("tables regenerated")
