#!/usr/bin/env python3
"""usage: tools/keep_seed.py <Cxx> <k> "<needs>" "<demo cargo args>" — copy a confirmed seed to seeded/<Cxx>-k/ with meta.json"""
import json, os, shutil, sys
pid, k, needs, demo = sys.argv[1:5]
src = f"/tmp/seed/{pid}/out/{k}"
dst = f"/verif/seeded/{pid}-{k}"
os.makedirs(dst, exist_ok=True)
for f in ("patch.diff", "demo.diff", "README.md"):
    shutil.copy(os.path.join(src, f), os.path.join(dst, f))
title = open(os.path.join(src, "README.md")).readline().strip("# \n")
meta = dict(property=pid, title=title, needs_to_manifest=needs,
            demonstration=f"demo.diff (adds a test); run: cargo test --offline -p rustic_core {demo}",
            confirmed=dict(how="tools/verify_seed.sh in a scratch worktree of /repo with a private target dir",
                           demo_without_patch="pass", demo_with_patch="fail", baseline_with_patch="295/295 stable tests pass"),
            caught_by=None)
json.dump(meta, open(os.path.join(dst, "meta.json"), "w"), indent=1)
print(dst)
