#!/bin/sh
# usage: tools/try_seed.sh <patch.diff> <Cxx> [tier]   — apply to /repo, run the check, always undo.
p="$1"; id="$2"; tier="${3:-quick}"
git -C /repo diff --quiet || { echo "/repo not clean"; exit 2; }
git -C /repo apply "$p" || exit 2
cd /verif && ./check "$id" --tier "$tier"; rc=$?
git -C /repo checkout -- . 
echo "check exit code: $rc"
exit $rc
