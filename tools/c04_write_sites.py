#!/usr/bin/env python3
"""C04 tie between the source and the model's table of storage write sites (`Model/WriteSites.lean`).

Lists every CALL of `write_bytes(` in crates/core/src (definitions `fn write_bytes` are not calls; `#[cfg(test)]` modules
and `verif_hooks` modules are skipped) as one canonical line

    site <file>:<enclosing fn> <file type argument> <class>

and every `RepoFile` implementation that switches encryption off as

    plainfile <file>

sorted, equal lines counted (`xN`).  No line numbers, so edits that do not add / remove / re-route a write do not change
the output.  <class> is decided syntactically from where the content argument comes from inside the enclosing function:

    forwards   the enclosing function is itself a `write_bytes` (a wrapper backend handing on its `content` parameter), or
               the content is the function's own `content` / `data` parameter read from / written to the wrapped backend
    encrypts   the content variable is bound to the result of `encrypt_data(` / `encrypt_file(` in the same function
    plain-if-unencrypted-repofile   the `else` branch of `if F::ENCRYPTED` (only reachable for the `plainfile`s)
    keyfile    first argument is `FileType::Key`
    packfile   `FileType::Pack` written by the packer's `process` (content built by `BasicPacker`: C08 / pack_file_is_ciphertexts)
    copies-stored   the content variable is bound to `read_full(` of another backend in the same function
    unknown:<content expression>   anything else  -> reported by the check
"""
import os, re, sys


def strip_blocks(src, opener_rx):
    """remove `… mod x { … }` blocks whose header matches opener_rx (brace matching, strings ignored — good enough here)"""
    out = []
    i = 0
    for m in re.finditer(opener_rx, src):
        if m.start() < i:
            continue
        j = src.index("{", m.end() - 1)
        depth = 0
        k = j
        while k < len(src):
            if src[k] == "{":
                depth += 1
            elif src[k] == "}":
                depth -= 1
                if depth == 0:
                    break
            k += 1
        out.append(src[i:m.start()])
        i = k + 1
    out.append(src[i:])
    return "".join(out)


def call_args(src, start):
    """src[start] is just after `write_bytes(`; returns the list of top-level argument strings"""
    depth, args, cur, k = 1, [], [], start
    while k < len(src) and depth > 0:
        c = src[k]
        if c in "([{":
            depth += 1
        elif c in ")]}":
            depth -= 1
            if depth == 0:
                break
        if c == "," and depth == 1:
            args.append("".join(cur).strip())
            cur = []
        else:
            cur.append(c)
        k += 1
    if "".join(cur).strip():
        args.append("".join(cur).strip())
    return [re.sub(r"\s+", "", a) for a in args]


def classify(rel, fn, body_before, args, recv):
    tpe = args[0] if args else "?"
    content = args[-1] if args else "?"
    var = re.match(r"&?([A-Za-z_][A-Za-z0-9_]*)", content)
    var = var.group(1) if var else content
    if tpe == "FileType::Key":
        return "keyfile"
    if fn == "write_bytes":
        return "forwards" if var == "content" else "unknown:" + content
    binds = re.findall(r"let\s+(?:mut\s+)?%s\s*(?::[^=]+)?=\s*([^;]+);" % re.escape(var), body_before)
    bound = re.sub(r"\s+", "", binds[-1]) if binds else None
    if bound and ("encrypt_data(" in bound or "encrypt_file(" in bound):
        return "encrypts"
    if bound and "read_full(" in bound:
        return "copies-stored"
    if re.search(r"if\s+F::ENCRYPTED\s*\{[^{}]*\}\s*else\s*\{[^{}]*$", body_before):
        return "plain-if-unencrypted-repofile"
    if rel == "blob/packer.rs" and fn == "process" and tpe == "FileType::Pack":
        return "packfile"
    if recv.endswith("cache") and var in ("data", "content"):
        # CachedBackend: the bytes just read from / about to be written to the wrapped backend go to the local cache
        return "forwards"
    return "unknown:" + content


def main():
    root = sys.argv[1]
    lines = []
    for d, _, fs in os.walk(root):
        for f in fs:
            if not f.endswith(".rs"):
                continue
            path = os.path.join(d, f)
            rel = os.path.relpath(path, root)
            src = open(path, encoding="utf-8").read()
            src = re.sub(r"//[^\n]*", "", src)
            src = strip_blocks(src, r"#\[cfg\(test\)\]\s*(?:#\[[^\]]*\]\s*)*(?:pub\s+)?mod\s+\w+\s*\{")
            src = strip_blocks(src, r"#\[cfg\(rustic_core_verif\)\]\s*(?:#\[[^\]]*\]\s*)*(?:pub\s+)?mod\s+\w+\s*\{")
            if re.search(r"const\s+ENCRYPTED\s*:\s*bool\s*=\s*false", src) and "trait RepoFile" not in src:
                lines.append(f"plainfile {rel}")
            for m in re.finditer(r"([A-Za-z_][A-Za-z0-9_\.\(\)]*)?\s*\.\s*write_bytes\(", src):
                before = src[:m.start()]
                fns = list(re.finditer(r"\bfn\s+([A-Za-z_][A-Za-z0-9_]*)", before))
                fn = fns[-1].group(1) if fns else "?"
                body_before = before[fns[-1].start():] if fns else before
                args = call_args(src, m.end())
                recv = re.sub(r"\s+", "", m.group(1) or "")
                lines.append(f"site {rel}:{fn} {args[0] if args else '?'} {classify(rel, fn, body_before, args, recv)}")
    lines.sort()
    out, i = [], 0
    while i < len(lines):
        j = i
        while j < len(lines) and lines[j] == lines[i]:
            j += 1
        out.append(lines[i] + (f" x{j - i}" if j - i > 1 else ""))
        i = j
    print("\n".join(out))


if __name__ == "__main__":
    main()
