#!/bin/sh
# usage: tools/adopt_round.sh <round> <Cxx>  — copy /tmp/seed<round>/<id>/out/{1,2} to /tmp/seed/<id>/out/{1,2}+offset (round 2: +3, round 3: +5)
r="$1"; id="$2"; off=3; [ "$r" = 3 ] && off=5; [ "$r" = 4 ] && off=7
for k in 1 2; do
  [ -d /tmp/seed$r/$id/out/$k ] || continue
  n=$((k+off)); rm -rf /tmp/seed/$id/out/$n; mkdir -p /tmp/seed/$id/out; cp -r /tmp/seed$r/$id/out/$k /tmp/seed/$id/out/$n
done
git -C /repo worktree remove --force /tmp/seed$r/$id/repo 2>/dev/null; git -C /repo branch -D seed$r-$id -q 2>/dev/null
ls /tmp/seed/$id/out
