#!/bin/sh
# usage: tools/baseline.sh <repo_dir> [cargo_target_dir]
# Runs the pinned baseline suite (guard off) in <repo_dir> and compares with /root/.vp/BASELINE.json.
d="$1"; t="${2:-$d/target}"
cd "$d" || exit 2
rm -f "$t/nextest/pb/junit.xml"
INSTA_UPDATE=no CARGO_NET_OFFLINE=true CARGO_TARGET_DIR="$t" cargo nextest run --workspace --no-fail-fast --tool-config-file pb:/w/lib/nextest.toml --profile pb --test-threads 8 --offline >/tmp/baseline.$$.log 2>&1
python3 - "$t/nextest/pb/junit.xml" <<'PY'
import json,sys,xml.etree.ElementTree as ET
base=set(json.load(open('/root/.vp/BASELINE.json'))['stable_pass'])
try:
    root=ET.parse(sys.argv[1]).getroot()
except Exception as e:
    print("BASELINE: no junit (build failed?)",e); sys.exit(1)
passed=set()
for ts in root.iter('testsuite'):
    for tc in ts.iter('testcase'):
        name=tc.get('classname','')+'::'+tc.get('name','')
        ok=not any(c.tag in('failure','error') for c in tc)
        if ok: passed.add(name)
def norm(n):
    return n.replace('rustic_core::integration::integration::','rustic_core::integration::integration::')
miss=[b for b in base if b not in passed and b.replace('::','::') not in passed]
if miss:
    # try suffix matching (classname formats differ)
    names=passed
    miss=[b for b in miss if not any(p.endswith(b.split('::',1)[1]) for p in names)]
print(f"BASELINE: {len(base)-len(miss)}/{len(base)} stable tests pass")
for m in miss[:20]: print("  FAIL/MISSING", m)
sys.exit(1 if miss else 0)
PY
rc=$?
tail -3 /tmp/baseline.$$.log; rm -f /tmp/baseline.$$.log
exit $rc
