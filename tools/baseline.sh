#!/bin/sh
# usage: tools/baseline.sh <repo_dir> [cargo_target_dir]
# Runs the pinned baseline suite (guard off) in <repo_dir> and compares with /root/.vp/BASELINE.json:
# every test that fails must be one of the baseline's always_fail tests, and at least n_stable must pass.
d="$1"; t="${2:-$d/target}"
cd "$d" || exit 2
log=/tmp/baseline.$$.log
INSTA_UPDATE=no CARGO_NET_OFFLINE=true CARGO_TARGET_DIR="$t" cargo nextest run --workspace --no-fail-fast --tool-config-file pb:/w/lib/nextest.toml --profile pb --test-threads 8 --offline >$log 2>&1
python3 - $log <<'PY'
import json,re,sys
b=json.load(open('/root/.vp/BASELINE.json'))
always=set(b['always_fail']); n=b['n_stable']
log=open(sys.argv[1]).read()
fails=set()
for m in re.finditer(r'^\s+(?:FAIL|TIMEOUT|SIGABRT|SIGSEGV|LEAK-FAIL)\s+\[[^\]]*\]\s+(?:\(\s*\d+/\d+\)\s+)?(\S+)\s+(\S+)', log, re.M):
    fails.add(m.group(1).split('::')[0]+'::'+ (m.group(1).split('::',1)[1]+'::' if '::' in m.group(1) else '') + m.group(2))
s=re.search(r'(\d+) tests run: (\d+) passed', log)
if not s:
    print("BASELINE: no summary (build failed?)"); print(log[-1500:]); sys.exit(1)
run,passed=int(s.group(1)),int(s.group(2))
unexpected=sorted(f for f in fails if f not in always)
print(f"BASELINE: {passed} passed of {run} run (need >= {n}); unexpected failures: {len(unexpected)}")
for u in unexpected[:20]: print("  FAIL", u)
sys.exit(0 if (passed>=n and not unexpected) else 1)
PY
rc=$?
rm -f $log
exit $rc
