#!/usr/bin/env python3
"""C15 table tie (translator): public API of `Repository` -> lean/Rustic/Gen/RepositoryApi.lean.

Run on every check (hooked through tools/constants/C15.py, which tools/gen_constants.py executes).
Enumerates, from the *current* source tree,

  * `repositoryPublicFns`   every `pub fn` of every inherent `impl … Repository<…> { … }` block of
                            crates/core/src/repository.rs (sorted, de-duplicated; `pub(crate)` is not public),
  * `repositoryDryRunFns`   those of them that take a `dry_run: bool` parameter,
  * `dryRunOptionStructs`   every `pub struct` anywhere under crates/core/src with a `pub dry_run: bool` field
                            (as "<file relative to crates/core/src>:<struct>").

`Rustic/Props/C15.lean` proves (by `decide`, closed finite facts) that every name is classified by the
command table (a row, or the reviewed read-only list) and that every dry-run flag is one the traffic check
exercises.  A new public method / dry-run flag, or a row naming a method that no longer exists, therefore
breaks the proof build, which `./check C15` reports as VIOLATION … no-failing-input-found.

The generated file is only rewritten when its content changes.  If the source cannot be parsed the lists are
generated EMPTY (with the reason in a comment): only the C15 proofs break, not the constants of other properties.
"""
import os, re, sys

HERE = os.path.dirname(os.path.abspath(__file__))
REPO = os.environ.get("VERIF_REPO", os.path.normpath(os.path.join(HERE, "..", "..", "repo")))
OUT = os.path.join(HERE, "..", "lean", "Rustic", "Gen", "RepositoryApi.lean")
SRC = os.path.join("crates", "core", "src")
REPOSITORY_RS = os.path.join(SRC, "repository.rs")

IMPL_RX = re.compile(r"^impl\b[^{;]*?\bRepository\s*<[^{;]*\{", re.M)
FN_RX = re.compile(r"^    pub\s+(?:(?:const|async|unsafe)\s+)*fn\s+([A-Za-z_][A-Za-z0-9_]*)", re.M)


def strip_comments(src):
    """blank out `//` line comments and `/* */` block comments (strings in this file contain neither braces at
    line start nor `pub fn`, so no string handling is needed for the patterns used here)."""
    src = re.sub(r"/\*.*?\*/", lambda m: re.sub(r"[^\n]", " ", m.group(0)), src, flags=re.S)
    return re.sub(r"//[^\n]*", "", src)


def impl_blocks(src):
    """(header, body) of every inherent impl block of Repository; a block ends at the first `}` in column 0."""
    out = []
    for m in IMPL_RX.finditer(src):
        header = m.group(0)
        if re.search(r"\bfor\s+Repository\b", header):      # trait impl: methods are not `pub fn`
            continue
        end = re.compile(r"^\}", re.M).search(src, m.end())
        if not end:
            raise ValueError("unterminated impl block: " + header.strip()[:60])
        out.append((header, src[m.end():end.start()]))
    return out


def signature(body, pos):
    """text of the fn signature starting at pos up to its opening brace"""
    depth = 0
    for i in range(pos, len(body)):
        c = body[i]
        if c in "(<[":
            depth += 1
        elif c in ")>]":
            depth -= 1 if not (c == ">" and body[i - 1] == "-") else 0
        elif c in "{;" and depth <= 0:
            return body[pos:i]
    return body[pos:]


def public_fns(repo_root):
    src = strip_comments(open(os.path.join(repo_root, REPOSITORY_RS)).read())
    blocks = impl_blocks(src)
    if not blocks:
        raise ValueError("no `impl … Repository<…>` block found in " + REPOSITORY_RS)
    names, dry = set(), set()
    for _, body in blocks:
        for m in FN_RX.finditer(body):
            names.add(m.group(1))
            if re.search(r"\bdry_run\s*:\s*bool\b", signature(body, m.start())):
                dry.add(m.group(1))
    if len(names) < 10:
        raise ValueError(f"only {len(names)} public methods found — parser out of date?")
    return sorted(names), sorted(dry)


def dry_run_structs(repo_root):
    base = os.path.join(repo_root, SRC)
    out = set()
    for d, _, fs in os.walk(base):
        for f in fs:
            if not f.endswith(".rs"):
                continue
            p = os.path.join(d, f)
            src = strip_comments(open(p, errors="replace").read())
            for m in re.finditer(r"^\s*pub\s+dry_run\s*:\s*bool\b", src, re.M):
                structs = re.findall(r"\bpub\s+struct\s+([A-Za-z_][A-Za-z0-9_]*)", src[:m.start()])
                out.add(os.path.relpath(p, base).replace(os.sep, "/") + ":" + (structs[-1] if structs else "?"))
    return sorted(out)


def lean_list(xs):
    if not xs:
        return "[]"
    lines, cur = [], "  ["
    for i, x in enumerate(xs):
        tok = '"' + x + '"' + ("," if i + 1 < len(xs) else "]")
        if len(cur) + len(tok) > 110:
            lines.append(cur.rstrip())
            cur = "   "
        cur += tok + " "
    lines.append(cur.rstrip())
    return "\n" + "\n".join(lines)


def render(repo_root):
    note = ""
    try:
        fns, dry = public_fns(repo_root)
        structs = dry_run_structs(repo_root)
    except Exception as e:  # noqa: the C15 proofs must break, not the whole constants step
        fns, dry, structs = [], [], []
        note = f"\n/- ERROR while reading the source: {str(e).replace('-/', '- /')} -/"
    return ("/- GENERATED by tools/c15_api_table.py from crates/core/src (repository.rs) on every check run — do not edit. -/"
            + note + "\nnamespace Rustic.Gen\n"
            "/-- every `pub fn` of every inherent `impl … Repository<…>` block of repository.rs -/\n"
            f"def repositoryPublicFns : List String :={lean_list(fns)}\n"
            "/-- the public `Repository` methods with a `dry_run: bool` parameter -/\n"
            f"def repositoryDryRunFns : List String :={lean_list(dry)}\n"
            "/-- every `pub struct` under crates/core/src with a `pub dry_run: bool` field (file:struct) -/\n"
            f"def dryRunOptionStructs : List String :={lean_list(structs)}\n"
            "end Rustic.Gen\n"), (fns, dry, structs, note)


def main(repo_root=REPO, out=OUT):
    text, (fns, dry, structs, note) = render(repo_root)
    old = open(out).read() if os.path.exists(out) else None
    if old != text:
        os.makedirs(os.path.dirname(out), exist_ok=True)
        with open(out, "w") as f:
            f.write(text)
    return (f"repository api: {len(fns)} public methods, {len(dry)} with dry_run, {len(structs)} dry_run option structs"
            + (" (rewritten)" if old != text else " (unchanged)") + (" " + note.strip() if note else ""))


if __name__ == "__main__":
    print(main())
    if "--list" in sys.argv:
        _, (fns, dry, structs, _) = render(REPO)
        print("\n".join(fns)); print("dry_run params:", dry); print("dry_run fields:", structs)
    sys.exit(0)
