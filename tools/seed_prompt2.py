#!/usr/bin/env python3
import json,sys,glob,os
pid,n=sys.argv[1],sys.argv[2]
for l in open('/verif/properties.jsonl'):
    p=json.loads(l)
    if p['id']==pid: break
t=open('/work/prompts/seeder.md').read()
prev=[]
for d in sorted(glob.glob(f'/verif/seeded/{pid}-*/meta.json')):
    m=json.load(open(d)); prev.append(f"  - {m['title']} (needs: {m['needs_to_manifest']})")
extra="\nALREADY DONE in an earlier round (do NOT repeat these or close variants; choose different code sites and different mechanisms,\nand prefer clauses of the property that the list below does not touch):\n"+"\n".join(prev)+"\n"
t=t.replace("YOUR JOB:", extra+"\nYOUR JOB:")
t=(t.replace('{ID}',pid).replace('{DIR}','/tmp/seed'+os.environ.get('ROUND','2')+'/'+pid).replace('{TITLE}',p['title']).replace('{STATEMENT}',p['statement'])
   .replace('{QUANT}',p['quantifier']['text']).replace('{FILES}',', '.join(p['anchors']['files'])).replace('{N}',n))
os.makedirs(f"/tmp/seed{os.environ.get('ROUND','2')}/{pid}",exist_ok=True)
open(f"/tmp/seed{os.environ.get('ROUND','2')}/{pid}/TASK.md",'w').write(t)
print(f"/tmp/seed{os.environ.get('ROUND','2')}/{pid}/TASK.md")
