#!/usr/bin/env python3
"""Regenerate /verif/MANIFEST.json from props/Cxx.py (claimed) and properties.jsonl (everything else)."""
import importlib.util, json, os, subprocess
ROOT = os.path.join(os.path.dirname(os.path.abspath(__file__)), "..")
props = [json.loads(l) for l in open(os.path.join(ROOT, "properties.jsonl"))]
checks, na = [], []
PENDING = json.load(open(os.path.join(ROOT, "tools", "pending.json")))
for p in props:
    pid = p["id"]
    path = os.path.join(ROOT, "props", pid + ".py")
    if not os.path.exists(path):
        na.append(dict(property_id=pid, reason=PENDING.get(pid, "machinery for this property is not built yet (planned in DESIGN.md §6); nothing is claimed for it")))
        continue
    spec = importlib.util.spec_from_file_location("p", path); m = importlib.util.module_from_spec(spec); spec.loader.exec_module(m)
    checks.append(dict(
        property_id=pid,
        quick_cmd=f"./check {pid} --tier quick",
        thorough_cmd=f"./check {pid} --tier thorough",
        evidence_file=f"evidence/{pid}.json",
        replay_cmd_template=f"./check {pid} --replay {{path}}",
        engine="lean4-proof+correspondence",
        level_claimed=dict(category="proof", text=m.EXPLANATION, design_ref=f"DESIGN.md §6 {pid}"),
        level_note="; ".join(m.TRUSTED + m.ASSUMPTIONS),
        technique=getattr(m, "TECHNIQUE", "Lean 4 theorems about a hand-written executable model + per-run differential correspondence (real code vs model) + direct oracles"),
    ))
hooks = subprocess.run(["git", "-C", "/repo", "log", "--format=%h %s", "--grep=^verif hooks"], capture_output=True, text=True).stdout.strip().splitlines()
man = dict(
    version=1,
    setup_cmd="cd /verif && ./check --setup",
    hooks=dict(guard="rustic_core_verif",
               enable="RUSTFLAGS='--cfg rustic_core_verif' (set in /verif/harness/.cargo/config.toml; the harness crate path-depends on /repo/crates/*)",
               baseline_off_cmd="cd /repo && cargo test --workspace --no-fail-fast --offline",
               source_commits=[h.split(" ")[0] for h in hooks], add_only=True),
    engines=[dict(name="lean4-proof+correspondence", path="/verif/check", serves_properties=[c["property_id"] for c in checks],
                  kind_free_text="Lean 4.33 library /verif/lean (models, lemmas, property theorems, compiled model driver) + Rust harness /verif/harness driving the real code in-process + python orchestrator")],
    checks=checks,
    notes="See DESIGN.md. Known findings: known_findings.json. Seeded mutations and which checks catch them: seeded/ and DESIGN.md §10.",
    not_applicable=na,
)
json.dump(man, open(os.path.join(ROOT, "MANIFEST.json"), "w"), indent=1)
print(f"MANIFEST: {len(checks)} claimed, {len(na)} not claimed")
