#!/bin/sh
# usage: tools/merge_agent.sh <X>  — merge branch agent-<X> of /verif into main; generated files are
# taken from ours and regenerated; the duplicate `default_opts` hunk in repo.rs is dropped.
x="$1"
cd /verif
git checkout -q -- evidence 2>/dev/null; git merge agent-$x -m "merge agent-$x" >/tmp/merge.$x.log 2>&1
for f in MANIFEST.json harness/src/dispatch.rs known_findings.json lean/Driver/Main.lean lean/Rustic.lean lean/Rustic/Gen/Constants.lean; do
  git checkout --ours $f 2>/dev/null
done
for f in $(git diff --name-only --diff-filter=U | grep '^evidence/'); do git checkout --ours $f; done
python3 - <<'PY'
import re
p='/verif/harness/src/repo.rs'
s=open(p).read()
def fix(m):
    ours,theirs=m.group(1),m.group(2)
    if 'fn default_opts' in ours and 'fn default_opts' not in theirs and theirs.strip()=="" : return ""
    if 'fn default_opts' in theirs and ours.strip()=="" : return ""
    return m.group(0)
s2=re.sub(r"<<<<<<< HEAD\n(.*?)=======\n(.*?)>>>>>>> agent-\w+\n",fix,s,flags=re.S)
open(p,'w').write(s2)
PY
python3 tools/sync_dispatch.py; python3 tools/gen_constants.py; python3 tools/gen_manifest.py
echo "remaining conflicts:"; git diff --name-only --diff-filter=U; grep -rln "^<<<<<<< " --include="*.rs" --include="*.lean" --include="*.py" --include="*.md" --include="*.ops" --include="*.json" . | grep -v "^./work" ; grep -n "<<<<<<<" harness/src/repo.rs harness/src/util.rs harness/Cargo.toml 2>/dev/null
