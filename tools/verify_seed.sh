#!/bin/sh
# usage: tools/verify_seed.sh <seed_out_dir> <demo test filter>
# Confirms a seeded change in a scratch worktree of /repo: (1) demo passes without the patch,
# (2) patch applies and compiles, (3) demo fails with the patch, (4) the pinned baseline still passes.
set -u
d="$1"; filt="${2:-}"
w=/tmp/seedverify.$$
git -C /repo worktree add -q --detach "$w" HEAD || exit 2
export CARGO_TARGET_DIR=${SV_TARGET:-/tmp/sv-target} CARGO_NET_OFFLINE=true INSTA_UPDATE=no
cd "$w"
git apply "$d/demo.diff" || { echo "demo.diff does not apply"; cd /; git -C /repo worktree remove --force "$w"; exit 2; }
echo "== demo without patch"; cargo test --offline -p rustic_core $filt 2>&1 | grep -E "^test result|^test .*(ok|FAILED)|error(\[|:)" | head -20
git apply "$d/patch.diff" || { echo "patch.diff does not apply"; cd /; git -C /repo worktree remove --force "$w"; exit 2; }
echo "== demo with patch"; cargo test --offline -p rustic_core $filt 2>&1 | grep -E "^test result|^test .*(ok|FAILED)|error(\[|:)" | head -20
git apply -R "$d/demo.diff"
echo "== baseline with patch"; /verif/tools/baseline.sh "$w" ${SV_TARGET:-/tmp/sv-target} | head -8
cd /; git -C /repo worktree remove --force "$w"
