#!/bin/sh
# usage: tools/verify_queue.sh <target_dir> <log> <id/k> ...   — verify seeds sequentially (demo args derived from demo.diff)
t="$1"; log="$2"; shift 2
for s in "$@"; do
  d=/tmp/seed/$s; d=$(echo $d | sed 's|/\([0-9]*\)$|/out/\1|')
  f=$(grep '^+++ b/crates/core/tests/.*\.rs' $d/demo.diff | head -1 | sed 's|.*/tests/||; s|\.rs$||')
  if [ -n "$f" ]; then args="--test $f"; else
    m=$(grep '^+++ b/crates/core/src/.*\.rs' $d/demo.diff | grep -v "mod.rs" | tail -1 | sed 's|.*/||; s|\.rs$||'); args="--lib $m"; fi
  echo "##### $s ($args)" >> $log
  SV_TARGET=$t /verif/tools/verify_seed.sh $d "$args" >> $log 2>&1
done
echo "##### QUEUE DONE" >> $log
