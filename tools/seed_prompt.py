#!/usr/bin/env python3
import json,sys
pid,n=sys.argv[1],sys.argv[2]
for l in open('/verif/properties.jsonl'):
    p=json.loads(l)
    if p['id']==pid: break
t=open('/work/prompts/seeder.md').read()
t=(t.replace('{ID}',pid).replace('{DIR}','/tmp/seed/'+pid).replace('{TITLE}',p['title']).replace('{STATEMENT}',p['statement'])
   .replace('{QUANT}',p['quantifier']['text']).replace('{FILES}',', '.join(p['anchors']['files'])).replace('{N}',n))
open(f'/work/prompts/seed_{pid}.md','w').write(t)
print(f'/work/prompts/seed_{pid}.md')
