#!/usr/bin/env python3
"""After cherry-picking builder commits onto /repo main, rewrite commit hashes recorded in
known_findings.d/*.json, notes/*.md, props/*.py, corpus to the hashes of the same-subject commits on main."""
import json, os, re, subprocess, glob
ROOT = os.path.join(os.path.dirname(os.path.abspath(__file__)), "..")
def git(*a):
    return subprocess.run(["git", "-C", "/repo", *a], capture_output=True, text=True).stdout
main = {}
for l in git("log", "--format=%h\t%s", "main").splitlines():
    h, s = l.split("\t", 1); main.setdefault(s, h)
allc = {}
for l in git("log", "--all", "--format=%h\t%s").splitlines():
    h, s = l.split("\t", 1); allc[h] = s
mainset = set(main.values())
def repl(m):
    h = m.group(0)
    for k, s in allc.items():
        if (k.startswith(h) or h.startswith(k)) and k not in mainset and s in main:
            return main[s]
    return h
n = 0
for pat in ("known_findings.d/*.json", "notes/*.md", "props/*.py", "corpus/*/*", "lean/Rustic/**/*.lean", "harness/src/*.rs"):
    for f in glob.glob(os.path.join(ROOT, pat), recursive=True):
        if not os.path.isfile(f): continue
        s = open(f, errors="replace").read()
        s2 = re.sub(r"\b[0-9a-f]{7,12}\b", repl, s)
        if s2 != s:
            open(f, "w").write(s2); n += 1
print("files updated:", n)
